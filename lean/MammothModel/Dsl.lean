/-
  Dsl.lean — model of mammoth/styles/parser/* and mammoth/options.py.
  The tokeniser is written as hand-made maximal-munch functions, one per rule of
  `tokeniser.py` (the rule sources are pinned by `Generated.tokenRules`).
-/
import MammothModel.Doc
namespace Mammoth

inductive TokTy where
  | identifier | symbol | whitespace | string | unterminated | integer | unknown | «end»
deriving DecidableEq, Repr, Inhabited

structure Token where
  ty : TokTy
  val : Str
deriving DecidableEq, Repr, Inhabited

/-- `.` of `re` without DOTALL -/
def isDot (c : Char) : Bool := c != '\n'

def isIdentStart (c : Char) : Bool := c.isAlpha && c.toNat < 128 || c == '-' || c == '_'
def isDigit (c : Char) : Bool := '0'.toNat ≤ c.toNat && c.toNat ≤ '9'.toNat

/-- `(?:(?:[a-zA-Z\-_]|\\.)|[0-9])*` : returns (matched, rest) -/
def lexIdentRest : Str → Str × Str
  | '\\' :: c :: cs =>
    if isDot c then let (m, r) := lexIdentRest cs; ('\\' :: c :: m, r) else ([], '\\' :: c :: cs)
  | c :: cs =>
    if isIdentStart c || isDigit c then let (m, r) := lexIdentRest cs; (c :: m, r) else ([], c :: cs)
  | [] => ([], [])

/-- IDENTIFIER: `(?:[a-zA-Z\-_]|\\.)(?:…)*` -/
def lexIdent : Str → Option (Str × Str)
  | '\\' :: c :: cs =>
    if isDot c then let (m, r) := lexIdentRest cs; some ('\\' :: c :: m, r) else none
  | c :: cs =>
    if isIdentStart c then let (m, r) := lexIdentRest cs; some (c :: m, r) else none
  | [] => none

/-- SYMBOL: `:|>|=>|\^=|=|\(|\)|\[|\]|\||!|\.` (ordered alternation) -/
def lexSymbol : Str → Option (Str × Str)
  | ':' :: cs => some ([':'], cs)
  | '>' :: cs => some (['>'], cs)
  | '=' :: '>' :: cs => some (['=', '>'], cs)
  | '^' :: '=' :: cs => some (['^', '='], cs)
  | '=' :: cs => some (['='], cs)
  | '(' :: cs => some (['('], cs)
  | ')' :: cs => some ([')'], cs)
  | '[' :: cs => some (['['], cs)
  | ']' :: cs => some ([']'], cs)
  | '|' :: cs => some (['|'], cs)
  | '!' :: cs => some (['!'], cs)
  | '.' :: cs => some (['.'], cs)
  | _ => none

def spanP (p : Char → Bool) : Str → Str × Str
  | [] => ([], [])
  | c :: cs => if p c then let (m, r) := spanP p cs; (c :: m, r) else ([], c :: cs)

/-- WHITESPACE: `\s+` -/
def lexWs (s : Str) : Option (Str × Str) :=
  match spanP isSpace s with
  | ([], _) => none
  | (m, r) => some (m, r)

/-- `(?:\\.|[^'\\])*` — the body of a string; deterministic since the two alternatives
    start with different characters -/
def lexStringBody : Str → Str × Str
  | '\\' :: c :: cs =>
    if isDot c then let (m, r) := lexStringBody cs; ('\\' :: c :: m, r) else ([], '\\' :: c :: cs)
  | c :: cs =>
    if c != '\'' && c != '\\' then let (m, r) := lexStringBody cs; (c :: m, r) else ([], c :: cs)
  | [] => ([], [])

/-- STRING `'(?:\\.|[^'\\])*'` then UNTERMINATED_STRING `'(?:\\.|[^'\\])*` -/
def lexString : Str → Option (TokTy × Str × Str)
  | '\'' :: cs =>
    match lexStringBody cs with
    | (m, '\'' :: r) => some (.string, '\'' :: m ++ ['\''], r)
    | (m, r) => some (.unterminated, '\'' :: m, r)
  | _ => none

/-- INTEGER `([0-9]+)` -/
def lexInt (s : Str) : Option (Str × Str) :=
  match spanP isDigit s with
  | ([], _) => none
  | (m, r) => some (m, r)

/-- one step of `regex_tokeniser`: the first rule that matches at the current position -/
def lexOne (s : Str) : Option (Token × Str) :=
  match lexIdent s with
  | some (m, r) => some (⟨.identifier, m⟩, r)
  | none =>
  match lexSymbol s with
  | some (m, r) => some (⟨.symbol, m⟩, r)
  | none =>
  match lexWs s with
  | some (m, r) => some (⟨.whitespace, m⟩, r)
  | none =>
  match lexString s with
  | some (ty, m, r) => some (⟨ty, m⟩, r)
  | none =>
  match lexInt s with
  | some (m, r) => some (⟨.integer, m⟩, r)
  | none =>
  match s with
  | c :: cs => if isDot c then some (⟨.unknown, [c]⟩, cs) else none
  | [] => none

/-- `tokenise(value)`; fuel = length of the input is always enough since every token is
    non-empty (`lexOne_progress`).  `none` = the "Should be impossible" exception. -/
def tokeniseFuel : Nat → Str → Option (List Token)
  | _, [] => some [⟨.end, []⟩]
  | 0, _ :: _ => none
  | f+1, s =>
    match lexOne s with
    | some (t, r) => (tokeniseFuel f r).map (t :: ·)
    | none => none

def tokenise (s : Str) : Option (List Token) := tokeniseFuel s.length s

/-! ### token_parser / TokenIterator -/

abbrev P (α : Type) := List Token → Option (α × List Token)   -- `none` = LineParseError

/-- `decode_escape_sequences` -/
def decodeEscapes : Str → Str
  | '\\' :: c :: cs =>
    if isDot c then
      (if c == 'n' then '\n' else if c == 'r' then '\r' else if c == 't' then '\t' else c) :: decodeEscapes cs
    else '\\' :: decodeEscapes (c :: cs)
  | c :: cs => c :: decodeEscapes cs
  | [] => []

/-- `tokens.try_skip(type, value)` -/
def trySkip (ty : TokTy) (v : Str) : List Token → Option (List Token)
  | t :: ts => if t.ty == ty && t.val == v then some ts else none
  | [] => none

def trySkipTy (ty : TokTy) : List Token → Option (List Token)
  | t :: ts => if t.ty == ty then some ts else none
  | [] => none

/-- `tokens.next_value(type)` -/
def nextValue (ty : TokTy) : P Str
  | t :: ts => if t.ty == ty then some (t.val, ts) else none
  | [] => none

def parseIdentifier : P Str := fun ts =>
  (nextValue .identifier ts).map fun (v, r) => (decodeEscapes v, r)

/-- `parse_string`: `value[1:-1]` then decode -/
def parseString : P Str := fun ts =>
  (nextValue .string ts).map fun (v, r) => (decodeEscapes (v.drop 1).dropLast, r)

/-- `try_parse_class_name` -/
def tryParseClassName : List Token → Option (Option Str × List Token) := fun ts =>
  match trySkip .symbol ['.'] ts with
  | some r => (parseIdentifier r).map fun (v, r') => (some v, r')
  | none => some (none, ts)

/-! ### document_matcher_parser -/

def parseStringMatcher : P StrMatch := fun ts =>
  match trySkip .symbol ['='] ts with
  | some r => (parseString r).map fun (v, r') => (.equalTo v, r')
  | none =>
    match trySkip .symbol ['^', '='] ts with
    | some r => (parseString r).map fun (v, r') => (.startsWith v, r')
    | none => none

def parseStyleName : List Token → Option (Option StrMatch × List Token) := fun ts =>
  match trySkip .symbol ['['] ts with
  | some r => do
    let r ← trySkip .identifier S!"style-name" r
    let (m, r) ← parseStringMatcher r
    let r ← trySkip .symbol [']'] r
    pure (some m, r)
  | none => some (none, ts)

def digitsToNat (s : Str) : Nat := s.foldl (fun n c => n * 10 + (c.toNat - '0'.toNat)) 0

/-- CPython's `sys.int_info.default_max_str_digits` -/
def maxStrDigits : Nat := 4300

/-- `str(int(digits) - 1)` -/
def levelIndexOf (digits : Str) : Str :=
  let n := digitsToNat digits
  if n == 0 then S!"-1" else natToStr (n - 1)

def parseNumbering : List Token → Option (Option NumLevel × List Token) := fun ts =>
  match trySkip .symbol [':'] ts with
  | some r => do
    let (lt, r) ← nextValue .identifier r
    let ordered ← (if lt == S!"ordered-list" then some true
                   else if lt == S!"unordered-list" then some false else none)
    let r ← trySkip .symbol ['('] r
    let (digits, r) ← nextValue .integer r
    let r ← (if digits.length > maxStrDigits then none else trySkip .symbol [')'] r)
    pure (some ⟨levelIndexOf digits, ordered⟩, r)
  | none => some (none, ts)

def parseBracketString (key : Str) : P Str := fun ts => do
  let r ← trySkip .symbol ['['] ts
  let r ← trySkip .identifier key r
  let r ← trySkip .symbol ['='] r
  let (v, r) ← parseString r
  let r ← trySkip .symbol [']'] r
  pure (v, r)

def parseDocumentMatcher : P Matcher := fun ts =>
  match ts with
  | ⟨.identifier, name⟩ :: r =>
    if name == S!"p" then do
      let (sid, r) ← tryParseClassName r
      let (sn, r) ← parseStyleName r
      let (num, r) ← parseNumbering r
      pure (.paragraph sid sn num, r)
    else if name == S!"r" then do
      let (sid, r) ← tryParseClassName r
      let (sn, r) ← parseStyleName r
      pure (.run sid sn, r)
    else if name == S!"table" then do
      let (sid, r) ← tryParseClassName r
      let (sn, r) ← parseStyleName r
      pure (.table sid sn, r)
    else if name == S!"b" then some (.bold, r)
    else if name == S!"i" then some (.italic, r)
    else if name == S!"u" then some (.underline, r)
    else if name == S!"strike" then some (.strikethrough, r)
    else if name == S!"all-caps" then some (.allCaps, r)
    else if name == S!"small-caps" then some (.smallCaps, r)
    else if name == S!"highlight" then
      (match trySkip .symbol ['['] r with
       | some _ => (parseBracketString S!"color" r).map fun (c, r') => (.highlight (some c), r')
       | none => some (.highlight none, r))
    else if name == S!"comment-reference" then some (.commentReference, r)
    else if name == S!"br" then do
      let (ty, r) ← parseBracketString S!"type" r
      if ty == S!"line" || ty == S!"page" || ty == S!"column" then pure (.brk ty, r) else none
    else none
  | _ => none

/-! ### html_path_parser -/

/-- `_parse_tag_names` -/
def parseAlts : Nat → List Token → Option (List Str × List Token)
  | 0, ts => some ([], ts)
  | f+1, ts =>
    match trySkip .symbol ['|'] ts with
    | some r => do
      let (n, r) ← parseIdentifier r
      let (ns, r) ← parseAlts f r
      pure (n :: ns, r)
    | none => some ([], ts)

inductive AttrOrClass where
  | attr (name value : Str)
  | cls (name : Str)
deriving DecidableEq, Repr

/-- `_parse_attribute_or_class_names` (fuel: the token count) -/
def parseAttrs : Nat → List Token → Option (List AttrOrClass × List Token)
  | 0, ts => some ([], ts)
  | f+1, ts =>
    match ts with
    | ⟨.symbol, ['[']⟩ :: r => do
      let (name, r) ← parseIdentifier r
      let r ← trySkip .symbol ['='] r
      let (v, r) ← parseString r
      let r ← trySkip .symbol [']'] r
      let (rest, r) ← parseAttrs f r
      pure (.attr name v :: rest, r)
    | ⟨.symbol, ['.']⟩ :: r => do
      let (c, r) ← parseIdentifier r
      let (rest, r) ← parseAttrs f r
      pure (.cls c :: rest, r)
    | _ => some ([], ts)

/-- the attribute dictionary built by `_parse_element` -/
def buildAttrs (d : Dict Str) : List AttrOrClass → Dict Str
  | [] => d
  | .attr n v :: rest => buildAttrs (Dict.insert n v d) rest
  | .cls c :: rest =>
    let cur := Dict.get? S!"class" d
    match cur with
    | some old => if old.isEmpty then buildAttrs (Dict.insert S!"class" c d) rest
                  else buildAttrs (Dict.insert S!"class" (old ++ [' '] ++ c) d) rest
    | none => buildAttrs (Dict.insert S!"class" c d) rest

/-- `try_skip_many(((SYMBOL, ":"), (IDENTIFIER, word)))` -/
def trySkipColonWord (word : Str) (ts : List Token) : Option (List Token) :=
  match ts with
  | ⟨.symbol, [':']⟩ :: ⟨.identifier, w⟩ :: r => if w == word then some r else none
  | _ => none

def parseElement (fuel : Nat) : P Tag := fun ts => do
  let (n, r) ← parseIdentifier ts
  let (alts, r) ← parseAlts fuel r
  let (acs, r) ← parseAttrs fuel r
  let (fresh, r) := match trySkipColonWord S!"fresh" r with
    | some r' => (true, r')
    | none => (false, r)
  let (sep, r) ← (match trySkipColonWord S!"separator" r with
    | some r' => do
      let r' ← trySkip .symbol ['('] r'
      let (v, r') ← parseString r'
      let r' ← trySkip .symbol [')'] r'
      pure (some v, r')
    | none => some (none, r))
  pure ({ name := n, alts := alts, attrs := buildAttrs [] acs, collapsible := !fresh, separator := sep }, r)

/-- `while tokens.try_skip_many(((WHITESPACE, None), (SYMBOL, ">"))): skip(WHITESPACE); element` -/
def parseMoreElements : Nat → List Token → Option (List Tag × List Token)
  | 0, ts => some ([], ts)
  | f+1, ts =>
    match ts with
    | ⟨.whitespace, _⟩ :: ⟨.symbol, ['>']⟩ :: r => do
      let r ← trySkipTy .whitespace r
      let (e, r) ← parseElement (f+1) r
      let (es, r) ← parseMoreElements f r
      pure (e :: es, r)
    | _ => some ([], ts)

def parseHtmlPath (fuel : Nat) : P HtmlPath := fun ts =>
  match trySkip .symbol ['!'] ts with
  | some r => some (.ignore, r)
  | none =>
    match ts with
    | ⟨.identifier, _⟩ :: _ => do
      let (e, r) ← parseElement fuel ts
      let (es, r) ← parseMoreElements fuel r
      pure (.elements (e :: es), r)
    | _ => some (.elements [], ts)

/-- `parse_style_mapping` -/
def parseStyleMapping (ts : List Token) : Option Style := do
  let (m, r) ← parseDocumentMatcher ts
  let r ← trySkipTy .whitespace r
  let r ← trySkip .symbol ['=', '>'] r
  let r := (trySkipTy .whitespace r).getD r
  let (p, r) ← parseHtmlPath ts.length r
  let _ ← trySkipTy .end r
  pure ⟨m, p⟩

/-- `read_style_mapping(line)` : the mapping, or `none` + one warning -/
def readStyleMapping (line : Str) : Option Style :=
  match tokenise line with
  | some ts => parseStyleMapping ts
  | none => none   -- "Should be impossible" (would be an uncaught Exception in the code)

def styleWarning (line : Str) : Str :=
  S!"Did not understand this style mapping, so ignored it: " ++ line

/-! ### options.py -/

/-- `_get_line` + `filter(None, …)` -/
def styleLines (text : Str) : List Str :=
  ((splitOnChar '\n' text).map strip).filter fun l => !l.isEmpty && !startsWith l ['#']

/-- `_read_style_map(text)` : (mappings, messages) with `Result`'s `unique` -/
def readStyleMap (text : Str) : List Style × List Str :=
  let rs := (styleLines text).map fun l => (l, readStyleMapping l)
  (rs.filterMap (·.2), unique (rs.filterMap fun (l, r) => if r.isNone then some (styleWarning l) else none))

end Mammoth
