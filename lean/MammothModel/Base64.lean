/-
  Base64.lean — RFC 4648 base64 (`base64.b64encode`) on byte lists, and its inverse.
-/
import MammothModel.Basic
namespace Mammoth

def b64Alphabet : List Char :=
  S!"ABCDEFGHIJKLMNOPQRSTUVWXYZabcdefghijklmnopqrstuvwxyz0123456789+/"

def b64Char (n : Nat) : Char := b64Alphabet.getD n '?'

def b64encode : List UInt8 → Str
  | [] => []
  | [a] =>
    let n := a.toNat
    [b64Char (n / 4), b64Char (n % 4 * 16), '=', '=']
  | [a, b] =>
    let n := a.toNat * 256 + b.toNat
    [b64Char (n / 1024), b64Char (n / 16 % 64), b64Char (n % 16 * 4), '=']
  | a :: b :: c :: rest =>
    let n := a.toNat * 65536 + b.toNat * 256 + c.toNat
    b64Char (n / 262144) :: b64Char (n / 4096 % 64) :: b64Char (n / 64 % 64) :: b64Char (n % 64) ::
      b64encode rest

def b64Val (c : Char) : Option Nat :=
  let n := c.toNat
  if 'A'.toNat ≤ n && n ≤ 'Z'.toNat then some (n - 'A'.toNat)
  else if 'a'.toNat ≤ n && n ≤ 'z'.toNat then some (n - 'a'.toNat + 26)
  else if '0'.toNat ≤ n && n ≤ '9'.toNat then some (n - '0'.toNat + 52)
  else if c == '+' then some 62
  else if c == '/' then some 63
  else none

def b64decode : Str → Option (List UInt8)
  | [] => some []
  | [a, b, '=', '='] => do
    let x ← b64Val a; let y ← b64Val b
    some [UInt8.ofNat ((x * 64 + y) / 16)]
  | [a, b, c, '='] => do
    let x ← b64Val a; let y ← b64Val b; let z ← b64Val c
    let n := (x * 64 + y) * 64 + z
    some [UInt8.ofNat (n / 1024), UInt8.ofNat (n / 4 % 256)]
  | a :: b :: c :: d :: rest => do
    let x ← b64Val a; let y ← b64Val b; let z ← b64Val c; let w ← b64Val d
    let n := ((x * 64 + y) * 64 + z) * 64 + w
    let tl ← b64decode rest
    some (UInt8.ofNat (n / 65536) :: UInt8.ofNat (n / 256 % 256) :: UInt8.ofNat (n % 256) :: tl)
  | _ => none

end Mammoth
