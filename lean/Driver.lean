import Driver.Codec
import Driver.Ops2
