import Driver.Codec
