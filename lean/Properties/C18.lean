/-
  C18 — "Conversion reads nothing outside the given file except linked images".

  The converter's only channel to the outside world is `Cfg.world`, and every use of it is logged in
  `ConvState.ioTrace` (`openImage`).  The theorems below bound that trace by the linked images of the
  document, describe the non-raising failure modes of `Files.open`, and record that the reader
  (`readPackage`) has no channel to the outside at all.

  NOT covered by proof: that the XML parser (expat, via `xml.dom.minidom`/`xml.sax`) does not fetch
  DTDs / external entities.  That part of the property concerns the Python runtime below the model's
  `XmlNode` input and is OBSERVED by the test harness, not proved here.
-/
import Proofs.C18_Doc
import Proofs.C18_Image
import Proofs.C18_SimDoc
import Proofs.C18_Ext7
namespace Mammoth

/-- Every external read performed by a successful `convertDoc` is a read on behalf of one of the
    linked images (`.image` with `src = .linked uri`) occurring in the document body, a note body or
    a comment body: `urlopen uri` when `uri` is absolute, or opening `os.path.join(base, uri)` when
    it is relative and the input has a directory `base`. -/
theorem C18_io_only_linked_images (cfg : Cfg) (d : Document) (r : ConvResult)
    (h : convertDoc cfg d = .ok r) :
    ∀ op ∈ r.ioTrace, c18_opOk cfg.base (c18_docLinked d) op :=
  fun op hop => (c18_convertDoc cfg d r h op hop).2

/-- The same at the level of the public API `mammoth.convert`: the document that was converted is
    `transform` applied to what the reader produced from the package alone, and every external read
    is one allowed for a linked image of that document, relative to the `base` directory passed in. -/
theorem C18_io_only_linked_images_api (p : Package) (fuel : Nat) (base : Option Str)
    (world : Str → Option Bytes) (transform : Document → Document) (o : Options) (out : ApiOut)
    (h : apiConvert p fuel base world transform o = .ok out) :
    (∃ doc msgs, readPackage p fuel = .ok (doc, msgs) ∧ out.document = transform doc) ∧
    ∀ op ∈ out.ioTrace, c18_opOk base (c18_docLinked out.document) op := by
  unfold apiConvert at h
  dsimp only at h
  split at h <;>
  · obtain ⟨emb, _, h⟩ := c18_except_bind_ok _ _ _ h
    generalize readOptions o.styleMap emb o.includeDefault = ro at h
    obtain ⟨sm, om⟩ := ro
    dsimp only at h
    obtain ⟨⟨doc, msgs⟩, hread, h⟩ := c18_except_bind_ok _ _ _ h
    dsimp only at h
    obtain ⟨r, hconv, h⟩ := c18_except_bind_ok _ _ _ h
    cases h
    exact ⟨⟨doc, msgs, hread, rfl⟩, C18_io_only_linked_images _ _ r hconv⟩

/-- A document without linked images (all images embedded in the package) is converted without any
    external read. -/
theorem C18_embedded_no_io (cfg : Cfg) (d : Document) (r : ConvResult)
    (hd : c18_docLinked d = []) (h : convertDoc cfg d = .ok r) : r.ioTrace = [] := by
  have := C18_io_only_linked_images cfg d r h
  rw [hd] at this
  cases hr : r.ioTrace with
  | nil => rfl
  | cons op ops =>
    exact absurd (this op (by rw [hr]; exact List.mem_cons_self)) (c18_opOk_nil _ _)

/-- With an image converter that never opens the image (`img_element(f)` with an `f` that does not
    call `image.open()`), nothing is read whatever the document contains. -/
theorem C18_no_open_no_io (cfg : Cfg) (attrs : List (Str × Str)) (d : Document) (r : ConvResult)
    (hc : cfg.imageConv = .fixed attrs false) (h : convertDoc cfg d = .ok r) : r.ioTrace = [] := by
  cases hr : r.ioTrace with
  | nil => rfl
  | cons op ops =>
    have := (c18_convertDoc cfg d r h op (by rw [hr]; exact List.mem_cons_self)).1
    simp [c18_opens, hc] at this

/-- A relative linked image when the input is an anonymous file object (`base = none`), with an
    image converter that opens the image: nothing is read, no exception is raised, the result is
    no node at all and exactly one warning "could not find external image '…', fileobj has no name". -/
theorem C18_no_name_warning (cfg : Cfg) (a ct : Option Str) (uri : Str) (st : ConvState)
    (habs : isAbsoluteUri uri = false) (hb : cfg.base = none) (ho : c18_opens cfg = true) :
    (convertImage cfg { altText := a, contentType := ct, src := .linked uri }).run st =
      .ok ([], { st with
        imageCalls := st.imageCalls ++ [{ altText := a, contentType := ct, src := .linked uri }],
        messages := st.messages ++
          [S!"could not find external image '" ++ uri ++ S!"', fileobj has no name"] }) :=
  c18_convertImage_warn cfg _ st { st with imageCalls := st.imageCalls ++ [_] } _ ho
    (c18_openImage_noname cfg uri _ habs hb)

/-- `C18_no_name_warning` for the default converter `mammoth.images.data_uri`. -/
theorem C18_no_name_warning_dataUri (cfg : Cfg) (a ct : Option Str) (uri : Str) (st : ConvState)
    (habs : isAbsoluteUri uri = false) (hb : cfg.base = none) (hc : cfg.imageConv = .dataUri) :
    (convertImage cfg { altText := a, contentType := ct, src := .linked uri }).run st =
      .ok ([], { st with
        imageCalls := st.imageCalls ++ [{ altText := a, contentType := ct, src := .linked uri }],
        messages := st.messages ++
          [S!"could not find external image '" ++ uri ++ S!"', fileobj has no name"] }) :=
  C18_no_name_warning cfg a ct uri st habs hb (by simp [c18_opens, hc])

/-- `C18_no_name_warning` for `img_element(f)` with an `f` that opens the image. -/
theorem C18_no_name_warning_fixed (cfg : Cfg) (attrs : List (Str × Str)) (a ct : Option Str)
    (uri : Str) (st : ConvState)
    (habs : isAbsoluteUri uri = false) (hb : cfg.base = none) (hc : cfg.imageConv = .fixed attrs true) :
    (convertImage cfg { altText := a, contentType := ct, src := .linked uri }).run st =
      .ok ([], { st with
        imageCalls := st.imageCalls ++ [{ altText := a, contentType := ct, src := .linked uri }],
        messages := st.messages ++
          [S!"could not find external image '" ++ uri ++ S!"', fileobj has no name"] }) :=
  C18_no_name_warning cfg a ct uri st habs hb (by simp [c18_opens, hc])

/-- Absolute uri whose `urlopen` fails (`world uri = none`): not an error; no node; exactly the one
    read `urlopen uri` is logged and exactly one warning
    "could not open external image: '…' (document directory: '…')" is added. -/
theorem C18_open_failure_warning_abs (cfg : Cfg) (a ct : Option Str) (uri : Str) (st : ConvState)
    (habs : isAbsoluteUri uri = true) (hw : cfg.world uri = none) (ho : c18_opens cfg = true) :
    (convertImage cfg { altText := a, contentType := ct, src := .linked uri }).run st =
      .ok ([], { st with
        imageCalls := st.imageCalls ++ [{ altText := a, contentType := ct, src := .linked uri }],
        ioTrace := st.ioTrace ++ [.urlopen uri],
        messages := st.messages ++
          [S!"could not open external image: '" ++ uri ++ S!"' (document directory: '" ++
            pyOpt cfg.base ++ S!"')"] }) := by
  refine c18_convertImage_warn cfg _ st
    { st with imageCalls := st.imageCalls ++ [_], ioTrace := st.ioTrace ++ [.urlopen uri] } _ ho ?_
  rw [c18_openImage_abs cfg uri _ habs, hw]
  rfl

/-- Relative uri, input with directory `b`, and opening `os.path.join(b, uri)` fails: not an error;
    no node; exactly the one read `open(join(b, uri))` is logged and one warning is added. -/
theorem C18_open_failure_warning_rel (cfg : Cfg) (a ct : Option Str) (uri b : Str) (st : ConvState)
    (habs : isAbsoluteUri uri = false) (hb : cfg.base = some b)
    (hw : cfg.world (osPathJoin b uri) = none) (ho : c18_opens cfg = true) :
    (convertImage cfg { altText := a, contentType := ct, src := .linked uri }).run st =
      .ok ([], { st with
        imageCalls := st.imageCalls ++ [{ altText := a, contentType := ct, src := .linked uri }],
        ioTrace := st.ioTrace ++ [.openFile (osPathJoin b uri)],
        messages := st.messages ++
          [S!"could not open external image: '" ++ uri ++ S!"' (document directory: '" ++
            b ++ S!"')"] }) := by
  refine c18_convertImage_warn cfg _ st
    { st with imageCalls := st.imageCalls ++ [_],
              ioTrace := st.ioTrace ++ [.openFile (osPathJoin b uri)] } _ ho ?_
  rw [c18_openImage_rel cfg uri b _ habs hb, hw]
  rfl

/-- Converting a linked image never raises, whatever the configuration, the world and the uri. -/
theorem C18_linked_never_raises (cfg : Cfg) (i : ImageProps) (uri : Str) (st : ConvState)
    (hs : i.src = .linked uri) : ∃ r, (convertImage cfg i).run st = .ok r := by
  refine c18_convertImage_ok_of_open cfg i st ?_
  intro s
  rw [hs]
  exact c18_openImage_linked_ok cfg uri s

/-- The reader has no channel to the outside world: `readPackage : Package → Nat → Except Err
    (Document × List Str)` takes neither `world` nor `base`.  Checkable form: whether
    `mammoth.convert` succeeds, the error it raises otherwise, and the document it converted are the
    same whatever the input's directory and whatever the outside world contains. -/
theorem C18_reader_no_io (p : Package) (fuel : Nat) (base base' : Option Str)
    (world world' : Str → Option Bytes) (transform : Document → Document) (o : Options) :
    (apiConvert p fuel base world transform o).map (·.document) =
      (apiConvert p fuel base' world' transform o).map (·.document) :=
  c18_apiConvert_reworld p fuel base base' world world' transform o

/-- Converter level: success or failure of `convertDoc` (with the very same error) and the note
    references it collects do not depend on the input's directory nor on the outside world —
    a failing or succeeding external read never changes the control flow, only the `<img>` node
    or warning produced for that image. -/
theorem C18_outcome_independent_of_world (cfg : Cfg) (b : Option Str) (w : Str → Option Bytes)
    (d : Document) :
    (convertDoc cfg d).map (·.noteRefs) =
      (convertDoc { cfg with base := b, world := w } d).map (·.noteRefs) :=
  c18_convertDoc_reworld cfg b w d

/-- The document converted by a successful `mammoth.convert` is `transform` applied to the reader's
    result, which is a function of the package (and fuel) only. -/
theorem C18_document_from_reader (p : Package) (fuel : Nat) (base : Option Str)
    (world : Str → Option Bytes) (transform : Document → Document) (o : Options) (out : ApiOut)
    (h : apiConvert p fuel base world transform o = .ok out) :
    ∃ doc msgs, readPackage p fuel = .ok (doc, msgs) ∧ out.document = transform doc :=
  (C18_io_only_linked_images_api p fuel base world transform o out h).1

/-- `mammoth.extract_raw_text` is a function of the reader's result only (no converter, hence no
    `world`, no `base`, no external read at all). -/
theorem C18_rawtext_no_io (p : Package) (fuel : Nat) :
    apiRawText p fuel = (readPackage p fuel).map (fun dm => (rawTextDoc dm.1, unique dm.2)) := by
  unfold apiRawText
  cases readPackage p fuel with
  | error e => rfl
  | ok dm => rfl

/-! ### examples -/

/-- one relative linked image, input file in `/tmp`: exactly `/tmp/a.png` is opened -/
example :
    (convertDoc { base := some S!"/tmp", world := fun _ => some [1, 2, 3], imageConv := .fixed [] true }
      { children := [.paragraph {} [.image { src := .linked S!"a.png" }]] }).map (·.ioTrace)
      = .ok [.openFile S!"/tmp/a.png"] := by rfl

/-- one absolute linked image: exactly that URL is opened (and fails: still no error) -/
example :
    (convertDoc { base := some S!"/tmp", imageConv := .fixed [] true }
      { children := [.paragraph {} [.image { src := .linked S!"http://x/a.png" }]] }).map
        (fun r => (r.ioTrace, r.messages.length))
      = .ok ([.urlopen S!"http://x/a.png"], 1) := by rfl

/-- an embedded image: nothing is read from outside -/
example :
    (convertDoc { base := some S!"/tmp", archive := [(S!"word/media/i.png", [7])] }
      { children := [.paragraph {} [.image { src := .embedded S!"word/media/i.png" }]] }).map
        (·.ioTrace) = .ok [] := by rfl

/-- a linked image inside a referenced comment body is read too (and is in `c18_docLinked`) -/
example :
    c18_docLinked
      { children := [.image { src := .linked S!"a" }],
        notes := [⟨S!"footnote", S!"1", [.image { src := .linked S!"b" }]⟩],
        comments := [{ id := S!"0", body := [.image { src := .embedded S!"z" }, .image { src := .linked S!"c" }] }] }
      = [S!"a", S!"b", S!"c"] := by rfl

/-- a linked image in the body of a referenced footnote is read (after the one of the body) -/
example :
    (convertDoc { base := some S!"/d/", world := fun _ => some [], imageConv := .fixed [] true }
      { children := [.image { src := .linked S!"a" }, .noteRef S!"footnote" S!"1"],
        notes := [⟨S!"footnote", S!"1", [.image { src := .linked S!"file:b" }]⟩] }).map (·.ioTrace)
      = .ok [.openFile S!"/d/a", .urlopen S!"file:b"] := by rfl

/-- relative uri, no directory: no read, one warning, no error -/
example :
    (convertDoc { base := none }
      { children := [.image { src := .linked S!"a.png" }] }).map
        (fun r => (r.ioTrace, r.messages))
      = .ok ([], [S!"could not find external image 'a.png', fileobj has no name"]) := by rfl

/-- the converter that does not open: no read even for a linked image -/
example :
    (convertDoc { base := some S!"/tmp", world := fun _ => some [1], imageConv := .fixed [] false }
      { children := [.image { src := .linked S!"a.png" }] }).map (·.ioTrace) = .ok [] := by rfl

/-! ### extension 7: exact reads of one image conversion, the success case, the resolved target -/

/-- One call of the image converter (`visit_image`), for ALL configurations, images and states: if
    it succeeds, the external-read trace grows by EXACTLY `c18_imageOps base opens src` — nothing
    when the converter does not open the image, nothing for an embedded image, `urlopen uri` for an
    absolute uri, `open(join(base, uri))` for a relative uri of a named input, nothing for a
    relative uri of an anonymous input — whether or not the read succeeds (`cfg.world` does not
    occur on the right-hand side); and the converter was called with exactly this image. -/
theorem C18_image_reads_exact (cfg : Cfg) (i : ImageProps) (st st' : ConvState) (ns : List Node)
    (h : (convertImage cfg i).run st = .ok (ns, st')) :
    st'.ioTrace = st.ioTrace ++ c18_imageOps cfg.base (c18_opens cfg) i.src ∧
    st'.imageCalls = st.imageCalls ++ [i] :=
  c18_convertImage_trace cfg i st st' ns h
#print axioms C18_image_reads_exact

example :
    ((convertImage { base := some S!"/d", imageConv := .fixed [] true }
        { src := .linked S!"a.png" }).run {}).map (fun r => (r.1, r.2.ioTrace))
      = .ok ([], [.openFile S!"/d/a.png"]) := by rfl
example : c18_imageOps (some S!"/d") true (.linked S!"a.png") = [.openFile S!"/d/a.png"] := by decide
example : c18_imageOps none true (.linked S!"a.png") = [] := by decide
example : c18_imageOps none true (.linked S!"http://x/a") = [.urlopen S!"http://x/a"] := by decide

/-- One call of the image converter performs at most one external read, and the old trace is kept
    as a prefix (nothing already logged is dropped or reordered). -/
theorem C18_image_at_most_one_read (cfg : Cfg) (i : ImageProps) (st st' : ConvState)
    (ns : List Node) (h : (convertImage cfg i).run st = .ok (ns, st')) :
    ∃ ops, st'.ioTrace = st.ioTrace ++ ops ∧ ops.length ≤ 1 := by
  refine ⟨_, (C18_image_reads_exact cfg i st st' ns h).1, ?_⟩
  unfold c18_imageOps
  split
  · simp
  · simp
  · split <;> simp
#print axioms C18_image_at_most_one_read

example :
    ∃ ns st', (convertImage { base := some S!"/d", imageConv := .fixed [] true }
        { src := .linked S!"a.png" }).run { ioTrace := [.urlopen S!"x:y"] } = .ok (ns, st') ∧
      st'.ioTrace = [.urlopen S!"x:y", .openFile S!"/d/a.png"] := ⟨_, _, rfl, rfl⟩

/-- Success case, absolute uri, default converter `data_uri`: when `urlopen uri` yields `bytes`,
    the result is exactly one `<img>` with the optional non-empty `alt` followed by
    `src="data:<content type>;base64,<bytes>"`; exactly the one read `urlopen uri` is logged and no
    warning is added. -/
theorem C18_open_success_abs_dataUri (cfg : Cfg) (a ct : Option Str) (uri : Str) (bytes : Bytes)
    (st : ConvState) (habs : isAbsoluteUri uri = true) (hw : cfg.world uri = some bytes)
    (hc : cfg.imageConv = .dataUri) :
    (convertImage cfg { altText := a, contentType := ct, src := .linked uri }).run st =
      .ok ([el S!"img" ((match a with
                          | some a => if a.isEmpty then [] else [(S!"alt", a)]
                          | none => []) ++
              [(S!"src", S!"data:" ++ pyOpt ct ++ S!";base64," ++ b64encode bytes)]) []],
           { st with
             imageCalls := st.imageCalls ++ [{ altText := a, contentType := ct, src := .linked uri }],
             ioTrace := st.ioTrace ++ [.urlopen uri] }) := by
  refine c18_convertImage_dataUri_ok cfg _ st _ bytes hc ?_
  rw [c18_openImage_abs cfg uri _ habs, hw]
#print axioms C18_open_success_abs_dataUri

/-- the hypotheses are satisfiable; the trace and warnings of that instance, computed -/
example : isAbsoluteUri S!"http://x/a" = true ∧
    ({ world := fun _ => some [1, 2, 3] } : Cfg).world S!"http://x/a" = some [1, 2, 3] ∧
    ((convertImage { world := fun _ => some [1, 2, 3] }
        { altText := some S!"x", contentType := some S!"image/png",
          src := .linked S!"http://x/a" }).run {}).map
        (fun r => (r.1.length, r.2.ioTrace, r.2.messages))
      = .ok (1, [.urlopen S!"http://x/a"], []) := ⟨by decide, rfl, by rfl⟩

/-- Success case, relative uri, input with directory `b`, default converter: exactly the one read
    `open(os.path.join(b, uri))` is logged, no warning, and the `<img>` carries the bytes that this
    very target yielded. -/
theorem C18_open_success_rel_dataUri (cfg : Cfg) (a ct : Option Str) (uri b : Str) (bytes : Bytes)
    (st : ConvState) (habs : isAbsoluteUri uri = false) (hb : cfg.base = some b)
    (hw : cfg.world (osPathJoin b uri) = some bytes) (hc : cfg.imageConv = .dataUri) :
    (convertImage cfg { altText := a, contentType := ct, src := .linked uri }).run st =
      .ok ([el S!"img" ((match a with
                          | some a => if a.isEmpty then [] else [(S!"alt", a)]
                          | none => []) ++
              [(S!"src", S!"data:" ++ pyOpt ct ++ S!";base64," ++ b64encode bytes)]) []],
           { st with
             imageCalls := st.imageCalls ++ [{ altText := a, contentType := ct, src := .linked uri }],
             ioTrace := st.ioTrace ++ [.openFile (osPathJoin b uri)] }) := by
  refine c18_convertImage_dataUri_ok cfg _ st _ bytes hc ?_
  rw [c18_openImage_rel cfg uri b _ habs hb, hw]
#print axioms C18_open_success_rel_dataUri

/-- the hypotheses are satisfiable; the trace and warnings of that instance, computed -/
example : isAbsoluteUri S!"a.png" = false ∧
    ((convertImage { base := some S!"/d",
                     world := fun p => if p = S!"/d/a.png" then some [1, 2, 3] else none }
        { contentType := some S!"image/png", src := .linked S!"a.png" }).run {}).map
        (fun r => (r.1.length, r.2.ioTrace, r.2.messages))
      = .ok (1, [.openFile S!"/d/a.png"], []) := ⟨by decide, by rfl⟩

/-- "Only that target resolved against the input file's directory": for a uri that does not start
    with `/`, the opened path is the directory, at most one separating `/`, then the uri verbatim
    (the separator is omitted exactly when the directory is empty or already ends in `/`); a uri
    that starts with `/` is opened as it is (POSIX `os.path.join`). -/
theorem C18_target_resolved_against_directory (b uri : Str) :
    (startsWith uri ['/'] = false →
      osPathJoin b uri = (if b.isEmpty || b.getLast? == some '/' then b ++ uri
                          else b ++ ['/'] ++ uri)) ∧
    (startsWith uri ['/'] = true → osPathJoin b uri = uri) := by
  refine ⟨fun h => ?_, c18_join_rooted b uri⟩
  unfold osPathJoin
  rw [h]
  rfl
#print axioms C18_target_resolved_against_directory

example : startsWith S!"a.png" ['/'] = false ∧ osPathJoin S!"/d" S!"a.png" = S!"/d/a.png" ∧
    osPathJoin S!"/d/" S!"a.png" = S!"/d/a.png" ∧ osPathJoin S!"" S!"a.png" = S!"a.png" := by decide
example : startsWith S!"/etc/x" ['/'] = true ∧ osPathJoin S!"/d" S!"/etc/x" = S!"/etc/x" := by decide

end Mammoth
