/-
  C01 — all live document text reaches the output exactly once, in order.

  The specification (`c01_elemText`, `c01_elemsText`, `c01_docText` in Proofs/C01_Spec.lean) walks the
  document tree, never an HTML node: text runs give their text, tabs a tab character, a note reference
  the marker `[k]` (k = number of references so far + 1), a mapped comment reference its label; breaks,
  check boxes, bookmarks and images give nothing; a paragraph / run / table / comment reference whose
  style mapping is `!` gives nothing and its content is not even looked at; everything else is the
  concatenation of its children, left to right.  The theorems say that the HTML forest built by the
  converter has exactly that text (and that the converter state and the raised error agree as well),
  and that neither `strip_empty` nor `collapse` changes it.
-/
import Proofs.C01_Doc
import Proofs.C01_NoSep
import Proofs.C01_Raw
import Proofs.C01_Image
import Proofs.C01_Plain
import Proofs.C01_ReadCompose
import Proofs.Pins
namespace Mammoth

/-! ### wrapping in HTML elements adds no text -/

/-- wrapping nodes in the elements of an HTML path leaves the text unchanged -/
theorem C01_text_wrapElems (es : List Tag) (ns : List Node) : textOfL (wrapElems es ns) = textOfL ns :=
  c01_text_wrapElems es ns

/-- wrapping in a chain of paths none of which is `!` leaves the text unchanged -/
theorem C01_text_wrapAll (paths : List HtmlPath) (ns : List Node)
    (h : paths.any HtmlPath.isIgnore = false) : textOfL (wrapAll paths ns) = textOfL ns :=
  c01_text_wrapAll paths ns h

/-- wrapping nothing gives no text, whatever the paths -/
theorem C01_text_wrapAll_nil (paths : List HtmlPath) : textOfL (wrapAll paths []) = [] :=
  c01_text_wrapAll_nil paths

/-! ### the visitor refines the text specification -/

/-- MAIN RESULT (one element).  For every configuration, header flag, element and start state:
    running the converter on the element and keeping only the text of the produced nodes gives
    exactly what the specification says — same text, same final state, or the same error. -/
theorem C01_text_visit (cfg : Cfg) (hdr : Bool) (e : Elem) (st : ConvState) :
    c01_proj ((visit cfg hdr e).run st) = c01_elemText cfg st e :=
  c01_text_visit cfg hdr e st

/-- the same for a list of sibling elements -/
theorem C01_text_visitAll (cfg : Cfg) (hdr : Bool) (es : List Elem) (st : ConvState) :
    c01_proj ((visitAll cfg hdr es).run st) = c01_elemsText cfg st es :=
  c01_text_visitAll cfg hdr es st

/-- the same for the rows of a table: head nodes followed by body nodes carry the text of the rows
    in document order (header rows are a prefix, so splitting them off reorders nothing) -/
theorem C01_text_visitRows (cfg : Cfg) (inHead : Bool) (rs : List Elem) (st : ConvState) :
    c01_projRows ((visitRows cfg inHead rs).run st) = c01_elemsText cfg st rs :=
  c01_text_visitRows cfg inHead rs st

/-- success form: whenever the converter succeeds on an element, the text of its nodes and its
    final state are those of the specification -/
theorem C01_text_visit_ok (cfg : Cfg) (hdr : Bool) (e : Elem) (st st' : ConvState) (nodes : List Node)
    (h : visit cfg hdr e st = .ok (nodes, st')) : c01_elemText cfg st e = .ok (textOfL nodes, st') := by
  have := c01_text_visit cfg hdr e st
  rw [h] at this
  exact this.symm

/-- failure form: the converter raises exactly when the specification does, with the same error -/
theorem C01_text_visit_error (cfg : Cfg) (hdr : Bool) (e : Elem) (st : ConvState) (err : Err)
    (h : visit cfg hdr e st = .error err) : c01_elemText cfg st e = .error err := by
  have := c01_text_visit cfg hdr e st
  rw [h] at this
  exact this.symm

/-- converse: whenever the specification yields a text, the converter succeeds and its nodes carry it -/
theorem C01_text_visit_complete (cfg : Cfg) (hdr : Bool) (e : Elem) (st st' : ConvState) (t : Str)
    (h : c01_elemText cfg st e = .ok (t, st')) :
    ∃ nodes, visit cfg hdr e st = .ok (nodes, st') ∧ textOfL nodes = t := by
  have := c01_text_visit cfg hdr e st
  rw [h] at this
  cases hv : visit cfg hdr e st with
  | error err => rw [hv] at this; simp at this
  | ok p =>
    obtain ⟨nodes, s⟩ := p
    rw [hv] at this
    simp only [c01_proj_ok, Except.ok.injEq, Prod.mk.injEq] at this
    exact ⟨nodes, by rw [this.2], this.1⟩

/-- the header flag (`th` versus `td`) has no influence on the text -/
theorem C01_text_header_irrelevant (cfg : Cfg) (e : Elem) (st : ConvState) :
    c01_proj (visit cfg true e st) = c01_proj (visit cfg false e st) := by
  rw [c01_text_visit, c01_text_visit]

/-! ### what `!` does, read off the specification -/

/-- a paragraph mapped to `!` contributes no text and changes nothing in the state
    (no note or comment reference inside it is counted) -/
theorem C01_ignored_paragraph (cfg : Cfg) (st : ConvState) (p : ParaProps) (cs : List Elem)
    (h : findPath cfg (.paragraph p) = some .ignore) :
    c01_elemText cfg st (.paragraph p cs) = .ok ([], st) := by
  simp [c01_elemText, c01_path, c01_warnState, h, HtmlPath.isIgnore]

/-- a table mapped to `!` contributes no text and leaves the state alone -/
theorem C01_ignored_table (cfg : Cfg) (st : ConvState) (sid sname : Option Str) (rows : List Elem)
    (h : findPath cfg (.table sid sname) = some .ignore) :
    c01_elemText cfg st (.table sid sname rows) = .ok ([], st) := by
  simp [c01_elemText, c01_path, h, HtmlPath.isIgnore]

/-- a paragraph whose path is not `!` contributes exactly the text of its children -/
theorem C01_live_paragraph (cfg : Cfg) (st : ConvState) (p : ParaProps) (cs : List Elem)
    (h : (c01_path cfg (.paragraph p) (.elements [pathElem S!"p" true])).isIgnore = false) :
    c01_elemText cfg st (.paragraph p cs) =
      c01_elemsText cfg (c01_warnState cfg (.paragraph p) S!"paragraph" p.styleId p.styleName st) cs := by
  simp [c01_elemText, h]

/-- a run none of whose paths is `!` contributes exactly the text of its children -/
theorem C01_live_run (cfg : Cfg) (st : ConvState) (r : RunProps) (cs : List Elem)
    (h : (c01_runPaths cfg r).any HtmlPath.isIgnore = false) :
    c01_elemText cfg st (.run r cs) =
      c01_elemsText cfg (c01_warnState cfg (.run r.styleId r.styleName) S!"run" r.styleId r.styleName st) cs := by
  simp [c01_elemText, h]

/-- an image contributes no text, does not disturb the numbering of notes and comments, and is handed
    to the image converter exactly once -/
theorem C01_image_spec (cfg : Cfg) (st st' : ConvState) (i : ImageProps) (t : Str)
    (h : c01_elemText cfg st (.image i) = .ok (t, st')) :
    t = [] ∧ st'.noteRefs = st.noteRefs ∧ st'.refComments = st.refComments ∧
      st'.imageCalls = st.imageCalls ++ [i] := by
  simp only [c01_elemText] at h
  cases hc : convertImage cfg i st with
  | error e => simp [hc] at h
  | ok p =>
    obtain ⟨ns, s⟩ := p
    simp only [hc, Except.ok.injEq, Prod.mk.injEq] at h
    have := c01_eff_convertImage cfg i st ns s hc
    rw [← h.1, ← h.2]
    exact ⟨rfl, this⟩

/-- the text of a sequence is the concatenation of the texts of its parts (state threaded) -/
theorem C01_elemsText_append (cfg : Cfg) (st : ConvState) (a b : List Elem) :
    c01_elemsText cfg st (a ++ b) =
      match c01_elemsText cfg st a with
      | .error e => .error e
      | .ok (ta, st1) =>
        match c01_elemsText cfg st1 b with
        | .error e => .error e
        | .ok (tb, st2) => .ok (ta ++ tb, st2) := by
  induction a generalizing st with
  | nil =>
    simp only [List.nil_append, c01_elemsText]
    cases c01_elemsText cfg st b with
    | error e => rfl
    | ok p => rfl
  | cons x xs ih =>
    simp only [List.cons_append, c01_elemsText]
    cases c01_elemText cfg st x with
    | error e => rfl
    | ok p =>
      obtain ⟨t, s⟩ := p
      simp only [ih s]
      cases c01_elemsText cfg s xs with
      | error e => rfl
      | ok q =>
        obtain ⟨t2, s2⟩ := q
        simp only []
        cases c01_elemsText cfg s2 b with
        | error e => rfl
        | ok r => simp [List.append_assoc]

/-! ### the whole document -/

/-- the text of `visit_document`'s nodes: body text, then for each note referenced by the body, in
    reference order, its text followed by " ↑", then for each referenced comment "Comment " ++ label ++
    its text ++ " ↑" — with the same final state, or the same error -/
theorem C01_text_document (cfg : Cfg) (d : Document) (st : ConvState) :
    c01_proj ((visitDocument cfg d).run st) = c01_docTextSt cfg d st :=
  c01_text_visitDocument cfg d st

/-- `convert_to_html` before post-processing: the nodes carry exactly the specified text -/
theorem C01_convertDoc_text (cfg : Cfg) (d : Document) (r : ConvResult)
    (h : convertDoc cfg d = .ok r) : c01_docText cfg d = .ok (textOfL r.nodes) := by
  unfold convertDoc at h
  unfold c01_docText
  have key := c01_text_visitDocument { cfg with comments := d.comments } d {}
  cases hv : visitDocument { cfg with comments := d.comments } d {} with
  | error e => simp [StateT.run, hv] at h
  | ok p =>
    obtain ⟨nodes, st⟩ := p
    rw [hv] at key
    simp only [StateT.run, hv, Except.ok.injEq] at h
    rw [← key, ← h]
    rfl

/-- and it fails exactly when the specification does -/
theorem C01_convertDoc_error (cfg : Cfg) (d : Document) (e : Err)
    (h : convertDoc cfg d = .error e) : c01_docText cfg d = .error e := by
  unfold convertDoc at h
  unfold c01_docText
  have key := c01_text_visitDocument { cfg with comments := d.comments } d {}
  cases hv : visitDocument { cfg with comments := d.comments } d {} with
  | error e' =>
    rw [hv] at key
    simp only [StateT.run, hv, Except.error.injEq] at h
    rw [← key, ← h]
    rfl
  | ok p => simp [StateT.run, hv] at h

/-- the reported note references, reads and converter calls are those of the specification's state -/
theorem C01_convertDoc_state (cfg : Cfg) (d : Document) (r : ConvResult)
    (h : convertDoc cfg d = .ok r) :
    ∃ st, c01_docTextSt { cfg with comments := d.comments } d {} = .ok (textOfL r.nodes, st) ∧
      r.noteRefs = st.noteRefs ∧ r.messages = unique st.messages ∧
      r.ioTrace = st.ioTrace ∧ r.imageCalls = st.imageCalls := by
  unfold convertDoc at h
  have key := c01_text_visitDocument { cfg with comments := d.comments } d {}
  cases hv : visitDocument { cfg with comments := d.comments } d {} with
  | error e => simp [StateT.run, hv] at h
  | ok p =>
    obtain ⟨nodes, st⟩ := p
    rw [hv] at key
    simp only [StateT.run, hv, Except.ok.injEq] at h
    refine ⟨st, ?_, ?_, ?_, ?_, ?_⟩ <;> simp [← h, ← key]

/-! ### post-processing keeps the text -/

/-- `strip_empty` then `collapse` keep the text, provided no tag carries a separator -/
theorem C01_render_text (ns : List Node) (h : noSepL ns = true) :
    textOfL (collapse (stripEmpty ns)) = textOfL ns := by
  have h' : noSepL (stripEmpty ns) = true := c01_noSepL_stripList ns h
  rw [text_collapse _ h', text_stripEmpty]

/-- if no style mapping uses a separator, no node produced for an element carries one -/
theorem C01_nodes_noSep (cfg : Cfg) (hm : c01_noSepMap cfg = true) (hdr : Bool) (e : Elem)
    (st st' : ConvState) (nodes : List Node) (h : visit cfg hdr e st = .ok (nodes, st')) :
    noSepL nodes = true :=
  c01_noSep_visit cfg hm hdr e st nodes st' h

/-- nor does any node of the whole converted document -/
theorem C01_document_noSep (cfg : Cfg) (hm : c01_noSepMap cfg = true) (d : Document) (r : ConvResult)
    (h : convertDoc cfg d = .ok r) : noSepL r.nodes = true := by
  unfold convertDoc at h
  cases hv : visitDocument { cfg with comments := d.comments } d {} with
  | error e => simp [StateT.run, hv] at h
  | ok p =>
    obtain ⟨nodes, st⟩ := p
    simp only [StateT.run, hv, Except.ok.injEq] at h
    rw [← h]
    exact c01_noSep_visitDocument { cfg with comments := d.comments } hm d {} nodes st hv

/-- END TO END.  With a style map free of separators, the text of the forest that is finally written
    (after `strip_empty` and `collapse`) is exactly the specified text of the document. -/
theorem C01_rendered_text (cfg : Cfg) (hm : c01_noSepMap cfg = true) (d : Document) (r : ConvResult)
    (h : convertDoc cfg d = .ok r) :
    c01_docText cfg d = .ok (textOfL (collapse (stripEmpty r.nodes))) := by
  rw [C01_render_text _ (C01_document_noSep cfg hm d r h)]
  exact C01_convertDoc_text cfg d r h

/-! ### extract_raw_text -/

/-- a paragraph's raw text is its inline text followed by exactly two newlines -/
theorem C01_raw_paragraph (p : ParaProps) (cs : List Elem) :
    rawText (.paragraph p cs) = rawTextL cs ++ S!"\n\n" := by simp [rawText]

/-- text runs give their text, a tab gives a tab character -/
theorem C01_raw_leaves (s : Str) : rawText (.text s) = s ∧ rawText .tab = S!"\t" := by
  simp [rawText]

/-- runs, hyperlinks, tables, rows and cells are transparent -/
theorem C01_raw_containers (r : RunProps) (h : LinkProps) (sid sname : Option Str) (hd vm : Bool)
    (c w : Nat) (cs : List Elem) :
    rawText (.run r cs) = rawTextL cs ∧ rawText (.hyperlink h cs) = rawTextL cs ∧
    rawText (.table sid sname cs) = rawTextL cs ∧ rawText (.row hd cs) = rawTextL cs ∧
    rawText (.cell c w vm cs) = rawTextL cs := by
  simp [rawText]

/-- images, breaks, bookmarks, check boxes, note and comment references contribute nothing -/
theorem C01_raw_silent (i : ImageProps) (ty id : Str) (n : Option Str) (b : Bool) :
    rawText (.image i) = [] ∧ rawText (.brk ty) = [] ∧ rawText (.bookmark n) = [] ∧
    rawText (.checkbox b) = [] ∧ rawText (.noteRef ty id) = [] ∧ rawText (.commentRef id) = [] := by
  simp [rawText]

/-- raw text is a homomorphism on sibling lists: nothing is reordered -/
theorem C01_raw_append (a b : List Elem) : rawTextL (a ++ b) = rawTextL a ++ rawTextL b :=
  c01_rawTextL_append a b

/-- the raw text of a body made of paragraphs: each paragraph's inline text followed by "\n\n" -/
theorem C01_raw_text (ps : List c01_Para) :
    rawTextDoc { children := ps.map c01_paraElem } =
      concatStr (ps.map fun p => rawTextL p.2 ++ S!"\n\n") :=
  c01_rawTextL_paras ps

/-- counting characters: the raw text contains each character exactly as often as the text and tab
    leaves do, plus two newlines for every paragraph (at any depth) -/
theorem C01_raw_count (ch : Char) (d : Document) :
    (rawTextDoc d).count ch =
      c01_leafCountL ch d.children + (if ch = '\n' then 2 * c01_paraCountL d.children else 0) :=
  c01_count_rawTextL ch d.children

/-! ### the simplest reading: no `!` mapping, no references, no images -/

/-- NOTHING LOST, DUPLICATED OR REORDERED, in closed form.  If no style mapping is `!` and the
    elements contain no note reference, comment reference or image, the converter succeeds, only
    adds warnings to its state, and the text of its nodes is exactly the sequence of text and tab
    leaves of the elements, in document order. -/
theorem C01_plain_text (cfg : Cfg) (hm : c01_noIgnoreMap cfg = true) (hdr : Bool) (es : List Elem)
    (hp : c01_plainL es = true) (st : ConvState) :
    ∃ nodes ms, visitAll cfg hdr es st = .ok (nodes, c01_addMsgs st ms) ∧
      textOfL nodes = c01_bodyTextL es := by
  obtain ⟨ms, h⟩ := c01_plain_elemsText cfg hm es hp st
  have key := c01_text_visitAll cfg hdr es st
  rw [h] at key
  cases hv : visitAll cfg hdr es st with
  | error e => rw [hv] at key; simp at key
  | ok p =>
    obtain ⟨nodes, s⟩ := p
    rw [hv] at key
    simp only [c01_proj_ok, Except.ok.injEq, Prod.mk.injEq] at key
    exact ⟨nodes, ms, by rw [key.2], key.1⟩

/-- the raw text of an element without paragraphs inside is the same sequence of leaves -/
theorem C01_raw_inline (es : List Elem) (h : c01_paraCountL es = 0) : rawTextL es = c01_bodyTextL es :=
  c01_raw_eq_bodyTextL es h

/-- HTML text versus raw text for a body of paragraphs with inline content only: the HTML carries the
    leaves of every paragraph in order, the raw text the same leaves with "\n\n" after each paragraph -/
theorem C01_html_vs_raw (cfg : Cfg) (hm : c01_noIgnoreMap cfg = true) (ps : List c01_Para)
    (hp : c01_plainL (ps.map c01_paraElem) = true) (hflat : ∀ p ∈ ps, c01_paraCountL p.2 = 0)
    (st : ConvState) :
    (∃ nodes ms, visitAll cfg false (ps.map c01_paraElem) st = .ok (nodes, c01_addMsgs st ms) ∧
      textOfL nodes = concatStr (ps.map fun p => c01_bodyTextL p.2)) ∧
    rawTextDoc { children := ps.map c01_paraElem } =
      concatStr (ps.map fun p => c01_bodyTextL p.2 ++ S!"\n\n") := by
  constructor
  · obtain ⟨nodes, ms, h1, h2⟩ := C01_plain_text cfg hm false _ hp st
    refine ⟨nodes, ms, h1, ?_⟩
    rw [h2]
    clear h1 h2 hp hflat
    induction ps with
    | nil => simp [c01_bodyTextL, concatStr]
    | cons p ps ih => simp [c01_bodyTextL, concatStr, c01_paraElem, c01_bodyText, ih]
  · rw [C01_raw_text]
    clear hp
    induction ps with
    | nil => rfl
    | cons p ps ih =>
      have h1 := hflat p (by simp)
      have h2 := ih (fun q hq => hflat q (by simp [hq]))
      simp only [List.map_cons, concatStr, h2, c01_raw_eq_bodyTextL p.2 h1]

/-! ### a concrete document: note reference, comment reference, `!`-mapped paragraph, table -/

private def c01_exCfg : Cfg :=
  { styleMap := [ { matcher := .paragraph (some S!"Hidden") none none, path := .ignore },
                  { matcher := .commentReference, path := .elements [pathElem S!"sup" false] } ] }

private def c01_exDoc : Document :=
  { children :=
      [ .paragraph {} [.run { bold := true } [.text S!"Hello", .tab, .text S!"world", .noteRef S!"footnote" S!"7"],
                       .commentRef S!"c0"],
        .paragraph { styleId := some S!"Hidden", styleName := some S!"Hidden" }
          [.run {} [.text S!"secret", .noteRef S!"footnote" S!"8"]],
        .table none none
          [ .row true [.cell 1 1 false [.paragraph {} [.text S!"H"]]],
            .row false [.cell 2 1 false [.paragraph {} [.text S!"c", .brk S!"line", .noteRef S!"endnote" S!"1"]]] ] ],
    notes := [ { ty := S!"endnote", id := S!"1", body := [.paragraph {} [.text S!"end"]] },
               { ty := S!"footnote", id := S!"7", body := [.paragraph {} [.text S!"foot"]] } ],
    comments := [ { id := S!"c0", body := [.paragraph {} [.text S!"why?"]], authorInitials := some S!"AB" } ] }

/-- the specified text: body in order with markers `[1]`, `[AB1]`, `[2]`; the hidden paragraph (and
    the note reference inside it) gone; then the two referenced notes in reference order; then the comment -/
example : c01_docText c01_exCfg c01_exDoc =
    .ok S!"Hello\tworld[1][AB1]Hc[2]foot ↑end ↑Comment [AB1]why? ↑" := by rfl

/-- the converter agrees, before and after post-processing -/
example : (convertDoc c01_exCfg c01_exDoc).map (fun r => textOfL r.nodes) =
    .ok S!"Hello\tworld[1][AB1]Hc[2]foot ↑end ↑Comment [AB1]why? ↑" := by rfl
example : (convertDoc c01_exCfg c01_exDoc).map (fun r => textOfL (collapse (stripEmpty r.nodes))) =
    .ok S!"Hello\tworld[1][AB1]Hc[2]foot ↑end ↑Comment [AB1]why? ↑" := by rfl
example : c01_noSepMap c01_exCfg = true := by decide

/-- the hypotheses of `C01_plain_text` / `C01_html_vs_raw` are satisfiable -/
example : c01_noIgnoreMap {} = true ∧
    c01_plainL ([({}, [Elem.run { italic := true } [.text S!"a", .tab]]), ({}, [.text S!"b"])].map c01_paraElem) = true ∧
    c01_paraCountL [Elem.run { italic := true } [.text S!"a", .tab]] = 0 := by decide
example : (convertDoc {} { children := [({}, [Elem.run { italic := true } [.text S!"a", .tab]]),
                                        ({}, [.text S!"b"])].map c01_paraElem }).map (fun r => textOfL r.nodes)
    = .ok S!"a\tb" := by rfl

/-- a reference to a note that does not exist fails in both -/
example : c01_docText {} { children := [.paragraph {} [.noteRef S!"footnote" S!"1"]] }
    = .error (.key S!"footnote-1") := by rfl

/-- a note referenced only from inside another note gets its marker `[2]`, but its body is not
    emitted: the notes to emit are fixed before any note is visited (as in the Python code) -/
example : c01_docText {}
    { children := [.paragraph {} [.text S!"a", .noteRef S!"footnote" S!"1"]],
      notes := [ { ty := S!"footnote", id := S!"1", body := [.paragraph {} [.text S!"n1", .noteRef S!"footnote" S!"2"]] },
                 { ty := S!"footnote", id := S!"2", body := [.paragraph {} [.text S!"n2"]] } ] }
    = .ok S!"a[1]n1[2] ↑" := by rfl

/-- raw text of the example document `c01_exDoc`: every paragraph (also the hidden one, also those in cells) ends in "\n\n" -/
example : rawTextDoc c01_exDoc = S!"Hello\tworld\n\nsecret\n\nH\n\nc\n\n" := by rfl

/-! ## The reader half: the document tree carries exactly the live text of the XML

  Specification (Proofs/C01_XmlSpec.lean, Proofs/C01_XmlDefer.lean), by recursion on the XML tree, by
  element *name*, independent of the reader's dispatch table, state and fuel:
  `c01_xmlLive n` = the live leaves of `n` — `w:t` text, tabs, the two hyphens, `w:sym` characters, note and
  comment reference markers — in reading order; `w:del`, `w:instrText`, `w:fldChar`, property elements,
  unknown elements and everything but the `mc:Fallback` of an `mc:AlternateContent` give nothing;
  text boxes (`w:pict`) go to the `extra` channel and a paragraph puts the extra of its content after its
  own in-line leaves.  `c01_xmlLiveD b n` is the same with an explicit buffer `b` of deferred leaves for
  paragraphs whose mark is a tracked deletion.  `c01_elemLeaves` reads the leaves off a document tree.

  Tables: the reader runs `calculate_row_spans` on the rows of each table, which removes the cells it takes
  for vertical-merge continuations together with their content (specified by C09).  `C01_read_presweep`
  is the exact statement for all inputs (the result is the sweep of a tree with exactly the specified
  leaves); the equalities below are for XML without `w:vMerge` continuation cells (`c01_noVMerge`), and
  `C01_read_leaves_sublist` says that in general only leaves of cells can disappear, nothing is added
  or reordered. -/

/-- STAGE 1, one element.  For an XML tree without deleted paragraph marks (`c05_noDel`) and without
    vertical-merge continuation cells, read in a state with nothing deferred: whenever the reader
    succeeds (any environment, fuel, complex-field state), the leaves of the elements it returns are
    exactly the in-line leaves of the specification, the leaves of its `extra` result are exactly the
    extra leaves, in the same order, and still nothing is deferred.
    (`_partial`: the statement for trees WITH deleted paragraph marks is `C01_read_leaves` below.) -/
theorem C01_read_leaves_partial (env : REnv) (fuel : Nat) (st : RState) (n : XmlNode) (r : ReadResult)
    (st' : RState) (h : readElem env fuel st n = .ok (r, st')) (hd : st.deleted = [])
    (hn : c05_noDel n = true) (hv : c01_noVMerge n = true) :
    c01_elemLeavesL r.elements = (c01_xmlLive n).inline ∧ c01_elemLeavesL r.extra = (c01_xmlLive n).extra ∧
      st'.deleted = [] := by
  obtain ⟨h1, h2⟩ := c01_readElem_live env fuel st n r st' h hd hn
  rw [hv] at h2
  exact ⟨c01_Pre_eq h2.1, c01_Pre_eq h2.2, h1⟩

/-- STAGE 1, a story (`read_all` on the children of `w:body`, of a note, of a comment) read from the
    initial state: same hypotheses on every child, same conclusion. -/
theorem C01_read_leaves_partial_readAll (env : REnv) (fuel : Nat) (ns : List XmlNode) (r : ReadResult)
    (st' : RState) (h : readAll env fuel {} ns = .ok (r, st'))
    (hn : c05_noDelL ns = true) (hv : c01_noVMergeL ns = true) :
    c01_elemLeavesL r.elements = (c01_xmlLiveL ns).inline ∧ c01_elemLeavesL r.extra = (c01_xmlLiveL ns).extra ∧
      st'.deleted = [] := by
  obtain ⟨h1, h2⟩ := c01_readAll_live env fuel {} ns r st' h rfl hn
  rw [hv] at h2
  exact ⟨c01_Pre_eq h2.1, c01_Pre_eq h2.2, h1⟩

/-- STAGE 1, as text: the characters of the text runs and tabs of the tree the reader returns are the
    characters of the specified leaves, in order -/
theorem C01_read_text_partial (env : REnv) (fuel : Nat) (ns : List XmlNode) (r : ReadResult)
    (st' : RState) (h : readAll env fuel {} ns = .ok (r, st'))
    (hn : c05_noDelL ns = true) (hv : c01_noVMergeL ns = true) :
    c01_leavesText (c01_elemLeavesL r.elements) = c01_leavesText (c01_xmlLiveL ns).inline := by
  rw [(C01_read_leaves_partial_readAll env fuel ns r st' h hn hv).1]

/-- STAGE 2, one element, every input.  Let `b = c01_pend st.deleted` be the buffer that stands for the
    XML nodes the reader holds back when it starts (their leaves).  If neither those nodes nor `n`
    contain a vertical-merge continuation cell, then whenever the reader succeeds the leaves of its
    elements and of its extra result are exactly those of `c01_xmlLiveD b n`, in order, and the buffer the
    specification ends with stands for the nodes the reader holds back at the end. -/
theorem C01_read_leaves (env : REnv) (fuel : Nat) (st : RState) (n : XmlNode) (r : ReadResult)
    (st' : RState) (h : readElem env fuel st n = .ok (r, st'))
    (hvs : c01_noVMergeL st.deleted = true) (hv : c01_noVMerge n = true) :
    c01_elemLeavesL r.elements = (c01_xmlLiveD (c01_pend st.deleted) n).live.inline ∧
    c01_elemLeavesL r.extra = (c01_xmlLiveD (c01_pend st.deleted) n).live.extra ∧
    c01_pend st'.deleted = (c01_xmlLiveD (c01_pend st.deleted) n).buf := by
  have p := c01_readElem_liveD env fuel st n r st' h
  have hs := p.sim
  rw [hvs, hv] at hs
  exact ⟨c01_Pre_eq hs.1, c01_Pre_eq hs.2, p.buf⟩

/-- STAGE 2, a story read from the initial state: the leaves of the returned tree are those of the
    specification started with the empty buffer; `c01_pend st'.deleted`, the content of trailing
    paragraphs with a deleted mark that no later paragraph of the story took over, is what the
    specification leaves in its buffer. -/
theorem C01_read_leaves_readAll (env : REnv) (fuel : Nat) (ns : List XmlNode) (r : ReadResult)
    (st' : RState) (h : readAll env fuel {} ns = .ok (r, st')) (hv : c01_noVMergeL ns = true) :
    c01_elemLeavesL r.elements = (c01_xmlLiveDL [] ns).live.inline ∧
    c01_elemLeavesL r.extra = (c01_xmlLiveDL [] ns).live.extra ∧
    c01_pend st'.deleted = (c01_xmlLiveDL [] ns).buf := by
  have p := c01_readAll_liveD env fuel {} ns r st' h
  have hs := p.sim
  have hb := p.buf
  rw [show c01_pend ({} : RState).deleted = [] from c01_pend_nil] at hs hb
  rw [hv] at hs
  exact ⟨c01_Pre_eq hs.1, c01_Pre_eq hs.2, hb⟩

/-- STAGE 2 as text -/
theorem C01_read_text (env : REnv) (fuel : Nat) (ns : List XmlNode) (r : ReadResult)
    (st' : RState) (h : readAll env fuel {} ns = .ok (r, st')) (hv : c01_noVMergeL ns = true) :
    c01_leavesText (c01_elemLeavesL r.elements) = c01_leavesText (c01_xmlLiveDL [] ns).live.inline := by
  rw [(C01_read_leaves_readAll env fuel ns r st' h hv).1]

/-- EVERY input, tables with merged cells included: the returned elements are the row-span sweep
    (`c01_spansL`: `calculate_row_spans` applied to every table, inner tables first) of a list of elements
    whose leaves are exactly the specified in-line leaves; the same for the extra result. -/
theorem C01_read_presweep (env : REnv) (fuel : Nat) (st : RState) (n : XmlNode) (r : ReadResult)
    (st' : RState) (h : readElem env fuel st n = .ok (r, st')) :
    (∃ pe, c01_spansL pe = r.elements ∧
      c01_elemLeavesL pe = (c01_xmlLiveD (c01_pend st.deleted) n).live.inline) ∧
    (∃ px, c01_spansL px = r.extra ∧
      c01_elemLeavesL px = (c01_xmlLiveD (c01_pend st.deleted) n).live.extra) ∧
    c01_pend st'.deleted = (c01_xmlLiveD (c01_pend st.deleted) n).buf := by
  have p := c01_readElem_liveD env fuel st n r st' h
  obtain ⟨⟨pe, e1, e2, _⟩, ⟨px, x1, x2, _⟩⟩ := p.sim
  exact ⟨⟨pe, e1, e2⟩, ⟨px, x1, x2⟩, p.buf⟩

/-- EVERY input: nothing is added or reordered — the leaves of the returned elements are a subsequence
    of the specified leaves (what is missing is the content of cells removed by `calculate_row_spans`),
    and the deferred buffer is as specified -/
theorem C01_read_leaves_sublist (env : REnv) (fuel : Nat) (ns : List XmlNode) (r : ReadResult)
    (st' : RState) (h : readAll env fuel {} ns = .ok (r, st')) :
    (c01_elemLeavesL r.elements).Sublist (c01_xmlLiveDL [] ns).live.inline ∧
    (c01_elemLeavesL r.extra).Sublist (c01_xmlLiveDL [] ns).live.extra ∧
    c01_pend st'.deleted = (c01_xmlLiveDL [] ns).buf := by
  have p := c01_readAll_liveD env fuel {} ns r st' h
  have hs := p.sim
  have hb := p.buf
  rw [show c01_pend ({} : RState).deleted = [] from c01_pend_nil] at hs hb
  exact ⟨c01_Pre_sublist hs.1, c01_Pre_sublist hs.2, hb⟩

/-- the sweep can only remove leaves, and removes none from a tree without continuation marks -/
theorem C01_spans_leaves (es : List Elem) :
    (c01_elemLeavesL (c01_spansL es)).Sublist (c01_elemLeavesL es) ∧
    (c01_noVmL es = true → c01_elemLeavesL (c01_spansL es) = c01_elemLeavesL es) :=
  ⟨c01_spansL_sublist es, fun h => (c01_spansL_leaves es h).1⟩

/-- the two specifications agree on trees without deleted paragraph marks: the buffer stays empty -/
theorem C01_spec_agree (ns : List XmlNode) (hn : c05_noDelL ns = true) :
    c01_xmlLiveDL [] ns = ⟨c01_xmlLiveL ns, []⟩ :=
  c01_xmlLiveDL_noDel ns hn

/-- CONSERVATION (a property of the specification alone): deferral moves leaves but never loses or
    duplicates one.  What `c01_xmlLiveD` emits (in line and extra) together with what it leaves in the
    buffer is a permutation of what came in the buffer together with all leaves of the nodes as
    `c01_xmlLive` (which ignores the deletion marks) lists them. -/
theorem C01_deferred_conserved (b : c01_Buf) (ns : List XmlNode) :
    (c01_liveAll (c01_xmlLiveDL b ns).live ++ c01_bufAll (c01_xmlLiveDL b ns).buf).Perm
      (c01_bufAll b ++ c01_liveAll (c01_xmlLiveL ns)) :=
  c01_conserve_perm b ns

/-- NOTHING LOST.  If the story does not end with content deferred by a deleted paragraph mark (the
    specification's buffer is empty at the end — otherwise that content is dropped by the library: no
    later paragraph exists to take it) and has no vertical-merge continuation cells, then the leaves
    of what the reader returns (elements, then extra) are a permutation of ALL live leaves of the XML,
    each exactly once; their order is the one given by `C01_read_leaves_readAll`. -/
theorem C01_read_nothing_lost (env : REnv) (fuel : Nat) (ns : List XmlNode) (r : ReadResult)
    (st' : RState) (h : readAll env fuel {} ns = .ok (r, st')) (hv : c01_noVMergeL ns = true)
    (hb : (c01_xmlLiveDL [] ns).buf = []) :
    (c01_elemLeavesL r.elements ++ c01_elemLeavesL r.extra).Perm
      ((c01_xmlLiveL ns).inline ++ (c01_xmlLiveL ns).extra) := by
  obtain ⟨h1, h2, _⟩ := C01_read_leaves_readAll env fuel ns r st' h hv
  have := c01_conserve_perm [] ns
  rw [hb] at this
  simpa [c01_liveAll, c01_bufAll, h1, h2] using this

/-- BOTH HALVES TOGETHER (state-free case).  Read a story from XML without vertical-merge continuation
    cells, then convert the returned elements under a style map without `!`; if the elements contain no
    note reference, comment reference or image (`c01_plainL`), the converter succeeds, only adds
    warnings, and the text of the HTML nodes is exactly the text of the live leaves of the XML in the
    specified order.  (With references the converter half is `C01_text_visitAll`: the markers are
    numbered by the converter state, leaf by leaf in the same order.) -/
theorem C01_xml_to_html_text (env : REnv) (fuel : Nat) (ns : List XmlNode) (r : ReadResult) (st' : RState)
    (h : readAll env fuel {} ns = .ok (r, st')) (hv : c01_noVMergeL ns = true)
    (cfg : Cfg) (hm : c01_noIgnoreMap cfg = true) (hp : c01_plainL r.elements = true)
    (hdr : Bool) (cst : ConvState) :
    ∃ nodes ms, visitAll cfg hdr r.elements cst = .ok (nodes, c01_addMsgs cst ms) ∧
      textOfL nodes = c01_leavesText (c01_xmlLiveDL [] ns).live.inline := by
  obtain ⟨nodes, ms, h1, h2⟩ := C01_plain_text cfg hm hdr r.elements hp cst
  refine ⟨nodes, ms, h1, ?_⟩
  rw [h2, c01_bodyTextL_leaves, (C01_read_leaves_readAll env fuel ns r st' h hv).1]

/-! ### concrete XML -/

private def c01_x (name : Str) (cs : List XmlNode) : XmlNode := .elem name [] cs
private def c01_xt (s : Str) : XmlNode := c01_x S!"w:r" [c01_x S!"w:t" [.text s]]
private def c01_xfld (ty : Str) : XmlNode := c01_x S!"w:r" [.elem S!"w:fldChar" [(S!"w:fldCharType", ty)] []]
private def c01_xbox (ps : List XmlNode) : XmlNode :=
  c01_x S!"w:r" [c01_x S!"w:pict" [c01_x S!"v:shape" [c01_x S!"v:textbox" [c01_x S!"w:txbxContent" ps]]]]
/-- the computation succeeds and its result satisfies `p` -/
private def c01_okAnd {α} (x : Except Err α) (p : α → Bool) : Bool :=
  match x with
  | .ok a => p a
  | .error _ => false
private def c01_xdelPr : XmlNode := c01_x S!"w:pPr" [c01_x S!"w:rPr" [c01_x S!"w:del" []]]

/-- a paragraph with text, a tab, a tracked deletion, a HYPERLINK complex field, a text box, a note
    reference, a `w:hyperlink`, an insertion and an alternate content; then a table -/
private def c01_exBody1 : List XmlNode :=
  [ c01_x S!"w:p"
      [ c01_x S!"w:r" [c01_x S!"w:t" [.text S!"Hello"], c01_x S!"w:tab" []],
        c01_x S!"w:del" [c01_x S!"w:r" [c01_x S!"w:delText" [.text S!"gone"]]],
        c01_xfld S!"begin", c01_x S!"w:r" [c01_x S!"w:instrText" [.text S!" HYPERLINK \"http://x\" "]],
        c01_xfld S!"separate", c01_xt S!"link", c01_xfld S!"end",
        c01_xbox [c01_x S!"w:p" [c01_xt S!"box"]],
        c01_x S!"w:r" [c01_x S!"w:t" [.text S!"after"], .elem S!"w:footnoteReference" [(S!"w:id", S!"3")] []],
        .elem S!"w:hyperlink" [(S!"w:anchor", S!"a")] [c01_xt S!"hl"],
        c01_x S!"w:ins" [c01_xt S!"ins"],
        c01_x S!"mc:AlternateContent" [c01_x S!"mc:Choice" [c01_xt S!"choice"], c01_x S!"mc:Fallback" [c01_xt S!"fb"]] ],
    c01_x S!"w:tbl" [c01_x S!"w:tr" [c01_x S!"w:tc" [c01_x S!"w:p" [c01_xt S!"c1"]],
                                     c01_x S!"w:tc" [c01_x S!"w:p" [c01_xt S!"c2"]]]],
    c01_x S!"w:sectPr" [] ]

/-- the hypotheses of stage 1 hold, the reader succeeds, and the specified leaves are: -/
example : c05_noDelL c01_exBody1 = true ∧ c01_noVMergeL c01_exBody1 = true := by decide +kernel
example : (readAll {} 12 {} c01_exBody1).toBool = true := by decide +kernel
example : c01_xmlLiveL c01_exBody1 =
    { inline := [.text S!"Hello", .tab, .text S!"link", .text S!"after", .noteRef S!"footnote" S!"3",
                 .text S!"hl", .text S!"ins", .text S!"fb", .text S!"box", .text S!"c1", .text S!"c2"],
      extra := [] } := by decide +kernel
example : c01_leavesText (c01_xmlLiveL c01_exBody1).inline = S!"Hello\tlinkafterhlinsfbboxc1c2" := by decide +kernel
example : c01_okAnd (readAll {} 12 {} c01_exBody1)
    (fun p => decide (c01_elemLeavesL p.1.elements = (c01_xmlLiveL c01_exBody1).inline)) = true := by decide +kernel

/-- two paragraphs with deleted marks (the first with a text box), taken over by the next paragraph
    that is opened, which sits in a table cell; a last paragraph with a deleted mark ends the story -/
private def c01_exBody2 : List XmlNode :=
  [ c01_x S!"w:p" [c01_xt S!"A"],
    c01_x S!"w:p" [c01_xdelPr, c01_xt S!"d1", c01_xbox [c01_x S!"w:p" [c01_xt S!"dbox"]]],
    c01_x S!"w:p" [c01_xdelPr, c01_xt S!"d2"],
    c01_x S!"w:tbl" [c01_x S!"w:tr" [c01_x S!"w:tc" [c01_x S!"w:p" [c01_xt S!"c1", c01_xbox [c01_x S!"w:p" [c01_xt S!"cbox"]]]],
                                     c01_x S!"w:tc" [c01_x S!"w:p" [c01_xt S!"c2"]]]],
    c01_x S!"w:p" [c01_xdelPr, c01_xt S!"lost"] ]

example : c01_noVMergeL c01_exBody2 = true ∧ c05_noDelL c01_exBody2 = false := by decide +kernel
example : (readAll {} 12 {} c01_exBody2).toBool = true := by decide +kernel
/-- `d1 d2` open the cell paragraph, the deleted paragraph's text box follows that paragraph, before the
    paragraph's own text box; `lost` stays in the buffer -/
example : c01_xmlLiveDL [] c01_exBody2 =
    { live := { inline := [.text S!"A", .text S!"d1", .text S!"d2", .text S!"c1", .text S!"dbox", .text S!"cbox",
                           .text S!"c2"], extra := [] },
      buf := [{ inline := [.text S!"lost"], extra := [] }] } := by decide +kernel
example : c01_okAnd (readAll {} 12 {} c01_exBody2) (fun p => decide
      (c01_elemLeavesL p.1.elements = (c01_xmlLiveDL [] c01_exBody2).live.inline ∧
       c01_elemLeavesL p.1.extra = (c01_xmlLiveDL [] c01_exBody2).live.extra ∧
       c01_pend p.2.deleted = (c01_xmlLiveDL [] c01_exBody2).buf)) = true := by decide +kernel
/-- without the last paragraph nothing stays deferred: the hypothesis of `C01_read_nothing_lost` holds -/
example : (c01_xmlLiveDL [] c01_exBody2.dropLast).buf = [] ∧ c01_noVMergeL c01_exBody2.dropLast = true ∧
    (readAll {} 12 {} c01_exBody2.dropLast).toBool = true := by decide +kernel
/-- a non-initial state (`C01_read_leaves`): a paragraph read while a run is held back -/
example : c01_okAnd (readElem {} 6 { deleted := [c01_xt S!"held"] } (c01_x S!"w:p" [c01_xt S!"own"]))
      (fun p => decide (c01_elemLeavesL p.1.elements =
          (c01_xmlLiveD (c01_pend [c01_xt S!"held"]) (c01_x S!"w:p" [c01_xt S!"own"])).live.inline ∧
        c01_pend p.2.deleted = [])) = true ∧
    (c01_xmlLiveD (c01_pend [c01_xt S!"held"]) (c01_x S!"w:p" [c01_xt S!"own"])).live.inline =
      [.text S!"held", .text S!"own"] ∧
    c01_noVMergeL [c01_xt S!"held"] = true := by decide +kernel
/-- both halves on the first body without its note reference: no `!` in the empty style map, plain elements -/
private def c01_exBody3 : List XmlNode :=
  [ c01_x S!"w:p" [c01_xt S!"one", c01_xbox [c01_x S!"w:p" [c01_xt S!"box"]], c01_x S!"w:r" [c01_x S!"w:tab" []]],
    c01_x S!"w:p" [c01_xdelPr, c01_xt S!"two"], c01_x S!"w:p" [c01_xt S!"three"] ]
example : c01_noVMergeL c01_exBody3 = true ∧ c01_noIgnoreMap {} = true ∧
    c01_okAnd (readAll {} 12 {} c01_exBody3) (fun p => c01_plainL p.1.elements) = true ∧
    c01_leavesText (c01_xmlLiveDL [] c01_exBody3).live.inline = S!"one\tboxtwothree" := by decide +kernel
/-- a table with a vertical-merge continuation cell: its content is specified but removed by the sweep
    (the sublist statement is strict here) -/
private def c01_exMerge : List XmlNode :=
  [ c01_x S!"w:tbl"
      [ c01_x S!"w:tr" [c01_x S!"w:tc" [c01_x S!"w:tcPr" [.elem S!"w:vMerge" [(S!"w:val", S!"restart")] []],
                                       c01_x S!"w:p" [c01_xt S!"top"]]],
        c01_x S!"w:tr" [c01_x S!"w:tc" [c01_x S!"w:tcPr" [c01_x S!"w:vMerge" []], c01_x S!"w:p" [c01_xt S!"cont"]]] ] ]
example : c01_noVMergeL c01_exMerge = false ∧
    (c01_xmlLiveDL [] c01_exMerge).live.inline = [.text S!"top", .text S!"cont"] ∧
    c01_okAnd (readAll {} 12 {} c01_exMerge)
      (fun p => decide (c01_elemLeavesL p.1.elements = [.text S!"top"])) = true := by
  decide +kernel

/-- The tables of the library that this property's theorems consume (regenerated from /repo's source on this run) still have the
    content the model was validated against: the reader's dispatch table; the set of deliberately ignored elements; the behaviour of the HTML escape on the characters it replaces; the dingbat table (entries and checksums).  An edit of one of them in the library changes model and code
    alike; it is this theorem that then no longer checks (`Proofs/Pins.lean`). -/
theorem C01_tables_as_validated :
    (Generated.handlers = pin_handlers) ∧
    (sameSet Generated.ignored pin_ignored = true) ∧
    (Generated.escapeTable = pin_escapeTable) ∧
    (dingbatSums Generated.dingbats = (1061, 217117, 77998056)) :=
  ⟨pins_handlers, pins_ignored, pins_escapeTable, pins_dingbats⟩

end Mammoth
