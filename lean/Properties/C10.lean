/-
  C10 — links, bookmarks, notes and comments stay connected.
-/
import Proofs.C10_Instr
import Proofs.C10_InstrRegex
import Proofs.C10_InstrRegexAgree
import Proofs.C10_InstrRegexShape
import Proofs.C10_Fields
import Proofs.C10_Convert
import Proofs.C10_GlobalMain
namespace Mammoth

/-! ### `replace_fragment` -/

/-- `replace_fragment(uri, f)` is the part of `uri` before its first `#`, then `#`, then `f`:
    an existing fragment (everything from the first `#`) is replaced, a URI without one gets `#f` appended. -/
theorem C10_replaceFragment (f : Str) :
    (∀ uri : Str, replaceFragment uri f = uri.takeWhile (· != '#') ++ S!"#" ++ f) ∧
    (∀ pre old : Str, '#' ∉ pre → replaceFragment (pre ++ '#' :: old) f = pre ++ '#' :: f) ∧
    (∀ uri : Str, '#' ∉ uri → replaceFragment uri f = uri ++ '#' :: f) :=
  ⟨fun _ => rfl, fun pre old h => c10_replaceFragment_hash pre old f h,
   fun uri h => c10_replaceFragment_nohash uri f h⟩

/-! ### instruction text -/

/-- `\s*HYPERLINK\s+"url"…`: for any leading white space `w1`, any non-empty white space `w2`, any `url`
    without a `"` and ANY trailing text `rest` (further switches such as ` \o "tip"`), the external-link
    matcher returns exactly `url` — nothing after the closing quote leaks into it. -/
theorem C10_external_link_parse (w1 w2 url rest : Str) (h1 : c10_allWs w1 = true) (h2 : c10_allWs w2 = true)
    (hne : w2 ≠ []) (hq : '"' ∉ url) :
    matchExternalLink (w1 ++ S!"HYPERLINK" ++ w2 ++ ['"'] ++ url ++ ['"'] ++ rest) = some url :=
  c10_external w1 w2 url rest h1 h2 hne hq

/-- `\s*HYPERLINK\s+\l\s+"name"…` likewise yields exactly the bookmark `name`. -/
theorem C10_internal_link_parse (w1 w2 w3 name rest : Str) (h1 : c10_allWs w1 = true)
    (h2 : c10_allWs w2 = true) (hne2 : w2 ≠ []) (h3 : c10_allWs w3 = true) (hne3 : w3 ≠ [])
    (hq : '"' ∉ name) :
    matchInternalLink (w1 ++ S!"HYPERLINK" ++ w2 ++ S!"\\l" ++ w3 ++ ['"'] ++ name ++ ['"'] ++ rest)
      = some name :=
  c10_internal w1 w2 w3 name rest h1 h2 hne2 h3 hne3 hq

/-- An instruction whose first switch is `\l` is never read as an external link, whatever follows. -/
theorem C10_external_not_internal (w1 w2 rest : Str) (h1 : c10_allWs w1 = true) (h2 : c10_allWs w2 = true)
    (hne : w2 ≠ []) : matchExternalLink (w1 ++ S!"HYPERLINK" ++ w2 ++ S!"\\l" ++ rest) = none :=
  c10_external_none w1 w2 rest h1 h2 hne

/-- The parsed field: an external instruction gives a hyperlink field with `href = url` (no anchor),
    an internal one a hyperlink field with `anchor = name` (no href); the `fldChar` children play no role. -/
theorem C10_parseInstr_hyperlink (w1 w2 w3 s rest : Str) (cs : List XmlNode) (h1 : c10_allWs w1 = true)
    (h2 : c10_allWs w2 = true) (hne2 : w2 ≠ []) (h3 : c10_allWs w3 = true) (hne3 : w3 ≠ [])
    (hq : '"' ∉ s) :
    parseInstrText (w1 ++ S!"HYPERLINK" ++ w2 ++ ['"'] ++ s ++ ['"'] ++ rest) cs
      = .hyperlink { href := some s } ∧
    parseInstrText (w1 ++ S!"HYPERLINK" ++ w2 ++ S!"\\l" ++ w3 ++ ['"'] ++ s ++ ['"'] ++ rest) cs
      = .hyperlink { anchor := some s } := by
  constructor
  · simp only [parseInstrText, c10_external w1 w2 s rest h1 h2 hne2 hq]
  · have e : w1 ++ S!"HYPERLINK" ++ w2 ++ S!"\\l" ++ w3 ++ ['"'] ++ s ++ ['"'] ++ rest =
        w1 ++ S!"HYPERLINK" ++ w2 ++ S!"\\l" ++ (w3 ++ ['"'] ++ s ++ ['"'] ++ rest) := by simp
    have hx := c10_external_none w1 w2 (w3 ++ ['"'] ++ s ++ ['"'] ++ rest) h1 h2 hne2
    rw [← e] at hx
    simp only [parseInstrText, hx, c10_internal w1 w2 w3 s rest h1 h2 hne2 h3 hne3 hq]

/-! ### the complex-field state machine -/

/-- `begin` pushes a fresh `begin` field (remembering the `fldChar`'s children, for check boxes) and
    clears the instruction text; it emits nothing. -/
theorem C10_begin_pushes (st : RState) (as : Attrs) (cs : List XmlNode)
    (h : attr? S!"w:fldCharType" as = some S!"begin") :
    readFldChar st as cs = .ok ({}, { st with stack := .begin cs :: st.stack, instr := [] }) :=
  c10_fld_begin st as cs (c10_kind_begin as h)

/-- `separate` replaces the top of the stack by the field parsed from the instruction text collected so
    far (for a `begin` on top: `parseInstrText st.instr` with that `begin`'s children); the depth and the
    rest of the stack are unchanged, nothing is emitted. -/
theorem C10_separate_replaces_top (st : RState) (as : Attrs) (cs : List XmlNode) (top : Field)
    (rest : List Field) (h : attr? S!"w:fldCharType" as = some S!"separate") (hs : st.stack = top :: rest) :
    readFldChar st as cs = .ok ({}, { st with stack := parseCurrentInstr st top :: rest }) ∧
    (∀ cs0, top = .begin cs0 → parseCurrentInstr st top = parseInstrText st.instr cs0) := by
  constructor
  · rw [c10_fld_separate st as cs (c10_kind_separate as h), hs]
  · intro cs0 e; subst e; rfl

/-- `end` pops the top of the stack (a field that never saw its `separate` is parsed now) and emits a
    check box iff that field is a check-box field; nothing else changes. -/
theorem C10_end_pops (st : RState) (as : Attrs) (cs : List XmlNode) (top : Field) (rest : List Field)
    (h : attr? S!"w:fldCharType" as = some S!"end") (hs : st.stack = top :: rest) :
    readFldChar st as cs = .ok (c10_endResult (c10_endField st top), { st with stack := rest }) := by
  rw [c10_fld_end st as cs (c10_kind_end as h), hs]

/-- `end` or `separate` on an empty stack is the IndexError of `list.pop()`. -/
theorem C10_pop_empty (st : RState) (as : Attrs) (cs : List XmlNode) (hs : st.stack = [])
    (h : attr? S!"w:fldCharType" as = some S!"end" ∨ attr? S!"w:fldCharType" as = some S!"separate") :
    readFldChar st as cs = .error (.index S!"pop from empty list") := by
  rcases h with h | h
  · rw [c10_fld_end st as cs (c10_kind_end as h), hs]
  · rw [c10_fld_separate st as cs (c10_kind_separate as h), hs]

/-- The depth invariant.  `c10_run` feeds a sequence of `w:fldChar` / `w:instrText` events to the reader
    state; `c10_wellNested d evs` says that, starting at depth `d`, every `end` and every `separate`
    happens inside an open field.  Then no error arises, and the final depth is the initial depth plus
    the number of `begin`s minus the number of `end`s. -/
theorem C10_field_depth (evs : List c10_ev) (st : RState)
    (h : c10_wellNested st.stack.length evs = true) :
    ∃ st', c10_run st evs = .ok st' ∧
      st'.stack.length = st.stack.length + c10_begins evs - c10_ends evs ∧
      c10_ends evs ≤ st.stack.length + c10_begins evs := by
  obtain ⟨st', h1, h2⟩ := c10_run_ok evs st h
  exact ⟨st', h1, by omega, by omega⟩

/-- `c10_wellNested` is exactly the domain: otherwise the run ends in the IndexError (and in no other
    error). -/
theorem C10_field_underflow (evs : List c10_ev) (st : RState)
    (h : c10_wellNested st.stack.length evs = false) :
    c10_run st evs = .error (.index S!"pop from empty list") := c10_run_err evs st h

/-- in a well-nested sequence every prefix has at least as many `begin`s (plus the initial depth) as
    `end`s -/
theorem C10_wellNested_prefix : ∀ (evs : List c10_ev) (d n : Nat), c10_wellNested d evs = true →
    c10_ends (evs.take n) ≤ d + c10_begins (evs.take n)
  | [], _, _, _ => by simp [c10_ends]
  | _ :: _, _, 0, _ => by simp [c10_ends]
  | .instr t :: es, d, n+1, h => by
    simp only [c10_wellNested] at h
    have := C10_wellNested_prefix es d n h
    rw [List.take_succ_cons, (c10_counts_instr t _).1, (c10_counts_instr t _).2]; exact this
  | .fld as cs :: es, d, n+1, h => by
    simp only [c10_wellNested] at h
    rw [List.take_succ_cons, (c10_counts_fld as cs _).1, (c10_counts_fld as cs _).2]
    cases hk : c10_kind as with
    | begin => simp only [hk] at h; have := C10_wellNested_prefix es (d+1) n h; simp; omega
    | other => simp only [hk] at h; have := C10_wellNested_prefix es d n h; simp; omega
    | separate =>
      simp only [hk, Bool.and_eq_true, decide_eq_true_eq] at h
      have := C10_wellNested_prefix es d n h.2; simp; omega
    | end_ =>
      simp only [hk, Bool.and_eq_true, decide_eq_true_eq] at h
      have := C10_wellNested_prefix es (d-1) n h.2; simp; omega

/-- the two event kinds of `c10_run` are what the reader does on `w:fldChar` and `w:instrText` -/
theorem C10_events_are_reader_steps (env : REnv) (f : Nat) (st : RState) (as : Attrs) (cs : List XmlNode) :
    readElem env (f+1) st (.elem S!"w:fldChar" as cs) = readFldChar st as cs ∧
    readElem env (f+1) st (.elem S!"w:instrText" as cs) =
      .ok ({}, { st with instr := st.instr ++ innerTextL cs }) :=
  ⟨rfl, rfl⟩

/-- `current_hyperlink_kwargs` is the top-most (innermost) hyperlink field of the stack.  So a hyperlink
    field stays in force under any fields opened after it that are not hyperlinks themselves (still
    `begin`, check box, unknown), a later hyperlink field shadows it, and without any hyperlink field
    there is no link. -/
theorem C10_currentHyperlink_spec (stack : List Field) :
    currentHyperlink stack = stack.findSome? c10_linkOf ∧
    (∀ pre rest kw, stack = pre ++ .hyperlink kw :: rest → pre.all (fun f => !c10_isHyperlink f) = true →
        currentHyperlink stack = some kw) ∧
    (stack.all (fun f => !c10_isHyperlink f) = true → currentHyperlink stack = none) := by
  refine ⟨c10_currentHyperlink_eq stack, ?_, ?_⟩
  · intro pre rest kw e h; subst e
    rw [c10_currentHyperlink_skip pre _ h]; rfl
  · intro h
    have := c10_currentHyperlink_skip stack [] h
    simpa [currentHyperlink] using this

/-- …and the link stops at its own `end`: once the hyperlink field on top is popped, the link in force
    is whatever the rest of the stack says. -/
theorem C10_hyperlink_stops_at_end (st : RState) (as : Attrs) (cs : List XmlNode) (kw : LinkProps)
    (rest : List Field) (h : attr? S!"w:fldCharType" as = some S!"end")
    (hs : st.stack = .hyperlink kw :: rest) :
    ∃ st', readFldChar st as cs = .ok ({}, st') ∧ currentHyperlink st'.stack = currentHyperlink rest := by
  refine ⟨{ st with stack := rest }, ?_, rfl⟩
  rw [C10_end_pops st as cs _ rest h hs]; rfl

/-! ### the reader: runs inside a field, `w:hyperlink`, `w:bookmarkStart` -/

/-- A run read while a hyperlink field is in force (after reading its own children) has its children
    wrapped in one hyperlink with that field's properties; otherwise they are left as they are. -/
theorem C10_reader_run_wrapped (env : REnv) (f : Nat) (st st1 : RState) (as : Attrs) (cs : List XmlNode)
    (r : ReadResult) (hr : readAllWith (readElem env f) st cs = .ok (r, st1)) :
    ∃ rr props, readElem env (f+1) st (.elem S!"w:r" as cs) = .ok (rr, st1) ∧
      rr.elements = [.run props (match currentHyperlink st1.stack with
                                  | none => r.elements
                                  | some kw => [.hyperlink kw r.elements])] := by
  refine ⟨c10_runResult env cs r st1, _, ?_, rfl⟩
  rw [c10_reader_run, hr]; rfl

/-- `w:hyperlink`: with `r:id`, the href is the relationship target, its fragment replaced by `w:anchor`
    when that is given; without `r:id` but with `w:anchor` it is an internal link to that anchor; with
    neither, the children are passed through unwrapped.  (`c10_hyperlinkResult` is that decision list.) -/
theorem C10_reader_hyperlink (env : REnv) (f : Nat) (st st1 : RState) (as : Attrs) (cs : List XmlNode)
    (r : ReadResult) (hr : readAllWith (readElem env f) st cs = .ok (r, st1)) :
    readElem env (f+1) st (.elem S!"w:hyperlink" as cs) = (c10_hyperlinkResult env as r).map (·, st1) :=
  c10_reader_hyperlink env f st st1 as cs r hr

/-- the relationship case of `C10_reader_hyperlink`, spelled out -/
theorem C10_reader_hyperlink_rel (env : REnv) (as : Attrs) (r : ReadResult) (rid target : Str)
    (h1 : attr? S!"r:id" as = some rid) (h2 : env.rels.targetById rid = .ok target) :
    (∀ a, attr? S!"w:anchor" as = some a →
      c10_hyperlinkResult env as r = .ok { r with elements :=
        [.hyperlink { href := some (replaceFragment target a), targetFrame := c10_tgtFrame as } r.elements] }) ∧
    (attr? S!"w:anchor" as = none →
      c10_hyperlinkResult env as r = .ok { r with elements :=
        [.hyperlink { href := some target, targetFrame := c10_tgtFrame as } r.elements] }) := by
  constructor
  · intro a ha; simp only [c10_hyperlinkResult, h1, h2, ha]
  · intro ha; simp only [c10_hyperlinkResult, h1, h2, ha]

/-- `w:bookmarkStart` yields one bookmark carrying its `w:name` (except Word's own `_GoBack`). -/
theorem C10_reader_bookmark (env : REnv) (f : Nat) (st : RState) (as : Attrs) (cs : List XmlNode)
    (h : attr? S!"w:name" as ≠ some S!"_GoBack") :
    readElem env (f+1) st (.elem S!"w:bookmarkStart" as cs) =
      .ok (rrElems [.bookmark (attr? S!"w:name" as)], st) := by
  rw [c10_reader_bookmark]; simp [h]

/-! ### the converter -/

/-- A hyperlink becomes one collapsible `a` around its converted children whose `href` attribute is
    `"#" ++ id_prefix ++ anchor` when an anchor is given and the href otherwise, and which has a `target`
    attribute iff a target frame is given (with that value). -/
theorem C10_hyperlink_href (cfg : Cfg) (hdr : Bool) (h : LinkProps) (cs : List Elem) (st st' : ConvState)
    (ns : List Node) (hv : (visitAll cfg hdr cs).run st = .ok (ns, st')) :
    (visit cfg hdr (.hyperlink h cs)).run st = .ok ([cel S!"a" (c10_linkAttrs cfg h) ns], st') ∧
    Dict.get? S!"href" (Dict.ofList (c10_linkAttrs cfg h)) =
      some (match h.anchor with
            | some a => S!"#" ++ cfg.idPrefix ++ a
            | none => pyOpt h.href) ∧
    Dict.get? S!"target" (Dict.ofList (c10_linkAttrs cfg h)) = h.targetFrame := by
  refine ⟨c10_visit_hyperlink cfg hdr h cs st st' ns hv, ?_, (c10_linkAttrs_get cfg h).2⟩
  rw [(c10_linkAttrs_get cfg h).1, c10_linkHref]
  cases h.anchor <;> simp [htmlId]

/-- A bookmark becomes one `a` whose id is `id_prefix ++ name` (a missing name is formatted as `None`, as
    `"{0}{1}".format` does); its only child is the force-write marker, so `strip_empty` keeps it
    (`hasContent`).  Nothing else happens. -/
theorem C10_bookmark_id (cfg : Cfg) (hdr : Bool) (name : Option Str) (st : ConvState) :
    (visit cfg hdr (.bookmark name)).run st =
      .ok ([cel S!"a" [(S!"id", cfg.idPrefix ++ pyOpt name)] [.forceWrite]], st) ∧
    Dict.get? S!"id" (Dict.ofList [(S!"id", cfg.idPrefix ++ pyOpt name)]) = some (cfg.idPrefix ++ pyOpt name) ∧
    hasContent (cel S!"a" [(S!"id", cfg.idPrefix ++ pyOpt name)] [.forceWrite]) = true := by
  refine ⟨c10_visit_bookmark cfg hdr name st, ?_, ?_⟩
  · simp [c10_get_ofList, lookupLast]
  · simp [cel, hasContent, anyContent]

/-- Visiting a note reference in state `st` emits `<sup><a href="#referent" id="reference">[k]</a></sup>`
    with `k = (number of references visited before) + 1`, and appends `(type, id)` to the list of
    references — nothing else.  So the k-th reference visited is labelled `[k]` and is the k-th entry. -/
theorem C10_note_numbering (cfg : Cfg) (hdr : Bool) (ty id : Str) (st : ConvState) :
    (visit cfg hdr (.noteRef ty id)).run st =
      .ok ([el S!"sup" [] [el S!"a" [(S!"href", S!"#" ++ referentId cfg ty id), (S!"id", referenceId cfg ty id)]
              [.text (S!"[" ++ natToStr (st.noteRefs.length + 1) ++ S!"]")]]],
           { st with noteRefs := st.noteRefs ++ [(ty, id)] }) :=
  c10_visit_noteRef cfg hdr ty id st

/-- A note becomes one `li` whose id is the referent id and whose last child is the back-link paragraph
    ` ↑` pointing at `"#" ++` the reference id. -/
theorem C10_note_item (cfg : Cfg) (n : Note) (st st' : ConvState) (body : List Node)
    (hv : (visitAll cfg false n.body).run st = .ok (body, st')) :
    (visitNote cfg n).run st =
      .ok ([el S!"li" [(S!"id", referentId cfg n.ty n.id)]
              (body ++ [cel S!"p" [] [.text S!" ", el S!"a" [(S!"href", S!"#" ++ referenceId cfg n.ty n.id)]
                                        [.text upArrow]]])], st') :=
  c10_visitNote cfg n st st' body hv

/-- Reference and note point at each other: read back from the attribute dictionaries of
    `C10_note_numbering` and `C10_note_item`, the reference's href is `#` + the id of the note's `li`, and
    the back-link's href is `#` + the id of the reference's `a`. -/
theorem C10_note_roundtrip (cfg : Cfg) (ty id : Str) :
    let refAttrs := Dict.ofList [(S!"href", S!"#" ++ referentId cfg ty id), (S!"id", referenceId cfg ty id)]
    let liAttrs := Dict.ofList [(S!"id", referentId cfg ty id)]
    let backAttrs := Dict.ofList [(S!"href", S!"#" ++ referenceId cfg ty id)]
    Dict.get? S!"href" refAttrs = (Dict.get? S!"id" liAttrs).map (S!"#" ++ ·) ∧
    Dict.get? S!"href" backAttrs = (Dict.get? S!"id" refAttrs).map (S!"#" ++ ·) := by
  simp [c10_get_ofList, lookupLast]

/-- Comment references (when a `comment-reference` style is mapped to elements `es`): the k-th one
    visited is labelled `[` initials k `]`, links to the comment's referent id, carries the reference id,
    and records `(label, comment)` — the list later rendered by `visit_comment`. -/
theorem C10_comment_numbering (cfg : Cfg) (hdr : Bool) (id : Str) (es : List Tag) (c : Comment)
    (st : ConvState) (hp : findPath cfg .commentReference = some (.elements es))
    (hc : lookupLast id (cfg.comments.map fun c => (c.id, c)) = some c) :
    (visit cfg hdr (.commentRef id)).run st =
      .ok (wrapElems es [el S!"a" [(S!"href", S!"#" ++ referentId cfg S!"comment" id),
                                    (S!"id", referenceId cfg S!"comment" id)]
              [.text (S!"[" ++ commentAuthorLabel c ++ natToStr (st.refComments.length + 1) ++ S!"]")]],
           { st with refComments := st.refComments ++
              [(S!"[" ++ commentAuthorLabel c ++ natToStr (st.refComments.length + 1) ++ S!"]", c)] }) := by
  rw [visit]
  simp only [hp, hc, c10_run_bind, c10_run_get, c10_run_modify, c10_run_pure]

/-- A referenced comment becomes a `dt` whose id is the comment's referent id (what the reference links
    to, since the looked-up comment has the referenced id: `c10_lookup_key`) and a `dd` ending in the
    back-link to the reference id. -/
theorem C10_comment_item (cfg : Cfg) (lc : Str × Comment) (st st' : ConvState) (body : List Node)
    (hv : (visitAll cfg false lc.2.body).run st = .ok (body, st')) :
    (visitComment cfg lc).run st =
      .ok ([el S!"dt" [(S!"id", referentId cfg S!"comment" lc.2.id)] [.text (S!"Comment " ++ lc.1)],
            el S!"dd" [] (body ++ [backLink (S!"#" ++ referenceId cfg S!"comment" lc.2.id)])], st') := by
  unfold visitComment
  simp only [c10_run_bind, hv]
  rfl

/-- the comment found for a reference has the referenced id, so the `dt` id equals the reference's href
    target -/
theorem C10_comment_connected (cfg : Cfg) (id : Str) (c : Comment)
    (hc : lookupLast id (cfg.comments.map fun c => (c.id, c)) = some c) :
    S!"#" ++ referentId cfg S!"comment" c.id = S!"#" ++ referentId cfg S!"comment" id := by
  rw [c10_lookup_key (fun c : Comment => c.id) id cfg.comments c hc]

/-- every id the converter generates starts with `id_prefix` -/
theorem C10_ids_prefixed (cfg : Cfg) (s ty id : Str) :
    cfg.idPrefix <+: htmlId cfg s ∧ cfg.idPrefix <+: referentId cfg ty id ∧
    cfg.idPrefix <+: referenceId cfg ty id :=
  ⟨⟨s, rfl⟩, ⟨_, rfl⟩, ⟨_, rfl⟩⟩

/-- the referent and reference ids, spelled out: functions of `id_prefix`, the type and the id only -/
theorem C10_ids_functional (cfg : Cfg) (ty id : Str) :
    referentId cfg ty id = cfg.idPrefix ++ ty ++ S!"-" ++ id ∧
    referenceId cfg ty id = cfg.idPrefix ++ ty ++ S!"-ref-" ++ id := by
  simp [referentId, referenceId, htmlId]

/-- `visit_document`: body, then one `ol` with the notes, then one `dl` with the comments; the notes are
    the references collected while visiting the body, resolved IN THAT ORDER, and the `li` items come out
    in the same order with the ids the references link to: the k-th `li` has id
    `referentId` of the k-th entry of `noteRefs`, i.e. of the reference labelled `[k]`. -/
theorem C10_noteRefs_order (cfg : Cfg) (d : Document) (st st1 st2 st3 : ConvState)
    (nodes noteNodes commentNodes : List Node) (notes : List Note)
    (h1 : (visitAll cfg false d.children).run st = .ok (nodes, st1))
    (h2 : st1.noteRefs.mapM (resolveNote d.notes) = .ok notes)
    (h3 : (mapMConcat (visitNote cfg) notes).run st1 = .ok (noteNodes, st2))
    (h4 : (mapMConcat (visitComment cfg) st2.refComments).run st2 = .ok (commentNodes, st3)) :
    (visitDocument cfg d).run st =
      .ok (nodes ++ [el S!"ol" [] noteNodes, el S!"dl" [] commentNodes], st3) ∧
    notes.map (fun n => (n.ty, n.id)) = st1.noteRefs ∧
    noteNodes.map c10_nodeId = st1.noteRefs.map (fun r => some (referentId cfg r.1 r.2)) := by
  have e2 := c10_resolve_all d.notes _ _ h2
  refine ⟨c10_visitDocument cfg d st st1 st2 st3 nodes noteNodes commentNodes notes h1 h2 h3 h4, e2, ?_⟩
  rw [c10_noteItems_ids cfg notes st1 st2 noteNodes h3, ← e2, List.map_map]
  rfl

/-- hence the href of every note reference met in the body resolves: it is `#` + the id of one of the
    `li` items of the notes list -/
theorem C10_note_href_resolves (cfg : Cfg) (d : Document) (st st1 st2 st3 : ConvState)
    (nodes noteNodes commentNodes : List Node) (notes : List Note)
    (h1 : (visitAll cfg false d.children).run st = .ok (nodes, st1))
    (h2 : st1.noteRefs.mapM (resolveNote d.notes) = .ok notes)
    (h3 : (mapMConcat (visitNote cfg) notes).run st1 = .ok (noteNodes, st2))
    (h4 : (mapMConcat (visitComment cfg) st2.refComments).run st2 = .ok (commentNodes, st3))
    (ty id : Str) (hr : (ty, id) ∈ st1.noteRefs) :
    ∃ li ∈ noteNodes, c10_nodeId li = some (referentId cfg ty id) := by
  have h := (C10_noteRefs_order cfg d st st1 st2 st3 nodes noteNodes commentNodes notes h1 h2 h3 h4).2.2
  have hm : some (referentId cfg ty id) ∈ noteNodes.map c10_nodeId := by
    rw [h]; exact List.mem_map.mpr ⟨(ty, id), hr, rfl⟩
  obtain ⟨li, hli, e⟩ := List.mem_map.mp hm
  exact ⟨li, hli, e⟩

/-- a reference whose note is missing is the KeyError of `Notes.resolve` (nothing is output) -/
theorem C10_missing_note (cfg : Cfg) (d : Document) (st st1 : ConvState) (nodes : List Node) (e : Err)
    (h1 : (visitAll cfg false d.children).run st = .ok (nodes, st1))
    (h2 : st1.noteRefs.mapM (resolveNote d.notes) = .error e) :
    (visitDocument cfg d).run st = .error e := by
  unfold visitDocument
  simp only [c10_run_bind, h1, c10_run_get, h2, c10_run_throw]

/-! ### non-vacuity -/

example : matchExternalLink S!" HYPERLINK \"http://example.com/a\" \\o \"tip\" " = some S!"http://example.com/a" := by
  decide
example : matchInternalLink S!" HYPERLINK \\l \"_Toc1\" \\h" = some S!"_Toc1" := by decide
example : matchExternalLink S!" HYPERLINK \\l \"_Toc1\" \\h" = none := by decide
example : c10_allWs S!" \t" = true ∧ S!" " ≠ [] ∧ '"' ∉ S!"http://x" := by decide
example : replaceFragment S!"http://x/y#old" S!"new" = S!"http://x/y#new" := by decide
example : replaceFragment S!"http://x/y" S!"new" = S!"http://x/y#new" := by decide

private def c10_exBegin : c10_ev := .fld [(S!"w:fldCharType", S!"begin")] []
private def c10_exSep : c10_ev := .fld [(S!"w:fldCharType", S!"separate")] []
private def c10_exEnd : c10_ev := .fld [(S!"w:fldCharType", S!"end")] []
/-- a hyperlink field, and nested in its result a PAGE field: well nested -/
private def c10_exEvents : List c10_ev :=
  [c10_exBegin, .instr S!" HYPERLINK \"http://x\" ", c10_exSep, c10_exBegin, .instr S!" PAGE ", c10_exSep]
example : c10_wellNested 0 (c10_exEvents ++ [c10_exEnd, c10_exEnd]) = true := by decide
example : c10_wellNested 0 [c10_exBegin, c10_exEnd, c10_exEnd] = false := by decide
/-- inside the nested PAGE field the link is still in force … -/
example : (c10_run {} c10_exEvents).map (fun s => currentHyperlink s.stack)
    = .ok (some { href := some S!"http://x" }) := by rfl
/-- … after the inner `end` too, and after the outer `end` it is gone -/
example : (c10_run {} (c10_exEvents ++ [c10_exEnd])).map (fun s => currentHyperlink s.stack)
    = .ok (some { href := some S!"http://x" }) := by rfl
example : (c10_run {} (c10_exEvents ++ [c10_exEnd, c10_exEnd])).map (fun s => currentHyperlink s.stack)
    = .ok none := by rfl

private def c10_exCfg : Cfg := { idPrefix := S!"doc-" }
example : (visit c10_exCfg false (.noteRef S!"footnote" S!"4")).run { noteRefs := [(S!"endnote", S!"2")] } =
    .ok ([el S!"sup" [] [el S!"a" [(S!"href", S!"#doc-footnote-4"), (S!"id", S!"doc-footnote-ref-4")]
            [.text S!"[2]"]]],
         { noteRefs := [(S!"endnote", S!"2"), (S!"footnote", S!"4")] }) := by
  rw [C10_note_numbering]; rfl
example : Dict.get? S!"href" (Dict.ofList (c10_linkAttrs c10_exCfg { anchor := some S!"bm", targetFrame := some S!"_blank" }))
    = some S!"#doc-bm" := by decide

/-! ### GLOBAL statements: the whole output forest of a whole document

  Vocabulary (all defined in `Proofs/C10_Global*.lean`):
  * `idsOf ns`, `hrefsOf ns`: all values of the attribute `id` / `href` in the forest `ns`, in document
    order; `anchorsOf ns`: the elements carrying both, as (id, href, text).
  * `c10_cleanCfg cfg`: no HTML path of the style map and no attribute returned by the image converter is
    called `id` or `href` (decidable; true of the default style map).  Without it the user's own style map
    (`p => p[id='x']`) writes ids the converter knows nothing about (example below).
  * `c10_outEvents cfg d`: the EVENTS of the output, a function of the input document only — bookmarks,
    hyperlinks, note references and (enabled) comment references in reading order (nothing below an
    ignored paragraph/run/table), first of the body, then for every note the body references its item
    (`li`), the events of its body and its back-link, then likewise for every comment referenced from the
    body or from a rendered note.  `c10_evId` / `c10_evHref` say which id / href each event writes. -/

/-- CHARACTERISATION.  Under a clean configuration, if the conversion succeeds, the ids and the hrefs of the
    output forest are exactly — same values, same order, same multiplicity — the ones the events of the
    document prescribe, and the note references recorded are the note-reference events. -/
theorem C10_output_ids_hrefs (cfg : Cfg) (d : Document) (r : ConvResult) (hc : c10_cleanCfg cfg = true)
    (h : convertDoc cfg d = .ok r) :
    idsOf r.nodes = (c10_outEvents cfg d).flatMap (c10_evId cfg) ∧
    hrefsOf r.nodes = (c10_outEvents cfg d).flatMap (c10_evHref cfg) ∧
    r.noteRefs = c10_evRefs (c10_outEvents cfg d) := by
  obtain ⟨e1, e2, _, _, e5, _⟩ := c10_convertDoc_events cfg hc d r h
  exact ⟨e1, e2, e5⟩

/-- (2) Under a clean configuration EVERY id of the output forest starts with `id_prefix`, for every
    document whose conversion succeeds. -/
theorem C10_all_ids_prefixed (cfg : Cfg) (d : Document) (r : ConvResult) (hc : c10_cleanCfg cfg = true)
    (h : convertDoc cfg d = .ok r) : ∀ x ∈ idsOf r.nodes, cfg.idPrefix <+: x :=
  c10_all_ids_prefixed cfg hc d r h

/-- (3) Under a clean configuration, when the conversion succeeds (so every note reference of the body
    resolved) and the rendered note and comment bodies reference only notes that the body references too
    and the rendered comment bodies only comments referenced from the body or a rendered note
    (`c10_refsClosed`; in particular when those bodies contain no references at all, `c10_bodiesPlain`):
    the href of every note reference, note back-link, comment reference and comment back-link is `#x` with
    `x` an id of the output; consequently every href of the output is either the href of one of the
    document's hyperlinks or such a resolving `#x`. -/
theorem C10_all_generated_hrefs_resolve (cfg : Cfg) (d : Document) (r : ConvResult)
    (hc : c10_cleanCfg cfg = true) (h : convertDoc cfg d = .ok r)
    (hcl : c10_refsClosed (c10_docCfg cfg d) d = true) :
    (∀ ev ∈ c10_outEvents cfg d, c10_isLink ev = false → ∀ hr ∈ c10_evHref cfg ev,
        ∃ x, hr = '#' :: x ∧ x ∈ idsOf r.nodes) ∧
    (∀ hr ∈ hrefsOf r.nodes,
        (∃ l, c10_Ev.link l ∈ c10_outEvents cfg d ∧ hr = c10_linkHref cfg l) ∨
        ∃ x, hr = '#' :: x ∧ x ∈ idsOf r.nodes) :=
  c10_all_hrefs_resolve cfg hc d r h hcl

/-- (3), exact form.  When the visited reference keys are distinct and well formed and no bookmark is named
    `type-id` for a visited reference key (`c10_noClash`: then an href can only resolve to the item it means),
    the hypothesis of (3) is NECESSARY as well: all generated hrefs resolve iff `c10_refsClosed`. -/
theorem C10_generated_hrefs_resolve_iff (cfg : Cfg) (d : Document) (r : ConvResult)
    (hc : c10_cleanCfg cfg = true) (h : convertDoc cfg d = .ok r)
    (hcl : c10_noClash (c10_outEvents cfg d) = true) :
    (∀ ev ∈ c10_outEvents cfg d, c10_isLink ev = false → ∀ hr ∈ c10_evHref cfg ev,
        ∃ x, hr = '#' :: x ∧ x ∈ idsOf r.nodes) ↔ c10_refsClosed (c10_docCfg cfg d) d = true :=
  c10_resolve_iff_closed cfg hc d r h hcl

/-- the simple form of the hypothesis of (3) implies it -/
theorem C10_bodiesPlain_closed (cfg : Cfg) (d : Document) (h : c10_bodiesPlain cfg d = true) :
    c10_refsClosed cfg d = true := c10_bodiesPlain_closed cfg d h

/-- Back-links need no hypothesis on the bodies: the back-link of every rendered note or comment points at
    the id of a reference anchor of the output. -/
theorem C10_backlinks_resolve (cfg : Cfg) (d : Document) (r : ConvResult) (hc : c10_cleanCfg cfg = true)
    (h : convertDoc cfg d = .ok r) (ty id : Str) (hev : c10_Ev.back ty id ∈ c10_outEvents cfg d) :
    referenceId cfg ty id ∈ idsOf r.nodes :=
  c10_all_backlinks_resolve cfg hc d r h ty id hev

/-- (3b) Internal hyperlinks.  A hyperlink with anchor `a` has href `#` + `id_prefix` + `a`
    (`C10_hyperlink_href`).  That target is an id of the output iff `a` is the name of a visited bookmark
    or one of the suffixes the converter generates itself (`type-ref-id` of a visited reference, `type-id`
    of a rendered note/comment); so, for an anchor that is not of a generated form, the link resolves iff a
    bookmark of that name is visited (in the body, a rendered note or a rendered comment). -/
theorem C10_internal_link_resolves_iff_bookmark (cfg : Cfg) (d : Document) (r : ConvResult)
    (hc : c10_cleanCfg cfg = true) (h : convertDoc cfg d = .ok r) (a : Str) :
    (cfg.idPrefix ++ a ∈ idsOf r.nodes ↔
      a ∈ c10_evBookmarks (c10_outEvents cfg d) ∨ a ∈ c10_generated (c10_outEvents cfg d)) ∧
    ((c10_generated (c10_outEvents cfg d)).contains a = false →
      (cfg.idPrefix ++ a ∈ idsOf r.nodes ↔ c10_Ev.bookmark a ∈ c10_outEvents cfg d)) :=
  c10_internal_link_iff cfg hc d r h a

/-- (4) Uniqueness.  Under a clean configuration the ids of the output are pairwise distinct as soon as
    (`c10_uniqueHyp`, a decidable condition on the events of the document):
    no two visited references have the same key — note references keyed (type, id), comment references
    ("comment", id), counting the references inside rendered note and comment bodies —; every key is well
    formed: the type contains no `-` and the id does not start with `ref-` (`c10_keyOK`; this is exactly
    what makes `type-ref-id` and `type-id` injective and disjoint); bookmark names are pairwise distinct;
    and no bookmark is named like a generated id (`c10_generated`). -/
theorem C10_ids_unique (cfg : Cfg) (d : Document) (r : ConvResult) (hc : c10_cleanCfg cfg = true)
    (h : convertDoc cfg d = .ok r) (hu : c10_uniqueHyp (c10_outEvents cfg d) = true) :
    (idsOf r.nodes).Nodup :=
  c10_ids_unique cfg hc d r h hu

/-- (4) in the vocabulary of the docx reader (note types are `footnote` / `endnote`): the ids are pairwise
    distinct when the list of (type, id) note references visited has no duplicates, the list of comment
    references visited has no duplicates, no note or comment id starts with `ref-`, bookmark names are pairwise
    distinct and no bookmark is named like a generated id (`c10_uniqueHypSimple`). -/
theorem C10_ids_unique_reader (cfg : Cfg) (d : Document) (r : ConvResult) (hc : c10_cleanCfg cfg = true)
    (h : convertDoc cfg d = .ok r) (hu : c10_uniqueHypSimple (c10_outEvents cfg d) = true) :
    (idsOf r.nodes).Nodup :=
  c10_ids_unique_simple cfg hc d r h hu

/-- (4), exact form: the ids are pairwise distinct iff the id suffixes (bookmark names, `type-ref-id`,
    `type-id`) prescribed by the events are. -/
theorem C10_ids_unique_iff (cfg : Cfg) (d : Document) (r : ConvResult) (hc : c10_cleanCfg cfg = true)
    (h : convertDoc cfg d = .ok r) :
    (idsOf r.nodes).Nodup ↔ (c10_evSuffixes (c10_outEvents cfg d)).Nodup :=
  c10_ids_unique_iff cfg hc d r h

/-- (5a) `strip_empty` and `collapse` on ANY forest: no value of any attribute is invented (the values after
    are a sub-list of the values before); `collapse` keeps every value of every attribute and only drops
    repeated occurrences (when it merges two adjacent elements with equal attributes); `strip_empty` keeps
    all ids when every element with an id has content; so pairwise distinct ids survive exactly. -/
theorem C10_strip_collapse_attrs (k : Str) (ns : List Node) :
    (valsOfL k (collapse (stripEmpty ns))).Sublist (valsOfL k ns) ∧
    ((valsOfL k (collapse ns)).Sublist (valsOfL k ns) ∧ ∀ x ∈ valsOfL k ns, x ∈ valsOfL k (collapse ns)) ∧
    (c10_idContentL ns = true → idsOf (stripEmpty ns) = idsOf ns) ∧
    (c10_idContentL ns = true → (idsOf ns).Nodup → idsOf (collapse (stripEmpty ns)) = idsOf ns) :=
  ⟨c10_render_vals k ns, c10_collapse_sq k ns, c10_ids_stripEmpty ns, c10_render_ids_nodup ns⟩

/-- (5b) The rendered forest `collapse (strip_empty nodes)` of a successful conversion under a clean
    configuration has exactly the same set of ids (in the same order, repeated ones possibly fewer; the very
    same list when they are distinct) — notes, comments, reference anchors and bookmarks all have content —
    and its hrefs are a sub-list of the hrefs before. -/
theorem C10_ids_survive_render (cfg : Cfg) (d : Document) (r : ConvResult) (hc : c10_cleanCfg cfg = true)
    (h : convertDoc cfg d = .ok r) :
    (∀ x, x ∈ idsOf (collapse (stripEmpty r.nodes)) ↔ x ∈ idsOf r.nodes) ∧
    (idsOf (collapse (stripEmpty r.nodes))).Sublist (idsOf r.nodes) ∧
    (hrefsOf (collapse (stripEmpty r.nodes))).Sublist (hrefsOf r.nodes) ∧
    ((idsOf r.nodes).Nodup → idsOf (collapse (stripEmpty r.nodes)) = idsOf r.nodes) :=
  c10_render_survival cfg hc d r h

/-- (5c) Hence (3) and (4) hold for the rendered forest: under the hypothesis of (3) every href of
    `collapse (strip_empty nodes)` is a hyperlink's href or `#x` with `x` an id of the rendered forest; under
    the hypothesis of (4) the ids of the rendered forest are the ids before, pairwise distinct. -/
theorem C10_rendered_hrefs_resolve_ids_unique (cfg : Cfg) (d : Document) (r : ConvResult)
    (hc : c10_cleanCfg cfg = true) (h : convertDoc cfg d = .ok r) :
    (c10_refsClosed (c10_docCfg cfg d) d = true →
      ∀ hr ∈ hrefsOf (collapse (stripEmpty r.nodes)),
        (∃ l, c10_Ev.link l ∈ c10_outEvents cfg d ∧ hr = c10_linkHref cfg l) ∨
        ∃ x, hr = '#' :: x ∧ x ∈ idsOf (collapse (stripEmpty r.nodes))) ∧
    (c10_uniqueHyp (c10_outEvents cfg d) = true →
      idsOf (collapse (stripEmpty r.nodes)) = idsOf r.nodes ∧ (idsOf (collapse (stripEmpty r.nodes))).Nodup) :=
  ⟨c10_render_resolve cfg hc d r h, c10_render_unique cfg hc d r h⟩

/-- (6) Labels, when no comment reference is rendered (no `comment-reference` mapping — the default — or no
    comment reference visited).  The anchors of the output (elements with id and href) are the note
    references in reading order: their texts are `[1]`, `[2]`, …, `[n]` (n the number of references
    visited), their hrefs `#` + the referent id and their ids the reference id of the 1st, 2nd, … reference;
    the output ends with the `ol` of the notes and the `dl` of the comments, and the i-th `li` of the `ol`
    has the referent id of the i-th reference, i.e. the id the i-th anchor's href names (the `li`s are those
    of the references of the body: as many as all references when note bodies contain none). -/
theorem C10_labels_in_order (cfg : Cfg) (d : Document) (r : ConvResult) (hc : c10_cleanCfg cfg = true)
    (h : convertDoc cfg d = .ok r) (hnc : (c10_evCRefs (c10_outEvents cfg d)).isEmpty = true) :
    (anchorsOf r.nodes).map (·.2.2) = (List.range' 1 r.noteRefs.length).map c10_label ∧
    (anchorsOf r.nodes).map (·.2.1) = r.noteRefs.map (fun ref => S!"#" ++ referentId cfg ref.1 ref.2) ∧
    (anchorsOf r.nodes).map (·.1) = r.noteRefs.map (fun ref => referenceId cfg ref.1 ref.2) ∧
    ∃ body items cnodes, r.nodes = body ++ [el S!"ol" [] items, el S!"dl" [] cnodes] ∧
      items.length ≤ r.noteRefs.length ∧
      items.map c10_nodeId = (r.noteRefs.take items.length).map (fun ref => some (referentId cfg ref.1 ref.2)) :=
  c10_labels cfg hc d r h hnc

/-- (6), general form (comment references enabled): the anchors are, in reading order, those of the note
    and comment reference events; the k-th note reference visited is labelled `[k]` and the k-th comment
    reference `[` initials k `]`, each kind with its own counter (`c10_evAnchors`). -/
theorem C10_labels_interleaved (cfg : Cfg) (d : Document) (r : ConvResult) (hc : c10_cleanCfg cfg = true)
    (h : convertDoc cfg d = .ok r) :
    anchorsOf r.nodes = c10_evAnchors (c10_docCfg cfg d) 0 0 (c10_outEvents cfg d) :=
  c10_labels_general cfg hc d r h

/-! #### non-vacuity and necessity of the hypotheses -/

private def c10_gCfg : Cfg := { idPrefix := S!"doc-" }
private def c10_gT (s : Str) : Elem := .run {} [.text s]
/-- two paragraphs: a bookmark, a footnote reference; an internal link to the bookmark, an endnote reference -/
private def c10_gDoc : Document :=
  { children := [
      .paragraph {} [.bookmark (some S!"top"), c10_gT S!"Hello", .noteRef S!"footnote" S!"1"],
      .paragraph {} [.hyperlink { anchor := some S!"top" } [c10_gT S!"up"], .noteRef S!"endnote" S!"1"]],
    notes := [{ ty := S!"footnote", id := S!"1", body := [.paragraph {} [c10_gT S!"fn"]] },
              { ty := S!"endnote", id := S!"1", body := [.paragraph {} [c10_gT S!"en"]] }] }

/-- the example satisfies every hypothesis used above -/
example : c10_cleanCfg c10_gCfg = true ∧ (∃ r, convertDoc c10_gCfg c10_gDoc = .ok r) ∧
    c10_refsClosed (c10_docCfg c10_gCfg c10_gDoc) c10_gDoc = true ∧
    c10_bodiesPlain (c10_docCfg c10_gCfg c10_gDoc) c10_gDoc = true ∧
    c10_uniqueHyp (c10_outEvents c10_gCfg c10_gDoc) = true ∧
    c10_uniqueHypSimple (c10_outEvents c10_gCfg c10_gDoc) = true ∧
    c10_noClash (c10_outEvents c10_gCfg c10_gDoc) = true ∧
    (c10_evCRefs (c10_outEvents c10_gCfg c10_gDoc)).isEmpty = true ∧
    (c10_generated (c10_outEvents c10_gCfg c10_gDoc)).contains S!"top" = false :=
  ⟨by decide, ⟨_, rfl⟩, by decide, by decide, by decide, by decide, by decide, by decide, by decide⟩

/-- its events -/
example : c10_outEvents c10_gCfg c10_gDoc =
    [.bookmark S!"top", .noteRef S!"footnote" S!"1", .link { anchor := some S!"top" }, .noteRef S!"endnote" S!"1",
     .item S!"footnote" S!"1", .back S!"footnote" S!"1", .item S!"endnote" S!"1", .back S!"endnote" S!"1"] := by
  decide

/-- its output: ids, hrefs, labels, before and after `strip_empty`/`collapse` -/
example : ∃ r, convertDoc c10_gCfg c10_gDoc = .ok r ∧
    idsOf r.nodes = [S!"doc-top", S!"doc-footnote-ref-1", S!"doc-endnote-ref-1", S!"doc-footnote-1", S!"doc-endnote-1"] ∧
    hrefsOf r.nodes = [S!"#doc-footnote-1", S!"#doc-top", S!"#doc-endnote-1", S!"#doc-footnote-ref-1",
                       S!"#doc-endnote-ref-1"] ∧
    (anchorsOf r.nodes).map (·.2.2) = [S!"[1]", S!"[2]"] ∧
    idsOf (collapse (stripEmpty r.nodes)) = idsOf r.nodes ∧
    hrefsOf (collapse (stripEmpty r.nodes)) = hrefsOf r.nodes :=
  ⟨_, rfl, by decide, by decide, by decide, by decide, by decide⟩

private def c10_gCfgC : Cfg :=
  { idPrefix := S!"doc-", styleMap := [{ matcher := .commentReference, path := .elements [pathElem S!"sup" true] }] }
/-- comment references enabled: the body references comment 1 and footnote 1, whose body references comment 2 -/
private def c10_gDocC : Document :=
  { children := [.paragraph {} [c10_gT S!"x", .commentRef S!"1", .noteRef S!"footnote" S!"1"]],
    notes := [{ ty := S!"footnote", id := S!"1", body := [.paragraph {} [c10_gT S!"fn", .commentRef S!"2"]] }],
    comments := [{ id := S!"1", body := [.paragraph {} [c10_gT S!"c1"]], authorInitials := some S!"AB" },
                 { id := S!"2", body := [.paragraph {} [c10_gT S!"c2"]], authorInitials := some S!"CD" }] }

example : c10_cleanCfg c10_gCfgC = true ∧ (∃ r, convertDoc c10_gCfgC c10_gDocC = .ok r) ∧
    c10_refsClosed (c10_docCfg c10_gCfgC c10_gDocC) c10_gDocC = true ∧
    c10_uniqueHyp (c10_outEvents c10_gCfgC c10_gDocC) = true ∧
    c10_uniqueHypSimple (c10_outEvents c10_gCfgC c10_gDocC) = true ∧
    c10_noClash (c10_outEvents c10_gCfgC c10_gDocC) = true :=
  ⟨by decide, ⟨_, rfl⟩, by decide, by decide, by decide, by decide⟩

example : ∃ r, convertDoc c10_gCfgC c10_gDocC = .ok r ∧
    idsOf r.nodes = [S!"doc-comment-ref-1", S!"doc-footnote-ref-1", S!"doc-footnote-1", S!"doc-comment-ref-2",
                     S!"doc-comment-1", S!"doc-comment-2"] ∧
    hrefsOf r.nodes = [S!"#doc-comment-1", S!"#doc-footnote-1", S!"#doc-comment-2", S!"#doc-footnote-ref-1",
                       S!"#doc-comment-ref-1", S!"#doc-comment-ref-2"] ∧
    (anchorsOf r.nodes).map (·.2.2) = [S!"[AB1]", S!"[1]", S!"[CD2]"] :=
  ⟨_, rfl, by decide, by decide, by decide⟩

private def c10_gTagX : Tag := { name := S!"p", attrs := [(S!"id", S!"x")] }
private def c10_gStyleX : Style := { matcher := Matcher.paragraph none none none, path := .elements [c10_gTagX] }
private def c10_gCfgDirty : Cfg := { idPrefix := S!"doc-", styleMap := [c10_gStyleX] }
/-- NECESSITY of `c10_cleanCfg` for (2): a style map `p => p[id='x']` writes an id without the prefix. -/
example : c10_cleanCfg c10_gCfgDirty = false ∧ ∃ r, convertDoc c10_gCfgDirty c10_gDoc = .ok r ∧
    S!"x" ∈ idsOf r.nodes ∧ ¬ S!"doc-" <+: S!"x" :=
  ⟨by decide, _, rfl, by decide, by decide⟩

/-- NECESSITY of `c10_refsClosed` for (3), notes: footnote 2 is referenced only from the body of footnote 1.
    The conversion succeeds, the marker `[2]` links to `#doc-footnote-2`, but footnote 2 is not rendered:
    the href dangles.  (Same output from the Python code; documented, outside the grammar.) -/
private def c10_gDocA : Document :=
  { children := [.paragraph {} [c10_gT S!"x", .noteRef S!"footnote" S!"1"]],
    notes := [{ ty := S!"footnote", id := S!"1", body := [.paragraph {} [c10_gT S!"fn1", .noteRef S!"footnote" S!"2"]] },
              { ty := S!"footnote", id := S!"2", body := [.paragraph {} [c10_gT S!"fn2"]] }] }
example : c10_refsClosed (c10_docCfg c10_gCfg c10_gDocA) c10_gDocA = false ∧
    ∃ r, convertDoc c10_gCfg c10_gDocA = .ok r ∧
      S!"#doc-footnote-2" ∈ hrefsOf r.nodes ∧ S!"doc-footnote-2" ∉ idsOf r.nodes :=
  ⟨by decide, _, rfl, by decide, by decide⟩

/-- NECESSITY of `c10_refsClosed` for (3), comments: comment 2 is referenced only from the body of comment 1
    (the list of comments to render is fixed before the comment bodies are visited). -/
private def c10_gDocB : Document :=
  { children := [.paragraph {} [c10_gT S!"x", .commentRef S!"1"]],
    comments := [{ id := S!"1", body := [.paragraph {} [c10_gT S!"c1", .commentRef S!"2"]], authorInitials := some S!"AB" },
                 { id := S!"2", body := [.paragraph {} [c10_gT S!"c2"]], authorInitials := some S!"CD" }] }
example : c10_refsClosed (c10_docCfg c10_gCfgC c10_gDocB) c10_gDocB = false ∧
    ∃ r, convertDoc c10_gCfgC c10_gDocB = .ok r ∧
      S!"#doc-comment-2" ∈ hrefsOf r.nodes ∧ S!"doc-comment-2" ∉ idsOf r.nodes :=
  ⟨by decide, _, rfl, by decide, by decide⟩

/-- NECESSITY of the parts of `c10_uniqueHyp` for (4).  (i) a note referenced twice: its reference id and its
    `li` both appear twice. -/
private def c10_gDocE : Document :=
  { children := [.paragraph {} [c10_gT S!"x", .noteRef S!"footnote" S!"1", .noteRef S!"footnote" S!"1"]],
    notes := [{ ty := S!"footnote", id := S!"1", body := [.paragraph {} [c10_gT S!"fn1"]] }] }
example : c10_uniqueHyp (c10_outEvents c10_gCfg c10_gDocE) = false ∧
    ∃ r, convertDoc c10_gCfg c10_gDocE = .ok r ∧ ¬ (idsOf r.nodes).Nodup :=
  ⟨by decide, _, rfl, by decide⟩

/-- (ii) an id starting with `ref-`: the referent id of footnote `ref-1` IS the reference id of footnote `1`
    (`doc-footnote-ref-1`): the precise collision between the two id builders. -/
private def c10_gDocCol : Document :=
  { children := [.paragraph {} [c10_gT S!"x", .noteRef S!"footnote" S!"1", .noteRef S!"footnote" S!"ref-1"]],
    notes := [{ ty := S!"footnote", id := S!"1", body := [.paragraph {} [c10_gT S!"fn1"]] },
              { ty := S!"footnote", id := S!"ref-1", body := [.paragraph {} [c10_gT S!"fn2"]] }] }
example : c10_uniqueHyp (c10_outEvents c10_gCfg c10_gDocCol) = false ∧
    decide ((c10_evKeys (c10_outEvents c10_gCfg c10_gDocCol)).Nodup) = true ∧
    ∃ r, convertDoc c10_gCfg c10_gDocCol = .ok r ∧ ¬ (idsOf r.nodes).Nodup ∧
      (idsOf r.nodes).count S!"doc-footnote-ref-1" = 2 :=
  ⟨by decide, by decide, _, rfl, by decide, by decide⟩

/-- (iii) a bookmark named like a generated id -/
private def c10_gDocD : Document :=
  { children := [.paragraph {} [.bookmark (some S!"footnote-1"), c10_gT S!"x", .noteRef S!"footnote" S!"1"]],
    notes := [{ ty := S!"footnote", id := S!"1", body := [.paragraph {} [c10_gT S!"fn1"]] }] }
example : c10_uniqueHyp (c10_outEvents c10_gCfg c10_gDocD) = false ∧
    ∃ r, convertDoc c10_gCfg c10_gDocD = .ok r ∧ ¬ (idsOf r.nodes).Nodup :=
  ⟨by decide, _, rfl, by decide⟩

/-- (5): `collapse` really can merge two elements with the same id (two bookmarks of the same name next to
    each other): the id then appears once instead of twice — same set, fewer repetitions. -/
example : idsOf [cel S!"a" [(S!"id", S!"b")] [.forceWrite], cel S!"a" [(S!"id", S!"b")] [.forceWrite]] = [S!"b", S!"b"] ∧
    idsOf (collapse (stripEmpty [cel S!"a" [(S!"id", S!"b")] [.forceWrite], cel S!"a" [(S!"id", S!"b")] [.forceWrite]]))
      = [S!"b"] := by decide

/-! ### the regexes of `parse_instr_text`, as body_xml.py has them today

  `Generated.instrRegexes` holds the SOURCE TEXT of the regexes that `parse_instr_text`
  (mammoth/docx/body_xml.py) passes to `re.match`, in the order of the calls; the extractor rewrites
  the table from the source on every run.  The theorems `C10_generated_*` are closed computations on
  that table with the regex parser of MammothModel/RegexParse.lean: editing a regex in body_xml.py
  changes the table and they stop checking.  The remaining theorems say what these three regexes do
  on EVERY instruction string under the prioritised-backtracking semantics of MammothModel/Regex.lean
  (`re.match`: anchored at the start, not at the end) — decision, group 1, cost — and that this is
  what the hand-written recognisers of the model (`matchExternalLink`, `matchInternalLink`,
  `matchCheckbox`, `parseInstrText`), which all the other theorems of C10 are about, compute. -/

/-- `parse_instr_text` tries exactly three regexes, in this order: external link
    `\s*HYPERLINK\s+"([^"]*)"`, internal link `\s*HYPERLINK\s+\\l\s+"([^"]*)"`, check box
    `\s*FORMCHECKBOX\s*`; each parses to the hand-written value the theorems below are about. -/
theorem C10_generated_instr_regexes :
    Generated.instrRegexes.map c07_parseRegex =
      [some c10_rxExternal, some c10_rxInternal, some c10_rxCheckbox] := by decide

/-- there are exactly three -/
theorem C10_generated_instr_regex_count : Generated.instrRegexes.length = 3 := by decide

/-- ... and all of them are applied with `re.match` (anchored at the start of the instruction text only, which is the
    semantics `exec`/`group1` formalise): the set of names of the matching calls inside `parse_instr_text`, extracted from the
    source on this run.  A change to `search` or `fullmatch` recognises other instructions without touching a pattern. -/
theorem C10_generated_instr_regex_modes :
    Generated.instrRegexModes = [S!"match"] := by decide

/-- the first regex of the source is the external-link regex `c10_rxExternal` (with the regex before
    the repair of F6, `\s*HYPERLINK "(.*)"`, this is false: see `C10_old_external_regex`) -/
theorem C10_generated_external_regex :
    Generated.instrRegexes[0]?.bind c07_parseRegex = some c10_rxExternal := by decide

/-- the second regex of the source is the internal-link regex `c10_rxInternal` -/
theorem C10_generated_internal_regex :
    Generated.instrRegexes[1]?.bind c07_parseRegex = some c10_rxInternal := by decide

/-- the third regex of the source is the check-box regex `c10_rxCheckbox` -/
theorem C10_generated_checkbox_regex :
    Generated.instrRegexes[2]?.bind c07_parseRegex = some c10_rxCheckbox := by decide

/-- the list the regex-driven `parse_instr_text` (`c10_instrKindRx`) runs -/
theorem C10_generated_instr_rules :
    c10_instrRules = some [c10_rxExternal, c10_rxInternal, c10_rxCheckbox] := by decide

/-- WHERE the parentheses are: the source of the external-link regex is `pre ( body ) post` with
    `pre`, `body`, `post` parsing to exactly the three parts of `c10_groupExternal` (group 1 is
    `[^"]*`, between the quotes), and the parts put together are `c10_rxExternal`. -/
theorem C10_generated_external_group :
    Generated.instrRegexes[0]?.map (fun src => c10_sourceIsGrouped src c10_groupExternal) = some true ∧
    c10_groupExternal.regex = c10_rxExternal := ⟨by decide, c10_groupExternal_regex⟩

/-- likewise for the internal-link regex and `c10_groupInternal` -/
theorem C10_generated_internal_group :
    Generated.instrRegexes[1]?.map (fun src => c10_sourceIsGrouped src c10_groupInternal) = some true ∧
    c10_groupInternal.regex = c10_rxInternal := ⟨by decide, c10_groupInternal_regex⟩

/-- the text of the external-link regex BEFORE the repair of F6 parses to a different value (a
    greedy `.*` between the quotes, a single space after the keyword) -/
theorem C10_old_external_regex :
    (c07_parseRegex S!"\\s*HYPERLINK \"(.*)\"").isSome = true ∧
    c07_parseRegex S!"\\s*HYPERLINK \"(.*)\"" ≠ some c10_rxExternal := by decide

/-! #### group 1 in the cost model -/

/-- GROUP 1 IS WELL DEFINED, for every regex `pre ( body ) post` (deterministic or not) and every
    input: the matcher never looks at what a continuation returns, so the runs that report what was
    left at `(`, at `)` and at the end of the match all follow the same path to the same first match:
    their cost is the same, and either all of them fail or there are `s1`, `s2`, `s3`, each a suffix
    of the one before and of the input, that every report is a function of. -/
theorem C10_group1_one_first_match (g : C10Grouped) (s : Str) :
    (∀ out out', (g.runWith s out).1 = (g.runWith s out').1) ∧
    ((∀ out, (g.runWith s out).2 = none) ∨
      ∃ s1 s2 s3 : Str, s1 <:+ s ∧ s2 <:+ s1 ∧ s3 <:+ s2 ∧
        ∀ out, (g.runWith s out).2 = some (out s1 s2 s3)) :=
  c10_runWith_uniform g s

/-- `exec` of the regex without the parentheses is the run that reports the end of the match, and
    group 1 lies inside the match: either there is no match and no group, or the input is
    `p ++ u ++ q ++ rest`, the match is `p ++ u ++ q` and group 1 is `u`. -/
theorem C10_group1_within_match (g : C10Grouped) (s : Str) :
    g.regex.exec s = (g.runWith s fun _ _ s3 => s3) ∧
    ((g.regex.matchLen s = none ∧ g.group1 s = none) ∨
     ∃ p u q rest : Str, s = p ++ (u ++ (q ++ rest)) ∧ (g.regex.exec s).2 = some rest ∧
       g.regex.matchLen s = some (p.length + u.length + q.length) ∧ g.group1 s = some u) :=
  ⟨c10_grouped_exec g s, c10_group1_spec g s⟩

/-! #### agreement with the hand-written recognisers, for every instruction string -/

/-- EXTERNAL LINK, every string `s`: the model's `matchExternalLink s` returns `some u` exactly when
    the regex `\s*HYPERLINK\s+"([^"]*)"` of the source matches at the start of `s` and `u` is its
    group 1; it returns `none` exactly when the regex does not match. -/
theorem C10_regex_external_agrees (s : Str) :
    (∀ u, matchExternalLink s = some u ↔
      ((c10_rxExternal.matchLen s).isSome = true ∧ c10_groupExternal.group1 s = some u)) ∧
    (matchExternalLink s = none ↔ c10_rxExternal.matchLen s = none) ∧
    matchExternalLink s = c10_groupExternal.group1 s := by
  have hm := c10_external_matches s
  have hg := c10_external_group1 s
  have e : (c10_rxExternal.matchLen s).isSome = (matchExternalLink s).isSome := by
    rw [← hm]; unfold C07Regex.matchLen; simp
  refine ⟨fun u => ?_, ?_, hg.symm⟩
  · rw [e, hg]
    constructor
    · intro h; exact ⟨by rw [h]; rfl, h⟩
    · exact fun h => h.2
  · cases h : matchExternalLink s <;> cases h' : c10_rxExternal.matchLen s <;> simp_all

/-- INTERNAL LINK, every string `s`: `matchInternalLink s = some u` exactly when the regex
    `\s*HYPERLINK\s+\\l\s+"([^"]*)"` of the source matches at the start of `s` and `u` is its group 1;
    `none` exactly when it does not match. -/
theorem C10_regex_internal_agrees (s : Str) :
    (∀ u, matchInternalLink s = some u ↔
      ((c10_rxInternal.matchLen s).isSome = true ∧ c10_groupInternal.group1 s = some u)) ∧
    (matchInternalLink s = none ↔ c10_rxInternal.matchLen s = none) ∧
    matchInternalLink s = c10_groupInternal.group1 s := by
  have hm := c10_internal_matches s
  have hg := c10_internal_group1 s
  have e : (c10_rxInternal.matchLen s).isSome = (matchInternalLink s).isSome := by
    rw [← hm]; unfold C07Regex.matchLen; simp
  refine ⟨fun u => ?_, ?_, hg.symm⟩
  · rw [e, hg]
    constructor
    · intro h; exact ⟨by rw [h]; rfl, h⟩
    · exact fun h => h.2
  · cases h : matchInternalLink s <;> cases h' : c10_rxInternal.matchLen s <;> simp_all

/-- CHECK BOX, every string `s`: `matchCheckbox s` is true exactly when the regex
    `\s*FORMCHECKBOX\s*` of the source matches at the start of `s`. -/
theorem C10_regex_checkbox_agrees (s : Str) :
    matchCheckbox s = (c10_rxCheckbox.matchLen s).isSome := by
  rw [← c10_checkbox_matches s]; unfold C07Regex.matchLen; simp

/-- THE WHOLE DECISION, every instruction string and every `fldChar` content: the hand-written
    `parseInstrText` of the model is "the first of the three regexes of the source that matches":
    the regexes extracted from body_xml.py today parse (`c10_instrRules`), and running them in order
    (`c10_instrKindRx`: index of the first that matches at the start; the link branches take group 1
    of their regex) gives a link to group 1 (`href` for the first regex, `anchor` for the second), the
    check-box reading for the third, and no field when none matches. -/
theorem C10_parseInstr_is_first_matching_regex (instr : Str) (cs : List XmlNode) :
    ∃ rules, c10_instrRules = some rules ∧
      parseInstrText instr cs =
        match c10_instrKindRx rules instr with
        | .external href => .hyperlink { href := href }
        | .internal anchor => .hyperlink { anchor := anchor }
        | .checkbox => parseInstrText S!"FORMCHECKBOX" cs
        | .other => .unknown := by
  refine ⟨_, C10_generated_instr_rules, ?_⟩
  rw [c10_instrKind_eq]
  exact c10_parseInstrText_kind instr cs

/-- the third branch spelled out: what `parseInstrText S!"FORMCHECKBOX" cs` (the reading of the
    check-box state from the `fldChar` content) is. -/
theorem C10_checkbox_reading (cs : List XmlNode) :
    parseInstrText S!"FORMCHECKBOX" cs =
      (let cb := (findChildOrNull S!"w:checkBox" (findChildOrNull S!"w:ffData" cs).2).2
       match findChild S!"w:checked" cb with
       | none => .checkbox (readBoolElem S!"w:default" cb)
       | some (as, _) => .checkbox (readBoolAttr (attr? S!"w:val" as))) := by
  have h1 : matchExternalLink S!"FORMCHECKBOX" = none := by decide
  have h2 : matchInternalLink S!"FORMCHECKBOX" = none := by decide
  have h3 : matchCheckbox S!"FORMCHECKBOX" = true := by decide
  simp only [parseInstrText, h1, h2, h3, if_true]
  rfl

/-- the decision, at the level of the three recognisers: first matching regex of
    `[c10_rxExternal, c10_rxInternal, c10_rxCheckbox]` = external, else internal, else check box -/
theorem C10_instrKind_is_first_matching_regex (s : Str) :
    c10_instrKindRx [c10_rxExternal, c10_rxInternal, c10_rxCheckbox] s = c10_instrKind s :=
  c10_instrKind_eq s

/-! #### which strings, said without a matcher -/

/-- EXTERNAL LINK, both directions, every `s`, `u`, `n`: the regex of the source matches `s` with
    group 1 = `u` and a match of length `n` exactly when `s` is
    `ws* HYPERLINK ws+ " u " rest` with `u` free of `"` (`rest` arbitrary: further switches), and then
    `n` = everything up to and including the closing quote.  The converse of
    `C10_external_link_parse`, and the statement that nothing after the closing quote is matched. -/
theorem C10_regex_external_shape (s u : Str) (n : Nat) :
    (c10_groupExternal.group1 s = some u ∧ c10_rxExternal.matchLen s = some n) ↔
    ∃ w1 w2 rest, c10_allWs w1 = true ∧ c10_allWs w2 = true ∧ w2 ≠ [] ∧ '"' ∉ u ∧
      s = w1 ++ S!"HYPERLINK" ++ w2 ++ ['"'] ++ u ++ ['"'] ++ rest ∧
      n = w1.length + 9 + w2.length + u.length + 2 :=
  c10_external_shape s u n

/-- INTERNAL LINK likewise: `ws* HYPERLINK ws+ \l ws+ " u " rest`. -/
theorem C10_regex_internal_shape (s u : Str) (n : Nat) :
    (c10_groupInternal.group1 s = some u ∧ c10_rxInternal.matchLen s = some n) ↔
    ∃ w1 w2 w3 rest, c10_allWs w1 = true ∧ c10_allWs w2 = true ∧ w2 ≠ [] ∧ c10_allWs w3 = true ∧
      w3 ≠ [] ∧ '"' ∉ u ∧
      s = w1 ++ S!"HYPERLINK" ++ w2 ++ S!"\\l" ++ w3 ++ ['"'] ++ u ++ ['"'] ++ rest ∧
      n = w1.length + 9 + w2.length + 2 + w3.length + u.length + 2 :=
  c10_internal_shape s u n

/-! #### cost -/

/-- LINEAR COST, every input: in the step-counting model of the backtracking matcher (one step per
    character test, per alternation and per loop iteration, abandoned branches included) each of the
    three regexes takes at most 3 steps a character plus a constant (28, 34, 28); in particular at
    most `34 * (length + 1)`.  Every loop (`\s*`, `\s+`, `[^"]*`) is followed by a literal character
    outside its class, so giving characters back never helps: no catastrophic backtracking on field
    instructions, which come from untrusted documents. -/
theorem C10_instr_regex_linear (s : Str) :
    (c10_rxExternal.steps s ≤ 3 * s.length + 28 ∧ c10_rxInternal.steps s ≤ 3 * s.length + 34 ∧
      c10_rxCheckbox.steps s ≤ 3 * s.length + 28) ∧
    (c10_rxExternal.steps s ≤ 34 * (s.length + 1) ∧ c10_rxInternal.steps s ≤ 34 * (s.length + 1) ∧
      c10_rxCheckbox.steps s ≤ 34 * (s.length + 1)) := by
  have h1 := c10_external_steps s
  have h2 := c10_internal_steps s
  have h3 := c10_checkbox_steps s
  refine ⟨⟨h1, h2, h3⟩, ?_, ?_, ?_⟩ <;> omega

/-- hence all the attempts of one call of `parse_instr_text` together: at most `9 * length + 90` -/
theorem C10_parse_instr_text_cost (s : Str) :
    c10_rxExternal.steps s + c10_rxInternal.steps s + c10_rxCheckbox.steps s ≤ 9 * s.length + 90 := by
  have h1 := c10_external_steps s
  have h2 := c10_internal_steps s
  have h3 := c10_checkbox_steps s
  omega

/-! #### examples (non-vacuity) -/

/-- an external link with switches after the URL: matched up to the closing quote of the URL (33
    characters of 43), group 1 is the URL, 60 steps -/
example : c10_rxExternal.exec S!" HYPERLINK \"http://example.com/a\" \\o \"tip\" " =
    (60, some S!" \\o \"tip\" ") := by decide
example : c10_rxExternal.matchLen S!" HYPERLINK \"http://example.com/a\" \\o \"tip\" " = some 33 := by decide
example : c10_groupExternal.group1 S!" HYPERLINK \"http://example.com/a\" \\o \"tip\" " =
    some S!"http://example.com/a" := by decide
example : c10_instrKindRx [c10_rxExternal, c10_rxInternal, c10_rxCheckbox]
    S!" HYPERLINK \"http://example.com/a\" \\o \"tip\" " = .external (some S!"http://example.com/a") := by
  decide
/-- an internal link: the first regex fails (after `HYPERLINK\s+` comes `\`), the second matches -/
example : (c10_rxExternal.exec S!" HYPERLINK \\l \"_Toc1\" \\h").2 = none ∧
    c10_groupInternal.group1 S!" HYPERLINK \\l \"_Toc1\" \\h" = some S!"_Toc1" ∧
    c10_rxInternal.matchLen S!" HYPERLINK \\l \"_Toc1\" \\h" = some 21 := by decide
example : c10_instrKindRx [c10_rxExternal, c10_rxInternal, c10_rxCheckbox]
    S!" HYPERLINK \\l \"_Toc1\" \\h" = .internal (some S!"_Toc1") := by decide
/-- a check box (anything may follow: `re.match` is not anchored at the end) -/
example : c10_instrKindRx [c10_rxExternal, c10_rxInternal, c10_rxCheckbox] S!" FORMCHECKBOX " = .checkbox ∧
    c10_instrKindRx [c10_rxExternal, c10_rxInternal, c10_rxCheckbox] S!"FORMCHECKBOXES" = .checkbox := by
  decide
/-- instructions that match none of the three: another field, a URL without a closing quote, a
    keyword in lower case, no space before the quote -/
example : c10_instrKindRx [c10_rxExternal, c10_rxInternal, c10_rxCheckbox] S!" PAGEREF _Toc1 \\h " = .other ∧
    c10_instrKindRx [c10_rxExternal, c10_rxInternal, c10_rxCheckbox] S!"HYPERLINK \"http://x" = .other ∧
    c10_instrKindRx [c10_rxExternal, c10_rxInternal, c10_rxCheckbox] S!"hyperlink \"http://x\"" = .other ∧
    c10_instrKindRx [c10_rxExternal, c10_rxInternal, c10_rxCheckbox] S!"HYPERLINK\"http://x\"" = .other := by
  decide
/-- white space is Python's `\s` (`str.isspace`), e.g. a line feed, a tab, a no-break space; and
    `[^"]` matches a line feed -/
example : c10_groupExternal.group1 S!" HYPERLINK\n\t\"a b\"" = some S!"a b" := by decide
example : c10_groupExternal.group1 S!" HYPERLINK\u00a0\"a\nb\"" = some S!"a\nb" ∧
    c10_rxExternal.matchLen S!" HYPERLINK\u00a0\"a\nb\"" = some 16 := by decide
/-- a failing attempt that scans to the end (no closing quote): still 3 steps a character -/
example : c10_rxExternal.exec S!"HYPERLINK \"aaaaaaaaaaaaaaaaaaaa" = (78, none) := by decide
/-- the hypotheses of the shape theorems are satisfiable, and the general group is not tied to
    deterministic regexes: with the regex BEFORE the repair of F6, `\s*HYPERLINK "(.*)"`, the greedy
    `.*` runs to the end and backtracks to the LAST quote, so group 1 swallows the switches -/
example : (⟨[.star (.chr c07_ccSpace), c10_word S!"HYPERLINK " (.chr (.lit '"'))], .star (.chr .any),
      [.chr (.lit '"')]⟩ : C10Grouped).group1 S!" HYPERLINK \"http://example.com/a\" \\o \"tip\" " =
    some S!"http://example.com/a\" \\o \"tip" := by decide

end Mammoth
