/-
  C10 — links, bookmarks, notes and comments stay connected.
-/
import Proofs.C10_Instr
import Proofs.C10_Fields
import Proofs.C10_Convert
namespace Mammoth

/-! ### `replace_fragment` -/

/-- `replace_fragment(uri, f)` is the part of `uri` before its first `#`, then `#`, then `f`:
    an existing fragment (everything from the first `#`) is replaced, a URI without one gets `#f` appended. -/
theorem C10_replaceFragment (f : Str) :
    (∀ uri : Str, replaceFragment uri f = uri.takeWhile (· != '#') ++ S!"#" ++ f) ∧
    (∀ pre old : Str, '#' ∉ pre → replaceFragment (pre ++ '#' :: old) f = pre ++ '#' :: f) ∧
    (∀ uri : Str, '#' ∉ uri → replaceFragment uri f = uri ++ '#' :: f) :=
  ⟨fun _ => rfl, fun pre old h => c10_replaceFragment_hash pre old f h,
   fun uri h => c10_replaceFragment_nohash uri f h⟩

/-! ### instruction text -/

/-- `\s*HYPERLINK\s+"url"…`: for any leading white space `w1`, any non-empty white space `w2`, any `url`
    without a `"` and ANY trailing text `rest` (further switches such as ` \o "tip"`), the external-link
    matcher returns exactly `url` — nothing after the closing quote leaks into it. -/
theorem C10_external_link_parse (w1 w2 url rest : Str) (h1 : c10_allWs w1 = true) (h2 : c10_allWs w2 = true)
    (hne : w2 ≠ []) (hq : '"' ∉ url) :
    matchExternalLink (w1 ++ S!"HYPERLINK" ++ w2 ++ ['"'] ++ url ++ ['"'] ++ rest) = some url :=
  c10_external w1 w2 url rest h1 h2 hne hq

/-- `\s*HYPERLINK\s+\l\s+"name"…` likewise yields exactly the bookmark `name`. -/
theorem C10_internal_link_parse (w1 w2 w3 name rest : Str) (h1 : c10_allWs w1 = true)
    (h2 : c10_allWs w2 = true) (hne2 : w2 ≠ []) (h3 : c10_allWs w3 = true) (hne3 : w3 ≠ [])
    (hq : '"' ∉ name) :
    matchInternalLink (w1 ++ S!"HYPERLINK" ++ w2 ++ S!"\\l" ++ w3 ++ ['"'] ++ name ++ ['"'] ++ rest)
      = some name :=
  c10_internal w1 w2 w3 name rest h1 h2 hne2 h3 hne3 hq

/-- An instruction whose first switch is `\l` is never read as an external link, whatever follows. -/
theorem C10_external_not_internal (w1 w2 rest : Str) (h1 : c10_allWs w1 = true) (h2 : c10_allWs w2 = true)
    (hne : w2 ≠ []) : matchExternalLink (w1 ++ S!"HYPERLINK" ++ w2 ++ S!"\\l" ++ rest) = none :=
  c10_external_none w1 w2 rest h1 h2 hne

/-- The parsed field: an external instruction gives a hyperlink field with `href = url` (no anchor),
    an internal one a hyperlink field with `anchor = name` (no href); the `fldChar` children play no role. -/
theorem C10_parseInstr_hyperlink (w1 w2 w3 s rest : Str) (cs : List XmlNode) (h1 : c10_allWs w1 = true)
    (h2 : c10_allWs w2 = true) (hne2 : w2 ≠ []) (h3 : c10_allWs w3 = true) (hne3 : w3 ≠ [])
    (hq : '"' ∉ s) :
    parseInstrText (w1 ++ S!"HYPERLINK" ++ w2 ++ ['"'] ++ s ++ ['"'] ++ rest) cs
      = .hyperlink { href := some s } ∧
    parseInstrText (w1 ++ S!"HYPERLINK" ++ w2 ++ S!"\\l" ++ w3 ++ ['"'] ++ s ++ ['"'] ++ rest) cs
      = .hyperlink { anchor := some s } := by
  constructor
  · simp only [parseInstrText, c10_external w1 w2 s rest h1 h2 hne2 hq]
  · have e : w1 ++ S!"HYPERLINK" ++ w2 ++ S!"\\l" ++ w3 ++ ['"'] ++ s ++ ['"'] ++ rest =
        w1 ++ S!"HYPERLINK" ++ w2 ++ S!"\\l" ++ (w3 ++ ['"'] ++ s ++ ['"'] ++ rest) := by simp
    have hx := c10_external_none w1 w2 (w3 ++ ['"'] ++ s ++ ['"'] ++ rest) h1 h2 hne2
    rw [← e] at hx
    simp only [parseInstrText, hx, c10_internal w1 w2 w3 s rest h1 h2 hne2 h3 hne3 hq]

/-! ### the complex-field state machine -/

/-- `begin` pushes a fresh `begin` field (remembering the `fldChar`'s children, for check boxes) and
    clears the instruction text; it emits nothing. -/
theorem C10_begin_pushes (st : RState) (as : Attrs) (cs : List XmlNode)
    (h : attr? S!"w:fldCharType" as = some S!"begin") :
    readFldChar st as cs = .ok ({}, { st with stack := .begin cs :: st.stack, instr := [] }) :=
  c10_fld_begin st as cs (c10_kind_begin as h)

/-- `separate` replaces the top of the stack by the field parsed from the instruction text collected so
    far (for a `begin` on top: `parseInstrText st.instr` with that `begin`'s children); the depth and the
    rest of the stack are unchanged, nothing is emitted. -/
theorem C10_separate_replaces_top (st : RState) (as : Attrs) (cs : List XmlNode) (top : Field)
    (rest : List Field) (h : attr? S!"w:fldCharType" as = some S!"separate") (hs : st.stack = top :: rest) :
    readFldChar st as cs = .ok ({}, { st with stack := parseCurrentInstr st top :: rest }) ∧
    (∀ cs0, top = .begin cs0 → parseCurrentInstr st top = parseInstrText st.instr cs0) := by
  constructor
  · rw [c10_fld_separate st as cs (c10_kind_separate as h), hs]
  · intro cs0 e; subst e; rfl

/-- `end` pops the top of the stack (a field that never saw its `separate` is parsed now) and emits a
    check box iff that field is a check-box field; nothing else changes. -/
theorem C10_end_pops (st : RState) (as : Attrs) (cs : List XmlNode) (top : Field) (rest : List Field)
    (h : attr? S!"w:fldCharType" as = some S!"end") (hs : st.stack = top :: rest) :
    readFldChar st as cs = .ok (c10_endResult (c10_endField st top), { st with stack := rest }) := by
  rw [c10_fld_end st as cs (c10_kind_end as h), hs]

/-- `end` or `separate` on an empty stack is the IndexError of `list.pop()`. -/
theorem C10_pop_empty (st : RState) (as : Attrs) (cs : List XmlNode) (hs : st.stack = [])
    (h : attr? S!"w:fldCharType" as = some S!"end" ∨ attr? S!"w:fldCharType" as = some S!"separate") :
    readFldChar st as cs = .error (.index S!"pop from empty list") := by
  rcases h with h | h
  · rw [c10_fld_end st as cs (c10_kind_end as h), hs]
  · rw [c10_fld_separate st as cs (c10_kind_separate as h), hs]

/-- The depth invariant.  `c10_run` feeds a sequence of `w:fldChar` / `w:instrText` events to the reader
    state; `c10_wellNested d evs` says that, starting at depth `d`, every `end` and every `separate`
    happens inside an open field.  Then no error arises, and the final depth is the initial depth plus
    the number of `begin`s minus the number of `end`s. -/
theorem C10_field_depth (evs : List c10_ev) (st : RState)
    (h : c10_wellNested st.stack.length evs = true) :
    ∃ st', c10_run st evs = .ok st' ∧
      st'.stack.length = st.stack.length + c10_begins evs - c10_ends evs ∧
      c10_ends evs ≤ st.stack.length + c10_begins evs := by
  obtain ⟨st', h1, h2⟩ := c10_run_ok evs st h
  exact ⟨st', h1, by omega, by omega⟩

/-- `c10_wellNested` is exactly the domain: otherwise the run ends in the IndexError (and in no other
    error). -/
theorem C10_field_underflow (evs : List c10_ev) (st : RState)
    (h : c10_wellNested st.stack.length evs = false) :
    c10_run st evs = .error (.index S!"pop from empty list") := c10_run_err evs st h

/-- in a well-nested sequence every prefix has at least as many `begin`s (plus the initial depth) as
    `end`s -/
theorem C10_wellNested_prefix : ∀ (evs : List c10_ev) (d n : Nat), c10_wellNested d evs = true →
    c10_ends (evs.take n) ≤ d + c10_begins (evs.take n)
  | [], _, _, _ => by simp [c10_ends]
  | _ :: _, _, 0, _ => by simp [c10_ends]
  | .instr t :: es, d, n+1, h => by
    simp only [c10_wellNested] at h
    have := C10_wellNested_prefix es d n h
    rw [List.take_succ_cons, (c10_counts_instr t _).1, (c10_counts_instr t _).2]; exact this
  | .fld as cs :: es, d, n+1, h => by
    simp only [c10_wellNested] at h
    rw [List.take_succ_cons, (c10_counts_fld as cs _).1, (c10_counts_fld as cs _).2]
    cases hk : c10_kind as with
    | begin => simp only [hk] at h; have := C10_wellNested_prefix es (d+1) n h; simp; omega
    | other => simp only [hk] at h; have := C10_wellNested_prefix es d n h; simp; omega
    | separate =>
      simp only [hk, Bool.and_eq_true, decide_eq_true_eq] at h
      have := C10_wellNested_prefix es d n h.2; simp; omega
    | end_ =>
      simp only [hk, Bool.and_eq_true, decide_eq_true_eq] at h
      have := C10_wellNested_prefix es (d-1) n h.2; simp; omega

/-- the two event kinds of `c10_run` are what the reader does on `w:fldChar` and `w:instrText` -/
theorem C10_events_are_reader_steps (env : REnv) (f : Nat) (st : RState) (as : Attrs) (cs : List XmlNode) :
    readElem env (f+1) st (.elem S!"w:fldChar" as cs) = readFldChar st as cs ∧
    readElem env (f+1) st (.elem S!"w:instrText" as cs) =
      .ok ({}, { st with instr := st.instr ++ innerTextL cs }) :=
  ⟨rfl, rfl⟩

/-- `current_hyperlink_kwargs` is the top-most (innermost) hyperlink field of the stack.  So a hyperlink
    field stays in force under any fields opened after it that are not hyperlinks themselves (still
    `begin`, check box, unknown), a later hyperlink field shadows it, and without any hyperlink field
    there is no link. -/
theorem C10_currentHyperlink_spec (stack : List Field) :
    currentHyperlink stack = stack.findSome? c10_linkOf ∧
    (∀ pre rest kw, stack = pre ++ .hyperlink kw :: rest → pre.all (fun f => !c10_isHyperlink f) = true →
        currentHyperlink stack = some kw) ∧
    (stack.all (fun f => !c10_isHyperlink f) = true → currentHyperlink stack = none) := by
  refine ⟨c10_currentHyperlink_eq stack, ?_, ?_⟩
  · intro pre rest kw e h; subst e
    rw [c10_currentHyperlink_skip pre _ h]; rfl
  · intro h
    have := c10_currentHyperlink_skip stack [] h
    simpa [currentHyperlink] using this

/-- …and the link stops at its own `end`: once the hyperlink field on top is popped, the link in force
    is whatever the rest of the stack says. -/
theorem C10_hyperlink_stops_at_end (st : RState) (as : Attrs) (cs : List XmlNode) (kw : LinkProps)
    (rest : List Field) (h : attr? S!"w:fldCharType" as = some S!"end")
    (hs : st.stack = .hyperlink kw :: rest) :
    ∃ st', readFldChar st as cs = .ok ({}, st') ∧ currentHyperlink st'.stack = currentHyperlink rest := by
  refine ⟨{ st with stack := rest }, ?_, rfl⟩
  rw [C10_end_pops st as cs _ rest h hs]; rfl

/-! ### the reader: runs inside a field, `w:hyperlink`, `w:bookmarkStart` -/

/-- A run read while a hyperlink field is in force (after reading its own children) has its children
    wrapped in one hyperlink with that field's properties; otherwise they are left as they are. -/
theorem C10_reader_run_wrapped (env : REnv) (f : Nat) (st st1 : RState) (as : Attrs) (cs : List XmlNode)
    (r : ReadResult) (hr : readAllWith (readElem env f) st cs = .ok (r, st1)) :
    ∃ rr props, readElem env (f+1) st (.elem S!"w:r" as cs) = .ok (rr, st1) ∧
      rr.elements = [.run props (match currentHyperlink st1.stack with
                                  | none => r.elements
                                  | some kw => [.hyperlink kw r.elements])] := by
  refine ⟨c10_runResult env cs r st1, _, ?_, rfl⟩
  rw [c10_reader_run, hr]; rfl

/-- `w:hyperlink`: with `r:id`, the href is the relationship target, its fragment replaced by `w:anchor`
    when that is given; without `r:id` but with `w:anchor` it is an internal link to that anchor; with
    neither, the children are passed through unwrapped.  (`c10_hyperlinkResult` is that decision list.) -/
theorem C10_reader_hyperlink (env : REnv) (f : Nat) (st st1 : RState) (as : Attrs) (cs : List XmlNode)
    (r : ReadResult) (hr : readAllWith (readElem env f) st cs = .ok (r, st1)) :
    readElem env (f+1) st (.elem S!"w:hyperlink" as cs) = (c10_hyperlinkResult env as r).map (·, st1) :=
  c10_reader_hyperlink env f st st1 as cs r hr

/-- the relationship case of `C10_reader_hyperlink`, spelled out -/
theorem C10_reader_hyperlink_rel (env : REnv) (as : Attrs) (r : ReadResult) (rid target : Str)
    (h1 : attr? S!"r:id" as = some rid) (h2 : env.rels.targetById rid = .ok target) :
    (∀ a, attr? S!"w:anchor" as = some a →
      c10_hyperlinkResult env as r = .ok { r with elements :=
        [.hyperlink { href := some (replaceFragment target a), targetFrame := c10_tgtFrame as } r.elements] }) ∧
    (attr? S!"w:anchor" as = none →
      c10_hyperlinkResult env as r = .ok { r with elements :=
        [.hyperlink { href := some target, targetFrame := c10_tgtFrame as } r.elements] }) := by
  constructor
  · intro a ha; simp only [c10_hyperlinkResult, h1, h2, ha]
  · intro ha; simp only [c10_hyperlinkResult, h1, h2, ha]

/-- `w:bookmarkStart` yields one bookmark carrying its `w:name` (except Word's own `_GoBack`). -/
theorem C10_reader_bookmark (env : REnv) (f : Nat) (st : RState) (as : Attrs) (cs : List XmlNode)
    (h : attr? S!"w:name" as ≠ some S!"_GoBack") :
    readElem env (f+1) st (.elem S!"w:bookmarkStart" as cs) =
      .ok (rrElems [.bookmark (attr? S!"w:name" as)], st) := by
  rw [c10_reader_bookmark]; simp [h]

/-! ### the converter -/

/-- A hyperlink becomes one collapsible `a` around its converted children whose `href` attribute is
    `"#" ++ id_prefix ++ anchor` when an anchor is given and the href otherwise, and which has a `target`
    attribute iff a target frame is given (with that value). -/
theorem C10_hyperlink_href (cfg : Cfg) (hdr : Bool) (h : LinkProps) (cs : List Elem) (st st' : ConvState)
    (ns : List Node) (hv : (visitAll cfg hdr cs).run st = .ok (ns, st')) :
    (visit cfg hdr (.hyperlink h cs)).run st = .ok ([cel S!"a" (c10_linkAttrs cfg h) ns], st') ∧
    Dict.get? S!"href" (Dict.ofList (c10_linkAttrs cfg h)) =
      some (match h.anchor with
            | some a => S!"#" ++ cfg.idPrefix ++ a
            | none => pyOpt h.href) ∧
    Dict.get? S!"target" (Dict.ofList (c10_linkAttrs cfg h)) = h.targetFrame := by
  refine ⟨c10_visit_hyperlink cfg hdr h cs st st' ns hv, ?_, (c10_linkAttrs_get cfg h).2⟩
  rw [(c10_linkAttrs_get cfg h).1, c10_linkHref]
  cases h.anchor <;> simp [htmlId]

/-- A bookmark becomes one `a` whose id is `id_prefix ++ name` (a missing name is formatted as `None`, as
    `"{0}{1}".format` does); its only child is the force-write marker, so `strip_empty` keeps it
    (`hasContent`).  Nothing else happens. -/
theorem C10_bookmark_id (cfg : Cfg) (hdr : Bool) (name : Option Str) (st : ConvState) :
    (visit cfg hdr (.bookmark name)).run st =
      .ok ([cel S!"a" [(S!"id", cfg.idPrefix ++ pyOpt name)] [.forceWrite]], st) ∧
    Dict.get? S!"id" (Dict.ofList [(S!"id", cfg.idPrefix ++ pyOpt name)]) = some (cfg.idPrefix ++ pyOpt name) ∧
    hasContent (cel S!"a" [(S!"id", cfg.idPrefix ++ pyOpt name)] [.forceWrite]) = true := by
  refine ⟨c10_visit_bookmark cfg hdr name st, ?_, ?_⟩
  · simp [c10_get_ofList, lookupLast]
  · simp [cel, hasContent, anyContent]

/-- Visiting a note reference in state `st` emits `<sup><a href="#referent" id="reference">[k]</a></sup>`
    with `k = (number of references visited before) + 1`, and appends `(type, id)` to the list of
    references — nothing else.  So the k-th reference visited is labelled `[k]` and is the k-th entry. -/
theorem C10_note_numbering (cfg : Cfg) (hdr : Bool) (ty id : Str) (st : ConvState) :
    (visit cfg hdr (.noteRef ty id)).run st =
      .ok ([el S!"sup" [] [el S!"a" [(S!"href", S!"#" ++ referentId cfg ty id), (S!"id", referenceId cfg ty id)]
              [.text (S!"[" ++ natToStr (st.noteRefs.length + 1) ++ S!"]")]]],
           { st with noteRefs := st.noteRefs ++ [(ty, id)] }) :=
  c10_visit_noteRef cfg hdr ty id st

/-- A note becomes one `li` whose id is the referent id and whose last child is the back-link paragraph
    ` ↑` pointing at `"#" ++` the reference id. -/
theorem C10_note_item (cfg : Cfg) (n : Note) (st st' : ConvState) (body : List Node)
    (hv : (visitAll cfg false n.body).run st = .ok (body, st')) :
    (visitNote cfg n).run st =
      .ok ([el S!"li" [(S!"id", referentId cfg n.ty n.id)]
              (body ++ [cel S!"p" [] [.text S!" ", el S!"a" [(S!"href", S!"#" ++ referenceId cfg n.ty n.id)]
                                        [.text upArrow]]])], st') :=
  c10_visitNote cfg n st st' body hv

/-- Reference and note point at each other: read back from the attribute dictionaries of
    `C10_note_numbering` and `C10_note_item`, the reference's href is `#` + the id of the note's `li`, and
    the back-link's href is `#` + the id of the reference's `a`. -/
theorem C10_note_roundtrip (cfg : Cfg) (ty id : Str) :
    let refAttrs := Dict.ofList [(S!"href", S!"#" ++ referentId cfg ty id), (S!"id", referenceId cfg ty id)]
    let liAttrs := Dict.ofList [(S!"id", referentId cfg ty id)]
    let backAttrs := Dict.ofList [(S!"href", S!"#" ++ referenceId cfg ty id)]
    Dict.get? S!"href" refAttrs = (Dict.get? S!"id" liAttrs).map (S!"#" ++ ·) ∧
    Dict.get? S!"href" backAttrs = (Dict.get? S!"id" refAttrs).map (S!"#" ++ ·) := by
  simp [c10_get_ofList, lookupLast]

/-- Comment references (when a `comment-reference` style is mapped to elements `es`): the k-th one
    visited is labelled `[` initials k `]`, links to the comment's referent id, carries the reference id,
    and records `(label, comment)` — the list later rendered by `visit_comment`. -/
theorem C10_comment_numbering (cfg : Cfg) (hdr : Bool) (id : Str) (es : List Tag) (c : Comment)
    (st : ConvState) (hp : findPath cfg .commentReference = some (.elements es))
    (hc : lookupLast id (cfg.comments.map fun c => (c.id, c)) = some c) :
    (visit cfg hdr (.commentRef id)).run st =
      .ok (wrapElems es [el S!"a" [(S!"href", S!"#" ++ referentId cfg S!"comment" id),
                                    (S!"id", referenceId cfg S!"comment" id)]
              [.text (S!"[" ++ commentAuthorLabel c ++ natToStr (st.refComments.length + 1) ++ S!"]")]],
           { st with refComments := st.refComments ++
              [(S!"[" ++ commentAuthorLabel c ++ natToStr (st.refComments.length + 1) ++ S!"]", c)] }) := by
  rw [visit]
  simp only [hp, hc, c10_run_bind, c10_run_get, c10_run_modify, c10_run_pure]

/-- A referenced comment becomes a `dt` whose id is the comment's referent id (what the reference links
    to, since the looked-up comment has the referenced id: `c10_lookup_key`) and a `dd` ending in the
    back-link to the reference id. -/
theorem C10_comment_item (cfg : Cfg) (lc : Str × Comment) (st st' : ConvState) (body : List Node)
    (hv : (visitAll cfg false lc.2.body).run st = .ok (body, st')) :
    (visitComment cfg lc).run st =
      .ok ([el S!"dt" [(S!"id", referentId cfg S!"comment" lc.2.id)] [.text (S!"Comment " ++ lc.1)],
            el S!"dd" [] (body ++ [backLink (S!"#" ++ referenceId cfg S!"comment" lc.2.id)])], st') := by
  unfold visitComment
  simp only [c10_run_bind, hv]
  rfl

/-- the comment found for a reference has the referenced id, so the `dt` id equals the reference's href
    target -/
theorem C10_comment_connected (cfg : Cfg) (id : Str) (c : Comment)
    (hc : lookupLast id (cfg.comments.map fun c => (c.id, c)) = some c) :
    S!"#" ++ referentId cfg S!"comment" c.id = S!"#" ++ referentId cfg S!"comment" id := by
  rw [c10_lookup_key (fun c : Comment => c.id) id cfg.comments c hc]

/-- every id the converter generates starts with `id_prefix` -/
theorem C10_ids_prefixed (cfg : Cfg) (s ty id : Str) :
    cfg.idPrefix <+: htmlId cfg s ∧ cfg.idPrefix <+: referentId cfg ty id ∧
    cfg.idPrefix <+: referenceId cfg ty id :=
  ⟨⟨s, rfl⟩, ⟨_, rfl⟩, ⟨_, rfl⟩⟩

/-- the referent and reference ids, spelled out: functions of `id_prefix`, the type and the id only -/
theorem C10_ids_functional (cfg : Cfg) (ty id : Str) :
    referentId cfg ty id = cfg.idPrefix ++ ty ++ S!"-" ++ id ∧
    referenceId cfg ty id = cfg.idPrefix ++ ty ++ S!"-ref-" ++ id := by
  simp [referentId, referenceId, htmlId]

/-- `visit_document`: body, then one `ol` with the notes, then one `dl` with the comments; the notes are
    the references collected while visiting the body, resolved IN THAT ORDER, and the `li` items come out
    in the same order with the ids the references link to: the k-th `li` has id
    `referentId` of the k-th entry of `noteRefs`, i.e. of the reference labelled `[k]`. -/
theorem C10_noteRefs_order (cfg : Cfg) (d : Document) (st st1 st2 st3 : ConvState)
    (nodes noteNodes commentNodes : List Node) (notes : List Note)
    (h1 : (visitAll cfg false d.children).run st = .ok (nodes, st1))
    (h2 : st1.noteRefs.mapM (resolveNote d.notes) = .ok notes)
    (h3 : (mapMConcat (visitNote cfg) notes).run st1 = .ok (noteNodes, st2))
    (h4 : (mapMConcat (visitComment cfg) st2.refComments).run st2 = .ok (commentNodes, st3)) :
    (visitDocument cfg d).run st =
      .ok (nodes ++ [el S!"ol" [] noteNodes, el S!"dl" [] commentNodes], st3) ∧
    notes.map (fun n => (n.ty, n.id)) = st1.noteRefs ∧
    noteNodes.map c10_nodeId = st1.noteRefs.map (fun r => some (referentId cfg r.1 r.2)) := by
  have e2 := c10_resolve_all d.notes _ _ h2
  refine ⟨c10_visitDocument cfg d st st1 st2 st3 nodes noteNodes commentNodes notes h1 h2 h3 h4, e2, ?_⟩
  rw [c10_noteItems_ids cfg notes st1 st2 noteNodes h3, ← e2, List.map_map]
  rfl

/-- hence the href of every note reference met in the body resolves: it is `#` + the id of one of the
    `li` items of the notes list -/
theorem C10_note_href_resolves (cfg : Cfg) (d : Document) (st st1 st2 st3 : ConvState)
    (nodes noteNodes commentNodes : List Node) (notes : List Note)
    (h1 : (visitAll cfg false d.children).run st = .ok (nodes, st1))
    (h2 : st1.noteRefs.mapM (resolveNote d.notes) = .ok notes)
    (h3 : (mapMConcat (visitNote cfg) notes).run st1 = .ok (noteNodes, st2))
    (h4 : (mapMConcat (visitComment cfg) st2.refComments).run st2 = .ok (commentNodes, st3))
    (ty id : Str) (hr : (ty, id) ∈ st1.noteRefs) :
    ∃ li ∈ noteNodes, c10_nodeId li = some (referentId cfg ty id) := by
  have h := (C10_noteRefs_order cfg d st st1 st2 st3 nodes noteNodes commentNodes notes h1 h2 h3 h4).2.2
  have hm : some (referentId cfg ty id) ∈ noteNodes.map c10_nodeId := by
    rw [h]; exact List.mem_map.mpr ⟨(ty, id), hr, rfl⟩
  obtain ⟨li, hli, e⟩ := List.mem_map.mp hm
  exact ⟨li, hli, e⟩

/-- a reference whose note is missing is the KeyError of `Notes.resolve` (nothing is output) -/
theorem C10_missing_note (cfg : Cfg) (d : Document) (st st1 : ConvState) (nodes : List Node) (e : Err)
    (h1 : (visitAll cfg false d.children).run st = .ok (nodes, st1))
    (h2 : st1.noteRefs.mapM (resolveNote d.notes) = .error e) :
    (visitDocument cfg d).run st = .error e := by
  unfold visitDocument
  simp only [c10_run_bind, h1, c10_run_get, h2, c10_run_throw]

/-! ### non-vacuity -/

example : matchExternalLink S!" HYPERLINK \"http://example.com/a\" \\o \"tip\" " = some S!"http://example.com/a" := by
  decide
example : matchInternalLink S!" HYPERLINK \\l \"_Toc1\" \\h" = some S!"_Toc1" := by decide
example : matchExternalLink S!" HYPERLINK \\l \"_Toc1\" \\h" = none := by decide
example : c10_allWs S!" \t" = true ∧ S!" " ≠ [] ∧ '"' ∉ S!"http://x" := by decide
example : replaceFragment S!"http://x/y#old" S!"new" = S!"http://x/y#new" := by decide
example : replaceFragment S!"http://x/y" S!"new" = S!"http://x/y#new" := by decide

private def c10_exBegin : c10_ev := .fld [(S!"w:fldCharType", S!"begin")] []
private def c10_exSep : c10_ev := .fld [(S!"w:fldCharType", S!"separate")] []
private def c10_exEnd : c10_ev := .fld [(S!"w:fldCharType", S!"end")] []
/-- a hyperlink field, and nested in its result a PAGE field: well nested -/
private def c10_exEvents : List c10_ev :=
  [c10_exBegin, .instr S!" HYPERLINK \"http://x\" ", c10_exSep, c10_exBegin, .instr S!" PAGE ", c10_exSep]
example : c10_wellNested 0 (c10_exEvents ++ [c10_exEnd, c10_exEnd]) = true := by decide
example : c10_wellNested 0 [c10_exBegin, c10_exEnd, c10_exEnd] = false := by decide
/-- inside the nested PAGE field the link is still in force … -/
example : (c10_run {} c10_exEvents).map (fun s => currentHyperlink s.stack)
    = .ok (some { href := some S!"http://x" }) := by rfl
/-- … after the inner `end` too, and after the outer `end` it is gone -/
example : (c10_run {} (c10_exEvents ++ [c10_exEnd])).map (fun s => currentHyperlink s.stack)
    = .ok (some { href := some S!"http://x" }) := by rfl
example : (c10_run {} (c10_exEvents ++ [c10_exEnd, c10_exEnd])).map (fun s => currentHyperlink s.stack)
    = .ok none := by rfl

private def c10_exCfg : Cfg := { idPrefix := S!"doc-" }
example : (visit c10_exCfg false (.noteRef S!"footnote" S!"4")).run { noteRefs := [(S!"endnote", S!"2")] } =
    .ok ([el S!"sup" [] [el S!"a" [(S!"href", S!"#doc-footnote-4"), (S!"id", S!"doc-footnote-ref-4")]
            [.text S!"[2]"]]],
         { noteRefs := [(S!"endnote", S!"2"), (S!"footnote", S!"4")] }) := by
  rw [C10_note_numbering]; rfl
example : Dict.get? S!"href" (Dict.ofList (c10_linkAttrs c10_exCfg { anchor := some S!"bm", targetFrame := some S!"_blank" }))
    = some S!"#doc-bm" := by decide

end Mammoth
