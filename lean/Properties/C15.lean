/-
  C15 — conversion is a pure, repeatable function of the file and the options.

  The model is a Lean function, so "same input, same output" holds by construction.  What is
  proved here are the places where the Python code could pick up nondeterminism and the model has
  to justify its canonical choice: attribute dictionaries (insertion order, `dict` equality in
  `_is_match`, `sorted(attributes.items())` in the writer), the module-level default style map,
  and the per-call converter state.
-/
import Proofs.C15_Dict
import MammothModel.Package
namespace Mammoth

/-! ### 1. `strLt` (Python `<` on `str`) is a strict total order -/

/-- no string is smaller than itself -/
theorem C15_strLt_irrefl (a : Str) : strLt a a = false := c15_strLt_irrefl a

/-- `a < b` and `b < c` give `a < c` -/
theorem C15_strLt_trans (a b c : Str) (h₁ : strLt a b = true) (h₂ : strLt b c = true) :
    strLt a c = true := c15_strLt_trans a b c h₁ h₂

/-- `a < b` excludes `b < a` -/
theorem C15_strLt_asymm (a b : Str) (h : strLt a b = true) : strLt b a = false :=
  c15_strLt_asymm a b h

/-- any two strings are equal or comparable: sorting by key has exactly one result -/
theorem C15_strLt_trichotomy (a b : Str) : a = b ∨ strLt a b = true ∨ strLt b a = true :=
  c15_strLt_trichotomy a b

/-! ### 2./3. the `Dict` invariant: keys strictly increasing -/

/-- the executable check `c15_sortedB` decides the invariant `c15_sorted` -/
theorem C15_sortedB_iff {β} (d : Dict β) : c15_sortedB d = true ↔ c15_sorted d := c15_sortedB_iff d

/-- `d[k] = v` keeps the keys strictly increasing -/
theorem C15_insert_sorted {β} (k : Str) (v : β) (d : Dict β) (h : c15_sorted d) :
    c15_sorted (Dict.insert k v d) := c15_insert_sorted k v d h

/-- a dictionary built from any list of pairs (duplicates allowed, any order) has strictly
    increasing keys -/
theorem C15_ofList_sorted {β} (l : List (Str × β)) : c15_sorted (Dict.ofList l) :=
  c15_ofList_sorted l

/-- the attributes of every tag built with `el` / `cel` satisfy the invariant -/
theorem C15_el_attrs_sorted (n : Str) (l : List (Str × Str)) :
    c15_sorted ({ name := n, attrs := Dict.ofList l : Tag }).attrs := c15_ofList_sorted l

/-! ### 4. order of writes to different keys is unobservable; a second write to a key overwrites -/

/-- reading key `q` after `d[k] = v` gives `v` if `q = k` and what `d` had otherwise (any `d`) -/
theorem C15_get_insert {β} (k : Str) (v : β) (q : Str) (d : Dict β) :
    Dict.get? q (Dict.insert k v d) = if q = k then some v else Dict.get? q d :=
  c15_get_insert k v q d

/-- writes to two different keys commute -/
theorem C15_insert_comm {β} (k₁ k₂ : Str) (v₁ v₂ : β) (d : Dict β) (hne : k₁ ≠ k₂)
    (hs : c15_sorted d) :
    Dict.insert k₁ v₁ (Dict.insert k₂ v₂ d) = Dict.insert k₂ v₂ (Dict.insert k₁ v₁ d) :=
  c15_insert_comm k₁ k₂ v₁ v₂ d hne hs

/-- writing a key twice leaves only the second value -/
theorem C15_insert_overwrite {β} (k : Str) (v v' : β) (d : Dict β) (hs : c15_sorted d) :
    Dict.insert k v (Dict.insert k v' d) = Dict.insert k v d :=
  c15_insert_overwrite k v v' d hs

/-- writing the same pair twice is the same as writing it once -/
theorem C15_insert_idem {β} (k : Str) (v : β) (d : Dict β) (hs : c15_sorted d) :
    Dict.insert k v (Dict.insert k v d) = Dict.insert k v d :=
  c15_insert_overwrite k v v d hs

/-! ### 5. `Dict.ofList` does not depend on the order of the pairs -/

/-- two sorted dictionaries are equal as lists exactly when every lookup agrees: the model's
    list equality *is* Python's `dict.__eq__` on dictionaries satisfying the invariant -/
theorem C15_sorted_ext {β} (d₁ d₂ : Dict β) (h₁ : c15_sorted d₁) (h₂ : c15_sorted d₂) :
    d₁ = d₂ ↔ ∀ k, Dict.get? k d₁ = Dict.get? k d₂ :=
  ⟨fun e _ => e ▸ rfl, c15_sorted_ext d₁ d₂ h₁ h₂⟩

/-- lookup in `Dict.ofList l` is the last pair of `l` with that key (Python `dict(pairs)[k]`) -/
theorem C15_ofList_get {β} (k : Str) (l : List (Str × β)) :
    Dict.get? k (Dict.ofList l) = lookupLast k l := c15_get_ofList k l

/-- permuting a list of pairs with pairwise distinct keys does not change the dictionary built
    from it -/
theorem C15_ofList_perm {β} (l₁ l₂ : List (Str × β)) (hp : l₁.Perm l₂)
    (hn : (l₁.map Prod.fst).Nodup) : Dict.ofList l₁ = Dict.ofList l₂ := c15_ofList_perm hp hn

/-- stronger form, duplicate keys allowed: the dictionary depends only on which value is the
    last one written for each key -/
theorem C15_ofList_lastwins {β} (l₁ l₂ : List (Str × β))
    (h : ∀ k, lookupLast k l₁ = lookupLast k l₂) : Dict.ofList l₁ = Dict.ofList l₂ :=
  c15_ofList_ext l₁ l₂ h

/-! ### 6. elements and their serialisation do not depend on attribute insertion order -/

/-- `html.element(name, attrs, children)` is the same node whatever the order of `attrs` -/
theorem C15_el_attr_order_invariant (name : Str) (l₁ l₂ : List (Str × Str)) (cs : List Node)
    (hp : l₁.Perm l₂) (hn : (l₁.map Prod.fst).Nodup) : el name l₁ cs = el name l₂ cs := by
  simp only [el, c15_ofList_perm hp hn]

/-- same for `html.collapsible_element` -/
theorem C15_cel_attr_order_invariant (name : Str) (l₁ l₂ : List (Str × Str)) (cs : List Node)
    (hp : l₁.Perm l₂) (hn : (l₁.map Prod.fst).Nodup) : cel name l₁ cs = cel name l₂ cs := by
  simp only [cel, c15_ofList_perm hp hn]

/-- the attribute string `_generate_attribute_string` writes is the same for both orders -/
theorem C15_attrString_order_invariant (l₁ l₂ : List (Str × Str))
    (hp : l₁.Perm l₂) (hn : (l₁.map Prod.fst).Nodup) :
    attrString (Dict.ofList l₁) = attrString (Dict.ofList l₂) := by
  rw [c15_ofList_perm hp hn]

/-- the written HTML of an element is the same whatever the order in which its attributes
    were supplied (plain and collapsible elements) -/
theorem C15_write_attr_order_invariant (name : Str) (l₁ l₂ : List (Str × Str)) (cs : List Node)
    (hp : l₁.Perm l₂) (hn : (l₁.map Prod.fst).Nodup) :
    writeNode (el name l₁ cs) = writeNode (el name l₂ cs) ∧
    writeNode (cel name l₁ cs) = writeNode (cel name l₂ cs) := by
  rw [C15_el_attr_order_invariant name l₁ l₂ cs hp hn,
      C15_cel_attr_order_invariant name l₁ l₂ cs hp hn]
  exact ⟨rfl, rfl⟩

/-! ### 7. `_is_match` / collapsing do not depend on attribute insertion order -/

/-- `_is_match` gives the same answer whichever order the attributes of either tag were
    inserted in (first and second argument position) -/
theorem C15_match_attr_order_invariant (n : Str) (alts : List Str) (c : Bool) (sep : Option Str)
    (l₁ l₂ : List (Str × Str)) (t : Tag) (hp : l₁.Perm l₂) (hn : (l₁.map Prod.fst).Nodup) :
    isMatch { name := n, alts := alts, attrs := Dict.ofList l₁, collapsible := c, separator := sep } t
      = isMatch { name := n, alts := alts, attrs := Dict.ofList l₂, collapsible := c, separator := sep } t ∧
    isMatch t { name := n, alts := alts, attrs := Dict.ofList l₁, collapsible := c, separator := sep }
      = isMatch t { name := n, alts := alts, attrs := Dict.ofList l₂, collapsible := c, separator := sep } := by
  rw [c15_ofList_perm hp hn]
  exact ⟨rfl, rfl⟩

/-- `_is_match` compares attributes the way Python compares dictionaries: for tags whose
    attributes satisfy the invariant, it is `true` exactly when the name fits and every attribute
    lookup agrees -/
theorem C15_match_is_dict_eq (a b : Tag) (ha : c15_sorted a.attrs) (hb : c15_sorted b.attrs) :
    isMatch a b = true ↔
      (a.name ∈ b.names ∧ ∀ k, Dict.get? k a.attrs = Dict.get? k b.attrs) := by
  simp only [isMatch, Bool.and_eq_true, List.contains_iff_mem, beq_iff_eq]
  rw [C15_sorted_ext a.attrs b.attrs ha hb]

/-- collapsing a sibling list built with `el`/`cel` gives the same result whichever order the
    attributes of the two siblings were supplied in -/
theorem C15_collapse_attr_order_invariant (n m : Str) (l₁ l₂ k₁ k₂ : List (Str × Str))
    (cs ds pre post : List Node)
    (hp : l₁.Perm l₂) (hn : (l₁.map Prod.fst).Nodup)
    (hq : k₁.Perm k₂) (hm : (k₁.map Prod.fst).Nodup) :
    collapse (pre ++ el n l₁ cs :: cel m k₁ ds :: post)
      = collapse (pre ++ el n l₂ cs :: cel m k₂ ds :: post) ∧
    collapse (pre ++ cel n l₁ cs :: cel m k₁ ds :: post)
      = collapse (pre ++ cel n l₂ cs :: cel m k₂ ds :: post) := by
  rw [C15_el_attr_order_invariant n l₁ l₂ cs hp hn, C15_cel_attr_order_invariant n l₁ l₂ cs hp hn,
      C15_cel_attr_order_invariant m k₁ k₂ ds hq hm]
  exact ⟨rfl, rfl⟩

/-! ### 8. the default style map is a closed constant -/

/-- `read_options` appends the built-in style map — a closed term that depends on no option and
    no earlier call — after the custom and the embedded map when `include_default_style_map` is
    set, and appends nothing otherwise; the custom/embedded parts depend on their own text only -/
theorem C15_default_map_constant (c e : Option Str) :
    (readOptions c e true).1
      = (readStyleMap (c.getD [])).1 ++ (readStyleMap (e.getD [])).1 ++ defaultStyleMap ∧
    (readOptions c e false).1
      = (readStyleMap (c.getD [])).1 ++ (readStyleMap (e.getD [])).1 ++ [] := ⟨rfl, rfl⟩

/-- the default map is literally the parse of the extracted text; neither `c` nor `e` occurs -/
theorem C15_default_map_def : defaultStyleMap = (readStyleMap Generated.defaultStyleMapText).1 := rfl

/-! ### 9. every conversion starts from the empty converter state -/

/-- `convertDoc` runs the visitor from the EMPTY `ConvState` (no note references, no referenced
    comments, no messages, no I/O, no image calls) and reads the result off the final state.
    Purity of the model is by construction: it is a Lean function, so no state of any other call,
    thread or hash seed can enter.  What the test harness checks is that the Python implementation
    refines this function under call histories, threads and `PYTHONHASHSEED` values. -/
theorem C15_state_fresh (cfg : Cfg) (d : Document) :
    convertDoc cfg d =
      match (visitDocument { cfg with comments := d.comments } d).run {} with
      | .ok (nodes, st) =>
        .ok { nodes := nodes, messages := unique st.messages, ioTrace := st.ioTrace,
              imageCalls := st.imageCalls, noteRefs := st.noteRefs }
      | .error e => .error e := rfl

/-- the initial state is the all-empty one -/
theorem C15_initial_state_empty :
    (({} : ConvState).noteRefs = [] ∧ ({} : ConvState).refComments = [] ∧
     ({} : ConvState).messages = [] ∧ ({} : ConvState).ioTrace = [] ∧
     ({} : ConvState).imageCalls = []) := ⟨rfl, rfl, rfl, rfl, rfl⟩

/-- the comment table the converter uses is always the document's own: whatever `cfg.comments`
    held before (e.g. from an earlier document) is overwritten -/
theorem C15_cfg_comments_overridden (cfg : Cfg) (x : List Comment) (d : Document) :
    convertDoc { cfg with comments := x } d = convertDoc cfg d := rfl

/-! ### non-vacuity -/

example : Dict.ofList [(S!"b", S!"1"), (S!"a", S!"2")] = Dict.ofList [(S!"a", S!"2"), (S!"b", S!"1")] := by
  decide
example : Dict.ofList [(S!"id", S!"x"), (S!"class", S!"c"), (S!"id", S!"y")]
    = [(S!"class", S!"c"), (S!"id", S!"y")] := by decide
example : c15_sortedB ([(S!"class", S!"c"), (S!"href", S!"u"), (S!"id", S!"y")] : Dict Str) = true := by
  decide
example : c15_sorted ([(S!"class", S!"c"), (S!"href", S!"u"), (S!"id", S!"y")] : Dict Str) :=
  (c15_sortedB_iff _).1 (by decide)
example : ¬ c15_sorted ([(S!"id", S!"y"), (S!"class", S!"c")] : Dict Str) := by
  rw [← c15_sortedB_iff]; decide
example : [(S!"href", S!"u"), (S!"id", S!"y")].Perm [(S!"id", S!"y"), (S!"href", S!"u")] :=
  List.Perm.swap _ _ _
example : ([(S!"href", S!"u"), (S!"id", S!"y")].map Prod.fst).Nodup := by decide
example : writeNode (el S!"a" [(S!"id", S!"y"), (S!"href", S!"u")] [.text S!"t"])
    = S!"<a href=\"u\" id=\"y\">t</a>" := by rfl
example : writeNode (el S!"a" [(S!"href", S!"u"), (S!"id", S!"y")] [.text S!"t"])
    = writeNode (el S!"a" [(S!"id", S!"y"), (S!"href", S!"u")] [.text S!"t"]) := by rfl
example : writeHtml (collapse [cel S!"p" [(S!"a", S!"1"), (S!"b", S!"2")] [.text S!"x"],
                               cel S!"p" [(S!"b", S!"2"), (S!"a", S!"1")] [.text S!"y"]])
    = S!"<p a=\"1\" b=\"2\">xy</p>" := by rfl
example : strLt S!"class" S!"id" = true ∧ strLt S!"id" S!"class" = false ∧ strLt S!"id" S!"id" = false := by
  decide

end Mammoth
