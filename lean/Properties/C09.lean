/-
  C09 — "Tables keep their grid".

  Reader side (`calculateRowSpans`, the model of `calculate_row_spans` in docx/body_xml.py):
  rows and header flags are preserved, only continuation cells can disappear, and on a well-formed
  grid exactly the continuation cells disappear while every other cell gets
  rowspan = 1 + the length of the vertical-merge chain below it.
  Layout: laying the (colspan, rowspan) cells that `calculateRowSpans` returns out by the HTML table
  algorithm (`c09_htmlLayout`) puts on every grid position exactly the cell that owns it in the
  document (`c09_docGrid`), and nothing outside the grid.
  Converter side (`visit` on `.table` / `.row` / `.cell`): `thead`/`tbody` split at `bodyIndex`,
  one `tr` per row, one `th`/`td` per cell with `colspan`/`rowspan` attributes present iff ≠ 1.
-/
import Proofs.C09_Rebuild
import Proofs.C09_General
import Proofs.C09_Convert
import Proofs.C09_DocGrid
import Proofs.C09_XmlGrid
import Proofs.C09_Ext7
namespace Mammoth

/-! ## 1. `calculate_row_spans` on a well-formed grid -/

/-- On a well-formed grid (`c09_validGrid`: spans ≥ 1, equal row widths, every continuation cell has
    directly above it a `restart`/`cont` cell with the same start column and span) `calculate_row_spans`
    emits no warning and returns, row by row (header flags `hdr i` unchanged), exactly the
    non-continuation cells in order, each with `colspan = span`, its content, and
    `rowspan = 1 + c09_chain below startColumn`, the number of consecutive following rows that have a
    continuation cell at the same start column. -/
theorem C09_rowspans_spec (hdr : Nat → Bool) (rows : List c09_Row) (h : c09_validGrid rows = true) :
    calculateRowSpans (c09_toElems hdr rows) = (c09_expected hdr rows, []) := by
  simp only [c09_validGrid, Bool.and_eq_true] at h
  exact c09_rowspans_spec_from hdr rows h.1

/-! ## 2. `calculate_row_spans` on any input -/

/-- For every list of table children: the result has the same length and, position by position, the same
    kind (row / not a row) and the same header flag. -/
theorem C09_rows_preserved (rows : List Elem) :
    (calculateRowSpans rows).1.length = rows.length ∧
    (calculateRowSpans rows).1.map c09_rowFlag = rows.map c09_rowFlag := by
  have h := c09_calculate_kept rows
  exact ⟨h.length_eq.symm, c09_Forall2_map_eq c09_rowFlag (fun _ _ => c09_rowKept_flag) h⟩

/-- For every list of table children, position by position (`c09_rowKept`): a non-row is returned
    unchanged; a row keeps its header flag and its cells form a subsequence of the original cells
    (same order, colspan and content unchanged — `c09_cellKey` forgets only rowspan and the `_vmerge`
    mark) that contains every cell that is not a continuation cell: only continuation cells are
    ever removed. -/
theorem C09_kept_cells (rows : List Elem) :
    c09_Forall2 c09_rowKept rows (calculateRowSpans rows).1 :=
  c09_calculate_kept rows

/-- the kept cells of a row are exactly the cells whose position is not in the sweep's drop list
    (and all those positions hold continuation cells, `c09_drops_are_vm`) -/
theorem C09_dropped_are_continuations (rows : List Elem) (r pos : Nat)
    (h : (r, pos) ∈ (sweepRows rows 0 {}).drops) : c09_vmAt rows r pos = true :=
  c09_drops_are_vm rows (r, pos) h


/-! ## 4. the HTML layout of the result is the document grid -/

/-- On a well-formed grid, lay out the rows returned by `calculate_row_spans` (their cells' colspan and
    rowspan, in order) by the HTML table algorithm (`c09_htmlLayout`: each cell takes the next column of
    its row not occupied by a cell growing down from above, and occupies colspan columns × rowspan rows).
    Then for every row `y` and column `x` the list of HTML cells lying on slot (y, x) is exactly the owner
    of that position in the document (`c09_docGrid`: a continuation cell's columns belong to the owner of
    the same columns in the row above; identities are (row, index among the row's kept cells)) — a
    one-element list where the document has an owner, the empty list where it has none. -/
theorem C09_layout_eq (hdr : Nat → Bool) (rows : List c09_Row) (h : c09_validGrid rows = true) (y x : Nat) :
    c09_htmlLayout (c09_cellsOf (calculateRowSpans (c09_toElems hdr rows)).1) y x
      = (c09_docGrid rows y x).toList := by
  simp only [c09_validGrid, Bool.and_eq_true] at h
  rw [c09_rowspans_spec_from hdr rows h.1]
  show c09_htmlLayout (c09_cellsOf (c09_expectedFrom hdr 0 rows)) y x = _
  rw [c09_cellsOf_expected]
  exact c09_layout_eq_spec rows h.1 y x

/-- no gap, no overlap: every position inside the grid (row `y` exists, `x` is less than its width) is
    covered by exactly one HTML cell, the document owner of the position -/
theorem C09_layout_inside (hdr : Nat → Bool) (rows : List c09_Row) (h : c09_validGrid rows = true)
    (y x : Nat) (row : c09_Row) (hy : rows[y]? = some row) (hx : x < c09_width row) :
    ∃ id, c09_docGrid rows y x = some id ∧
      c09_htmlLayout (c09_cellsOf (calculateRowSpans (c09_toElems hdr rows)).1) y x = [id] := by
  have hv : c09_validFrom [] rows = true := by
    simp only [c09_validGrid, Bool.and_eq_true] at h; exact h.1
  have hs := (c09_docGrid_isSome rows hv y x).mpr ⟨row, hy, hx⟩
  cases hd : c09_docGrid rows y x with
  | none => simp [hd] at hs
  | some id => exact ⟨id, rfl, by rw [C09_layout_eq hdr rows h y x, hd]; rfl⟩

/-- nothing is laid out outside the grid -/
theorem C09_layout_outside (hdr : Nat → Bool) (rows : List c09_Row) (h : c09_validGrid rows = true)
    (y x : Nat) (hout : ∀ row, rows[y]? = some row → c09_width row ≤ x) :
    c09_htmlLayout (c09_cellsOf (calculateRowSpans (c09_toElems hdr rows)).1) y x = [] := by
  have hv : c09_validFrom [] rows = true := by
    simp only [c09_validGrid, Bool.and_eq_true] at h; exact h.1
  rw [C09_layout_eq hdr rows h y x]
  cases hd : c09_docGrid rows y x with
  | none => rfl
  | some id =>
    obtain ⟨row, hy, hx⟩ := (c09_docGrid_isSome rows hv y x).mp (by simp [hd])
    have := hout row hy; omega

/-- in a well-formed grid all rows have the width of the first row -/
theorem C09_valid_width (rows : List c09_Row) (h : c09_validGrid rows = true) (r0 row : c09_Row) (y : Nat)
    (h0 : rows[0]? = some r0) (hy : rows[y]? = some row) : c09_width row = c09_width r0 := by
  cases rows with
  | nil => simp at h0
  | cons r rs =>
    simp only [List.getElem?_cons_zero, Option.some.injEq] at h0; subst h0
    cases y with
    | zero => simp at hy; rw [hy]
    | succ y =>
      simp only [c09_validGrid, Bool.and_eq_true, List.all_eq_true] at h
      simp only [List.getElem?_cons_succ] at hy
      have := h.2 row (List.mem_of_getElem? hy)
      simpa using this

/-! ## 5. the converter: `thead`/`tbody`, `tr`, `th`/`td` -/

/-- `body_index` is the length of the maximal prefix of header rows, and splits the rows there -/
theorem C09_bodyIndex (rows : List Elem) :
    bodyIndex rows = (rows.takeWhile isHeaderRow).length ∧
    rows.take (bodyIndex rows) = rows.takeWhile isHeaderRow ∧
    rows.drop (bodyIndex rows) = rows.dropWhile isHeaderRow :=
  ⟨c09_bodyIndex_eq rows, c09_take_bodyIndex rows, c09_drop_bodyIndex rows⟩

/-- `bodyIndex rows = 0` iff there is no first row or the first row is not a header row -/
theorem C09_bodyIndex_zero (rows : List Elem) :
    bodyIndex rows = 0 ↔ (rows.head?.map isHeaderRow).getD false = false := by
  cases rows with
  | nil => simp [bodyIndex]
  | cons r rs => by_cases h : isHeaderRow r = true <;> simp [bodyIndex, h]

/-- a cell becomes one `th` (header context) or `td` element with attributes `cellAttrs colspan rowspan`,
    whose first child is the force-write marker, followed by the converted content -/
theorem C09_visit_cell (cfg : Cfg) (hdr : Bool) (colspan rowspan : Nat) (vm : Bool) (cs : List Elem) :
    visit cfg hdr (.cell colspan rowspan vm cs) =
      (do let ns ← visitAll cfg hdr cs
          pure [el (if hdr then S!"th" else S!"td") (cellAttrs colspan rowspan) (.forceWrite :: ns)]) :=
  c09_visit_cell cfg hdr colspan rowspan vm cs

/-- the `colspan` / `rowspan` attributes are present iff the value is not 1, in this order -/
theorem C09_cellAttrs (colspan rowspan : Nat) :
    cellAttrs colspan rowspan =
      (if colspan = 1 then [] else [(S!"colspan", natToStr colspan)]) ++
      (if rowspan = 1 then [] else [(S!"rowspan", natToStr rowspan)]) := by
  by_cases h1 : colspan = 1 <;> by_cases h2 : rowspan = 1 <;> simp [cellAttrs, h1, h2]

/-- a row becomes one `tr` element: the force-write marker, then the converted cells -/
theorem C09_visit_row (cfg : Cfg) (hdr h : Bool) (cells : List Elem) :
    visit cfg hdr (.row h cells) =
      (do let ns ← visitAll cfg hdr cells
          pure [el S!"tr" [] (.forceWrite :: ns)]) :=
  c09_visit_row cfg hdr h cells

/-- a table (not mapped to `!`): the first `bodyIndex rows` rows are visited in header context, the others
    in body context; without header rows the `tr`s are the table's children, otherwise they are grouped in
    `thead` / `tbody`; the force-write marker comes first -/
theorem C09_visit_table (cfg : Cfg) (hdr : Bool) (sid sname : Option Str) (rows : List Elem) (es : List Tag)
    (hpath : (findPath cfg (.table sid sname)).getD (.elements [pathElem S!"table" true]) = .elements es) :
    visit cfg hdr (.table sid sname rows) =
      (do let head ← visitAll cfg true (rows.take (bodyIndex rows))
          let body ← visitAll cfg false (rows.drop (bodyIndex rows))
          pure (wrapElems es (.forceWrite ::
            (if bodyIndex rows == 0 then body else [el S!"thead" [] head, el S!"tbody" [] body])))) := by
  rw [c09_visit_table, hpath, c09_visitRows_true]
  simp

/-- Structure of a converted table.  If all children of the table are rows of cells and the conversion
    succeeds, the emitted nodes are the table path wrapped around: the force-write marker, then either the
    body `tr`s (no leading header row) or `thead` with the `tr`s of the first `bodyIndex rows` rows and
    `tbody` with the others; row by row and cell by cell (`c09_rowRel`, `c09_cellRel`): one `tr` per
    row, one `th` (head part) / `td` (body part) per cell, in order, each with attributes
    `cellAttrs colspan rowspan` and a leading force-write marker. -/
theorem C09_table_structure (cfg : Cfg) (hdr : Bool) (sid sname : Option Str) (rows : List Elem)
    (es : List Tag) (s s' : ConvState) (nodes : List Node)
    (hrows : rows.all (fun r => isRow r && (rowCells r).all isCell) = true)
    (hpath : (findPath cfg (.table sid sname)).getD (.elements [pathElem S!"table" true]) = .elements es)
    (hrun : (visit cfg hdr (.table sid sname rows)).run s = .ok (nodes, s')) :
    ∃ headNs bodyNs,
      nodes = wrapElems es (.forceWrite ::
        (if bodyIndex rows = 0 then bodyNs else [el S!"thead" [] headNs, el S!"tbody" [] bodyNs])) ∧
      c09_Forall2 (c09_rowRel true) (rows.take (bodyIndex rows)) headNs ∧
      c09_Forall2 (c09_rowRel false) (rows.drop (bodyIndex rows)) bodyNs := by
  rw [C09_visit_table cfg hdr sid sname rows es hpath, c09_bind_ok] at hrun
  obtain ⟨headNs, s1, h1, hrun⟩ := hrun
  rw [c09_bind_ok] at hrun
  obtain ⟨bodyNs, s2, h2, hrun⟩ := hrun
  rw [c09_pure_ok] at hrun
  have hall := List.all_eq_true.mp hrows
  refine ⟨headNs, bodyNs, ?_, ?_, ?_⟩
  · rw [← hrun.1]; by_cases hb : bodyIndex rows = 0 <;> simp [hb]
  · exact c09_visitAll_rows cfg true _
      (List.all_eq_true.mpr fun x hx => hall x (List.mem_of_mem_take hx)) s s1 headNs h1
  · exact c09_visitAll_rows cfg false _
      (List.all_eq_true.mpr fun x hx => hall x (List.mem_of_mem_drop hx)) s1 s2 bodyNs h2

/-! ## examples (non-vacuity) -/

-- `c09_ex` (Proofs/C09_Grid.lean): a 3×3 grid; column 0 of rows 0–1 is one vertically merged cell,
-- columns 1–2 of row 0 are one wide cell

example : c09_validGrid c09_ex = true := by decide

example : calculateRowSpans (c09_toElems (fun i => i == 0) c09_ex) =
    ([.row true [.cell 1 2 false [.text S!"a"], .cell 2 1 false [.text S!"b"]],
      .row false [.cell 1 1 false [], .cell 1 1 false []],
      .row false [.cell 1 1 false [], .cell 1 1 false [], .cell 1 1 false []]], []) := by rfl

example : c09_expected (fun i => i == 0) c09_ex =
    [.row true [.cell 1 2 false [.text S!"a"], .cell 2 1 false [.text S!"b"]],
     .row false [.cell 1 1 false [], .cell 1 1 false []],
     .row false [.cell 1 1 false [], .cell 1 1 false [], .cell 1 1 false []]] := by rfl

/-- the layout of the example: slot by slot the owning HTML cell (row, index) -/
example : (List.range 4).map (fun y => (List.range 4).map fun x =>
      c09_htmlLayout (c09_cellsOf (calculateRowSpans (c09_toElems (fun i => i == 0) c09_ex)).1) y x) =
    [[[(0, 0)], [(0, 1)], [(0, 1)], []],
     [[(0, 0)], [(1, 0)], [(1, 1)], []],
     [[(2, 0)], [(2, 1)], [(2, 2)], []],
     [[], [], [], []]] := by rfl

example : (List.range 4).map (fun y => (List.range 4).map fun x => c09_docGrid c09_ex y x) =
    [[some (0, 0), some (0, 1), some (0, 1), none],
     [some (0, 0), some (1, 0), some (1, 1), none],
     [some (2, 0), some (2, 1), some (2, 2), none],
     [none, none, none, none]] := by rfl

/-- the layout function does see overlaps and gaps in ill-formed HTML tables: here the second cell of
    row 0 grows down into column 1 of row 1, where the wide cell of row 1 also lies; column 2 is empty -/
example : (List.range 3).map (fun x => c09_htmlLayout [[(1, 1), (1, 2)], [(2, 1)]] 1 x) =
    [[(1, 0)], [(0, 1), (1, 0)], []] := by rfl

/-- CAVEAT (not covered by `C09_layout_eq`, which lays all rows out as one row group): the converter
    puts the leading header rows in `thead` and the others in `tbody`, and HTML cuts every rowspan at the
    end of its row group.  A vertical merge that starts in a header row and continues into a body row
    therefore does not keep the grid in a browser: here (2×2, column 0 merged over both rows, row 0 a
    header row) the only cell of the body row lands in column 0 instead of column 1, and column 1 of row 1
    stays empty. -/
example :
    let rows : List c09_Row := [[⟨1, .restart, []⟩, ⟨1, .none, []⟩], [⟨1, .cont, []⟩, ⟨1, .none, []⟩]]
    let out := (calculateRowSpans (c09_toElems (fun i => i == 0) rows)).1
    c09_validGrid rows = true ∧ bodyIndex out = 1 ∧
    (List.range 2).map (fun x => c09_htmlLayoutGroups (c09_cellsOf out) (bodyIndex out) 1 x) = [[(1, 0)], []] ∧
    (List.range 2).map (fun x => c09_docGrid rows 1 x) = [some (0, 0), some (1, 0)] ∧
    (List.range 2).map (fun x => c09_htmlLayout (c09_cellsOf out) 1 x) = [[(0, 0)], [(1, 0)]] := by
  refine ⟨by decide, by rfl, by rfl, by rfl, by rfl⟩

example : bodyIndex (calculateRowSpans (c09_toElems (fun i => i == 0) c09_ex)).1 = 1 := by rfl

/-- the converted example: `thead` with one `tr` of two `th`, `tbody` with two `tr`s of `td`s -/
example : ((visit {} false (.table none none (calculateRowSpans (c09_toElems (fun i => i == 0) c09_ex)).1)).run {}).toOption.map (·.1) =
    some [el S!"table" []
      [.forceWrite,
       el S!"thead" [] [el S!"tr" [] [.forceWrite,
          el S!"th" [(S!"rowspan", S!"2")] [.forceWrite, .text S!"a"],
          el S!"th" [(S!"colspan", S!"2")] [.forceWrite, .text S!"b"]]],
       el S!"tbody" []
         [el S!"tr" [] [.forceWrite, el S!"td" [] [.forceWrite], el S!"td" [] [.forceWrite]],
          el S!"tr" [] [.forceWrite, el S!"td" [] [.forceWrite], el S!"td" [] [.forceWrite],
            el S!"td" [] [.forceWrite]]]]] := by rfl

/-! ## 6. END TO END: from the XML of a table

Specification functions on the XML (Proofs/C09_Xml.lean, written with `c11x_named` / `c11x_propVal`, not with the
reader's helpers): `c09x_gridSpan tcPr` — `w:gridSpan/@w:val` as a decimal number, 1 if absent; `c09x_merge tcPr` — no
`w:vMerge`: none; `w:vMerge` without value, with an empty value or `continue`: continuation; any other value
(`restart`): restart; `c09x_isHeader` — the row's `w:trPr` has a `w:tblHeader`; `c09x_xmlGrid cs` — one row per `w:tr`
child of the table, one cell (span, merge kind, no content) per `w:tc` child of the row; `c09x_xmlHdr cs` — the header
flags of the rows.  `c09x_tableShape cs`: every element child of the `w:tbl` is a `w:tr` or has no handler (`w:tblPr`,
`w:tblGrid`, unknown elements), every element child of such a `w:tr` is a `w:tc` or has no handler (`w:trPr`, …);
the content of the cells is arbitrary.
`c09x_readRows env f st cs`: the grid with the cells' contents as the element reader (fuel `f`) reads them, in document
order, threading the reader state; with the extra elements and messages of the contents (plus the messages about
unknown elements). -/

/-- the reader's view of a cell: colspan = grid span, rowspan 1, the `_vmerge` mark iff the merge kind read off the
    XML is "continuation"; the mark is what `read_vmerge` computes -/
theorem C09_xml_cell_props (tcPr : List XmlNode) :
    readVmerge tcPr = (c09x_merge tcPr == .cont) ∧
    (∀ n, c09x_spanE tcPr = .ok n → c09x_gridSpan tcPr = some n) ∧
    (childAttr S!"w:gridSpan" S!"w:val" tcPr = none → c09x_gridSpan tcPr = some 1) := by
  refine ⟨c09x_readVmerge tcPr, fun n h => c09x_spanE_ok h, fun h => ?_⟩
  rw [c11x_childAttr] at h
  simp [c09x_gridSpan, h]

/-- READER HALF.  For a `w:tbl` (any attributes) whose children `cs` have the table shape, the element reader with
    fuel `f+3` returns — or fails — exactly as the structured reading `c09x_readRows` of the rows with fuel `f` for the
    cell contents does; on success the result is ONE table element
    `.table styleId styleName (calculateRowSpans (c09_toElems hdr grid)).1`, where `grid` is the grid read
    (`c09_toElems`: one `.row` per `w:tr` with its header flag, one `.cell span 1 isContinuation content` per `w:tc`),
    with the contents' extra elements and the messages (style warning, contents, `calculate_row_spans`). -/
theorem C09_read_table (env : REnv) (f : Nat) (st : RState) (as : Attrs) (cs : List XmlNode)
    (hshape : c09x_tableShape cs = true) :
    readElem env (f+3) st (.elem S!"w:tbl" as cs) =
      (c09x_readRows env f st cs).map fun p =>
        ({ elements := [.table (c09x_tblStyle env cs).1.1 (c09x_tblStyle env cs).1.2
              (calculateRowSpans (c09_toElems (c09x_hdrFn (p.1.1.map (·.1))) (p.1.1.map (·.2)))).1],
           extra := p.1.2.1,
           messages := (c09x_tblStyle env cs).2 ++ (p.1.2.2 ++
              (calculateRowSpans (c09_toElems (c09x_hdrFn (p.1.1.map (·.1))) (p.1.1.map (·.2)))).2) }, p.2) :=
  c09x_read_table env f st as cs hshape

/-- the grid that is read is, cell contents apart, the grid read off the XML alone, with the XML's header flags -/
theorem C09_read_grid_is_xml_grid (env : REnv) (f : Nat) (st : RState) (cs : List XmlNode)
    (p : c09x_Res (List (Bool × c09_Row))) (hread : c09x_readRows env f st cs = .ok p) :
    (p.1.1.map (·.2)).map (fun row => row.map c09x_strip) = c09x_xmlGrid cs ∧ p.1.1.map (·.1) = c09x_xmlHdr cs := by
  obtain ⟨h1, h2⟩ := c09x_readRows_grid env f cs st p hread
  exact ⟨by rw [← h1]; simp [List.map_map, Function.comp], h2⟩

/-- validity and the document grid do not look at the contents of the cells -/
theorem C09_grid_content_irrelevant (rows : List c09_Row) (y x : Nat) :
    c09_validGrid (rows.map fun row => row.map c09x_strip) = c09_validGrid rows ∧
    c09_docGrid (rows.map fun row => row.map c09x_strip) y x = c09_docGrid rows y x :=
  ⟨c09x_validGrid_strip rows, c09x_docGrid_strip rows y x⟩

/-- FROM THE XML TO THE LAYOUT.  Hypotheses, all on the XML: the children `cs` of the `w:tbl` have the table shape
    (`hshape`); the grid read off the XML is well-formed (`hvalid`: every `w:gridSpan` is a number ≥ 1, all rows have
    the same total width, every continuation cell has directly above it a restart/continuation cell with the same
    start column and span); and the element reader (ANY fuel `g`) succeeds on the table (`hread`).
    Then the result is one table element whose rows are `c09_expected hdr grid` for a grid that is the XML grid with
    contents filled in — one row per `w:tr` with its header flag, in it one cell per `w:tc` that is not a
    continuation, colspan = `w:gridSpan`, rowspan = 1 + the number of continuation cells below it — and laying these
    rows out by the HTML table algorithm puts on every slot (y, x) exactly the owner of that position in the XML
    grid (`c09_docGrid`), and nothing where the XML grid has no cell. -/
theorem C09_xml_table_layout (env : REnv) (g : Nat) (st st1 : RState) (as : Attrs) (cs : List XmlNode)
    (rr : ReadResult)
    (hshape : c09x_tableShape cs = true)
    (hvalid : c09_validGrid (c09x_xmlGrid cs) = true)
    (hread : readElem env g st (.elem S!"w:tbl" as cs) = .ok (rr, st1)) :
    ∃ grid : List c09_Row,
      grid.map (fun row => row.map c09x_strip) = c09x_xmlGrid cs ∧
      c09_validGrid grid = true ∧
      rr.elements = [.table (c09x_tblStyle env cs).1.1 (c09x_tblStyle env cs).1.2
                      (c09_expected (c09x_hdrFn (c09x_xmlHdr cs)) grid)] ∧
      ∀ y x, c09_htmlLayout (c09_cellsOf (c09_expected (c09x_hdrFn (c09x_xmlHdr cs)) grid)) y x =
               (c09_docGrid (c09x_xmlGrid cs) y x).toList := by
  have h3 := (c05_readElem_le_add env g 3 st _).h _ hread
  rw [c09x_read_table env g st as cs hshape] at h3
  cases hp : c09x_readRows env g st cs with
  | error e => rw [hp] at h3; cases h3
  | ok p =>
    rw [hp] at h3
    simp only [Except.map, Except.ok.injEq] at h3
    obtain ⟨hg, hh, hv, hres⟩ := c09x_read_valid env g st cs p hvalid hp
    rw [hres] at h3
    refine ⟨p.1.1.map (·.2), hg, hv, ?_, ?_⟩
    · rw [← (Prod.mk.inj h3).1]
    · intro y x
      have := C09_layout_eq (c09x_hdrFn (c09x_xmlHdr cs)) _ hv y x
      simp only [c09_validGrid, Bool.and_eq_true] at hv
      rw [c09_rowspans_spec_from _ _ hv.1] at this
      rw [this, ← hg]
      exact congrArg Option.toList (c09x_docGrid_strip _ y x).symm

/-- …AND TO THE HTML.  Under the same hypotheses, if the table is not mapped to `!` (`hpath`) and converting the
    element(s) read succeeds (`hrun`), the nodes are the table path around: the force-write marker, then the `tr`s
    (or `thead` / `tbody` of `tr`s when the first row is a header row), one `tr` per row and, per row, one `th`/`td`
    per cell of `c09_expected hdr grid` with attributes `cellAttrs colspan rowspan` (`c09_rowRel`) — the cells whose
    HTML layout is the document grid by `C09_xml_table_layout`. -/
theorem C09_xml_table_html (env : REnv) (g : Nat) (st st1 : RState) (as : Attrs) (cs : List XmlNode)
    (rr : ReadResult) (cfg : Cfg) (hdr : Bool) (es : List Tag) (s s' : ConvState) (nodes : List Node)
    (hshape : c09x_tableShape cs = true)
    (hvalid : c09_validGrid (c09x_xmlGrid cs) = true)
    (hread : readElem env g st (.elem S!"w:tbl" as cs) = .ok (rr, st1))
    (hpath : (findPath cfg (.table (c09x_tblStyle env cs).1.1 (c09x_tblStyle env cs).1.2)).getD
                (.elements [pathElem S!"table" true]) = .elements es)
    (hrun : (visitAll cfg hdr rr.elements).run s = .ok (nodes, s')) :
    ∃ (grid : List c09_Row) (rows : List Elem) (headNs bodyNs : List Node),
      grid.map (fun row => row.map c09x_strip) = c09x_xmlGrid cs ∧
      rows = c09_expected (c09x_hdrFn (c09x_xmlHdr cs)) grid ∧
      (∀ y x, c09_htmlLayout (c09_cellsOf rows) y x = (c09_docGrid (c09x_xmlGrid cs) y x).toList) ∧
      nodes = wrapElems es (.forceWrite ::
        (if bodyIndex rows = 0 then bodyNs else [el S!"thead" [] headNs, el S!"tbody" [] bodyNs])) ∧
      c09_Forall2 (c09_rowRel true) (rows.take (bodyIndex rows)) headNs ∧
      c09_Forall2 (c09_rowRel false) (rows.drop (bodyIndex rows)) bodyNs := by
  obtain ⟨grid, hg, _, hel, hlay⟩ := C09_xml_table_layout env g st st1 as cs rr hshape hvalid hread
  rw [hel, c09_visitAll_cons, c09_bind_ok] at hrun
  obtain ⟨a, s1, h1, hrun⟩ := hrun
  rw [c09_visitAll_nil, c09_bind_ok] at hrun
  obtain ⟨b, s2, h2, hrun⟩ := hrun
  rw [c09_pure_ok] at h2 hrun
  obtain ⟨headNs, bodyNs, hn, hh, hb⟩ := C09_table_structure cfg hdr _ _ _ es s s1 a
    (c09x_expected_rows _ grid 0) hpath h1
  refine ⟨grid, _, headNs, bodyNs, hg, rfl, hlay, ?_, hh, hb⟩
  rw [← hrun.1, ← h2.1, List.append_nil, hn]
  rfl

/-! example: the grid `c09_ex` as XML —
    `<w:tbl><w:tblPr/><w:tblGrid/>
       <w:tr><w:trPr><w:tblHeader/></w:trPr>
             <w:tc><w:tcPr><w:vMerge w:val="restart"/></w:tcPr><w:p><w:r><w:t>a</w:t></w:r></w:p></w:tc>
             <w:tc><w:tcPr><w:gridSpan w:val="2"/></w:tcPr><w:p><w:r><w:t>b</w:t></w:r></w:p></w:tc></w:tr>
       <w:tr><w:tc><w:tcPr><w:vMerge/></w:tcPr></w:tc><w:tc/><w:tc/></w:tr>
       <w:tr><w:tc/><w:tc><w:tcPr><w:gridSpan w:val="1"/></w:tcPr></w:tc><w:tc/></w:tr></w:tbl>` -/
private def c09x_para (t : Str) : XmlNode :=
  .elem S!"w:p" [] [.elem S!"w:r" [] [.elem S!"w:t" [] [.text t]]]
private def c09x_tc (tcPr : List XmlNode) (content : List XmlNode) : XmlNode :=
  .elem S!"w:tc" [] (.elem S!"w:tcPr" [] tcPr :: content)
private def c09x_exTbl : List XmlNode :=
  [.elem S!"w:tblPr" [] [], .elem S!"w:tblGrid" [] [],
   .elem S!"w:tr" [] [.elem S!"w:trPr" [] [.elem S!"w:tblHeader" [] []],
      c09x_tc [.elem S!"w:vMerge" [(S!"w:val", S!"restart")] []] [c09x_para S!"a"],
      c09x_tc [.elem S!"w:gridSpan" [(S!"w:val", S!"2")] []] [c09x_para S!"b"]],
   .elem S!"w:tr" [] [c09x_tc [.elem S!"w:vMerge" [] []] [], .elem S!"w:tc" [] [], .elem S!"w:tc" [] []],
   .elem S!"w:tr" [] [.elem S!"w:tc" [] [], c09x_tc [.elem S!"w:gridSpan" [(S!"w:val", S!"1")] []] [],
      .elem S!"w:tc" [] []]]

example : c09x_tableShape c09x_exTbl = true := by decide +kernel
/-- its XML grid is `c09_ex` without the contents, its first row is a header row -/
example : c09x_xmlGrid c09x_exTbl = c09_ex.map (fun row => row.map c09x_strip) ∧
    c09x_xmlHdr c09x_exTbl = [true, false, false] := ⟨rfl, rfl⟩
example : c09_validGrid (c09x_xmlGrid c09x_exTbl) = true := by decide +kernel
/-- the reader succeeds on it (fuel 6), without a message -/
example : ∃ rr st1, readElem {} 6 {} (.elem S!"w:tbl" [] c09x_exTbl) = .ok (rr, st1) ∧ rr.messages = [] :=
  ⟨_, _, rfl, rfl⟩
/-- read and converted -/
example :
    (match readElem {} 6 {} (.elem S!"w:tbl" [] c09x_exTbl) with
      | .ok (rr, _) => ((visitAll {} false rr.elements).run {}).toOption.map (·.1)
      | .error _ => none) =
    some [el S!"table" []
      [.forceWrite,
       el S!"thead" [] [el S!"tr" [] [.forceWrite,
          el S!"th" [(S!"rowspan", S!"2")] [.forceWrite, el S!"p" [] [.text S!"a"]],
          el S!"th" [(S!"colspan", S!"2")] [.forceWrite, el S!"p" [] [.text S!"b"]]]],
       el S!"tbody" []
         [el S!"tr" [] [.forceWrite, el S!"td" [] [.forceWrite], el S!"td" [] [.forceWrite]],
          el S!"tr" [] [.forceWrite, el S!"td" [] [.forceWrite], el S!"td" [] [.forceWrite],
            el S!"td" [] [.forceWrite]]]]] := by rfl
/-- a `w:gridSpan` that is not a number is a ValueError of the reader; the XML grid then has span 0 and is not valid -/
example : (match readElem {} 6 {} (.elem S!"w:tbl" []
      [.elem S!"w:tr" [] [c09x_tc [.elem S!"w:gridSpan" [(S!"w:val", S!"x")] []] []]]) with
    | .error (.value v) => some v | _ => none) = some S!"x" := by rfl
example : c09_validGrid (c09x_xmlGrid
    [.elem S!"w:tr" [] [c09x_tc [.elem S!"w:gridSpan" [(S!"w:val", S!"x")] []] []]]) = false := by decide +kernel

/-! ## 7. warnings, unmerged tables, the head/body split point, ignored tables (Proofs/C09_Ext7.lean) -/

/-- The warnings of `calculate_row_spans`, for every list of table children.  (a) If some child is not a row, the
    children are returned UNCHANGED with exactly the one "non-row" warning; (b) if all are rows but some row has a
    child that is not a cell, they are returned unchanged with exactly the one "non-cell" warning; (c) there is no
    message at all iff every child is a row all of whose children are cells (`c09e7_shape`). -/
theorem C09_rowspans_warnings (rows : List Elem) :
    (rows.all isRow = false → calculateRowSpans rows =
        (rows, [S!"unexpected non-row element in table, cell merging may be incorrect"])) ∧
    (rows.all isRow = true → (rows.all fun r => (rowCells r).all isCell) = false → calculateRowSpans rows =
        (rows, [S!"unexpected non-cell element in table row, cell merging may be incorrect"])) ∧
    ((calculateRowSpans rows).2 = [] ↔ c09e7_shape rows = true) :=
  ⟨(c09e7_cases rows).1, (c09e7_cases rows).2.1, c09e7_messages_nil_iff rows⟩

example : c09e7_shape (c09_toElems (fun i => i == 0) c09_ex) = true := by decide
example : calculateRowSpans [.row false [.cell 1 1 true []], .tab] =
    ([.row false [.cell 1 1 true []], .tab],
     [S!"unexpected non-row element in table, cell merging may be incorrect"]) := by rfl
example : calculateRowSpans [.row false [.cell 1 1 true [], .tab]] =
    ([.row false [.cell 1 1 true [], .tab]],
     [S!"unexpected non-cell element in table row, cell merging may be incorrect"]) := by rfl

/-- A table without vertical merges is left alone: if every child is a row whose children are all cells WITHOUT the
    continuation mark (`c09e7_plainRow`; any colspans, any rowspans already present, any contents, rows of any and
    unequal widths), `calculate_row_spans` returns exactly the same rows — no cell dropped, no rowspan changed — and
    no message.  In particular it is the identity on its own results. -/
theorem C09_rowspans_unmerged_identity (rows : List Elem) (h : rows.all c09e7_plainRow = true) :
    calculateRowSpans rows = (rows, []) :=
  c09e7_plain_identity rows h

example : [Elem.row true [.cell 2 3 false [.text S!"a"]], .row false [.cell 1 1 false [], .cell 1 5 false []]].all
    c09e7_plainRow = true := by decide
/-- the rows `calculate_row_spans` returns for the example grid are such rows -/
example : (calculateRowSpans (c09_toElems (fun i => i == 0) c09_ex)).1.all c09e7_plainRow = true := by decide

/-- The `thead`/`tbody` split point is decided by the document's header flags alone.  For every list of table
    children, `body_index` of what `calculate_row_spans` returns equals `body_index` of what it was given (dropping
    continuation cells never changes which rows are leading header rows); and for a grid `rows` with header flags
    `hdr` (any grid, well-formed or not) it is `c09e7_lead hdr 0 rows.length`, the number of consecutive row
    indices 0, 1, … below the number of rows at which `hdr` holds. -/
theorem C09_bodyIndex_rowspans (rows : List Elem) (hdr : Nat → Bool) (grid : List c09_Row) :
    bodyIndex (calculateRowSpans rows).1 = bodyIndex rows ∧
    bodyIndex (calculateRowSpans (c09_toElems hdr grid)).1 = c09e7_lead hdr 0 grid.length := by
  refine ⟨c09e7_bodyIndex_calculate rows, ?_⟩
  rw [c09e7_bodyIndex_calculate]
  exact c09e7_bodyIndex_toElemsFrom hdr grid 0

/-- header rows 0 and 1, then a body row, then a row flagged header again: only the leading two count -/
example : c09e7_lead (fun i => i != 2) 0 4 = 2 := by decide
example : bodyIndex (calculateRowSpans (c09_toElems (fun i => i != 2) (c09_ex ++ c09_ex))).1 = 2 := by rfl

/-- A table whose style mapping is `!` (ignore) produces no HTML node at all and its rows are never visited: the
    conversion is `pure []`, so it cannot fail and leaves the converter state (note numbering, comment references,
    messages, image calls) untouched, whatever the rows contain. -/
theorem C09_visit_table_ignored (cfg : Cfg) (hdr : Bool) (sid sname : Option Str) (rows : List Elem) (s : ConvState)
    (hpath : findPath cfg (.table sid sname) = some .ignore) :
    (visit cfg hdr (.table sid sname rows)).run s = .ok ([], s) := by
  rw [c09e7_visit_table_ignored cfg hdr sid sname rows hpath]
  rfl

example : findPath { styleMap := [⟨.table none none, .ignore⟩] } (.table none none) = some .ignore := by decide
/-- the note reference inside the ignored table is not counted; without the mapping it is -/
example : (((visit { styleMap := [⟨.table none none, .ignore⟩] } false
      (.table none none [.row false [.cell 1 1 false [.noteRef S!"footnote" S!"1"]]])).run {}).toOption.map
        fun p => (p.1, p.2.noteRefs)) = some ([], []) ∧
    (((visit {} false (.table none none [.row false [.cell 1 1 false [.noteRef S!"footnote" S!"1"]]])).run
        {}).toOption.map fun p => p.2.noteRefs) = some [(S!"footnote", S!"1")] := ⟨by rfl, by rfl⟩

#print axioms C09_rowspans_warnings
#print axioms C09_rowspans_unmerged_identity
#print axioms C09_bodyIndex_rowspans
#print axioms C09_visit_table_ignored

end Mammoth
