/-
  C02 — HTML output is well-formed and document strings never become markup.
  Property theorems only; definitions and helper lemmas live in
  Proofs/C02_Escape.lean (decoder `c02_unescape`, entity check `c02_ampsOk`),
  Proofs/C02_Tokens.lean (token model `c02_Tok`, `c02_tokens`, `c02_balanced`, `c02_coalesce`),
  Proofs/C02_Lexer.lean (strict lexer `c02_lexHtml`, hypothesis `c02_plainNames`),
  Proofs/C02_Sound.lean (canonical spelling `c02_render` of a token list; the lexer accepts only those).
-/
import Proofs.C02_Escape
import Proofs.C02_Tokens
import Proofs.C02_Lexer
import Proofs.C02_Sound
namespace Mammoth

/-! ## 1. escaping -/

/-- `_escape_html` acts character by character: `"`, `&`, `<`, `>` become `&quot; &amp; &lt; &gt;`
    and every other character is copied (read off the extracted table). -/
theorem C02_escapeChar_cases (c : Char) :
    escapeChar c =
      if c = '"' then S!"&quot;" else if c = '&' then S!"&amp;"
      else if c = '<' then S!"&lt;" else if c = '>' then S!"&gt;" else [c] :=
  c02_escapeChar_cases c

/-- An escaped string (of ANY input string) contains no `<`, no `>` and no `"`. -/
theorem C02_escape_safe (s : Str) : ∀ c ∈ escape s, c ≠ '<' ∧ c ≠ '>' ∧ c ≠ '"' :=
  c02_escape_safe s

/-- Decoding the four entities `&amp; &lt; &gt; &quot;` of an escaped string gives back exactly the
    original string, for ANY string (also one that already contains text like `&lt;`). -/
theorem C02_unescape_escape (s : Str) : c02_unescape (escape s) = s :=
  c02_unescape_escape s

/-- Every `&` in an escaped string is the first character of `&amp;`, `&lt;`, `&gt;` or `&quot;`. -/
theorem C02_escape_amp (s : Str) : c02_ampsOk (escape s) = true :=
  c02_ampsOk_escape s

/-- escaping is a homomorphism for concatenation (so it can be done piecewise) -/
theorem C02_escape_append (a b : Str) : escape (a ++ b) = escape a ++ escape b :=
  c02_escape_append a b

/-! ## 2. token model: balance and void elements -/

/-- The token stream of any forest obeys the stack discipline: every end tag closes the innermost
    open element and has its name, and nothing stays open (no hypothesis on the forest). -/
theorem C02_tokens_balanced (ns : List Node) : c02_balanced (c02_tokens ns) = true := by
  simp [c02_balanced, c02_balRun_tokens ns []]

/-- the same inside any context: the tokens of a forest leave the stack of open elements unchanged -/
theorem C02_tokens_stack_neutral (ns : List Node) (st : List Str) :
    c02_balRun (some st) (c02_tokens ns) = some st :=
  c02_balRun_tokens ns st

/-- `is_void`: no children and the name is one of `br hr img input`. -/
theorem C02_isVoid_iff (t : Tag) (cs : List Node) :
    isVoid t cs = true ↔ cs = [] ∧ t.name ∈ [S!"br", S!"hr", S!"img", S!"input"] := by
  simp [isVoid, voidNames, Generated.voidTagNames, List.isEmpty_iff]

/-- An element is written self-closed (`<name attrs />`, one `selfClose` token) if it is void, and
    as `<name attrs>` children `</name>` (start token, children's tokens, end token) otherwise;
    in particular it is written self-closed IFF it is void. -/
theorem C02_void_selfclosed (t : Tag) (cs : List Node) :
    (isVoid t cs = true →
        writeNode (.elem t cs) = ['<'] ++ t.name ++ attrString t.attrs ++ S!" />" ∧
        c02_tokensN (.elem t cs) = [.selfClose t.name t.attrs]) ∧
    (isVoid t cs = false →
        writeNode (.elem t cs)
          = ['<'] ++ t.name ++ attrString t.attrs ++ ['>'] ++ writeList cs ++ S!"</" ++ t.name ++ ['>'] ∧
        c02_tokensN (.elem t cs) = [.start t.name t.attrs] ++ c02_tokens cs ++ [.end t.name]) ∧
    ((∃ n as, c02_tokensN (.elem t cs) = [.selfClose n as]) ↔ isVoid t cs = true) := by
  refine ⟨?_, ?_, ?_⟩
  · intro h; simp [writeNode, c02_tokensN, h]
  · intro h; simp [writeNode, c02_tokensN, h]
  · by_cases h : isVoid t cs = true
    · simp [c02_tokensN, h]
    · simp [c02_tokensN, h]

/-! ## 3. the lexer round trip (main theorem) -/

/-- ROUND TRIP.  If every tag name and attribute key of the forest is a plain name (non-empty, no
    whitespace, none of `< > / = " &`), then the strict lexer — which accepts exactly
    `<name( key="escaped")*>`, `<name( key="escaped")* />`, `</name>` and escaped text, rejects a raw
    `<`, `>`, `"` or a `&` that is not one of the four entities, and decodes entities in text and in
    attribute values — accepts the written HTML and returns exactly the tokens of the forest, with
    adjacent text joined and empty text dropped.  Attribute values and text are arbitrary strings. -/
theorem C02_lex_write (ns : List Node) (hp : c02_plainNames ns = true) :
    c02_lexHtml (writeHtml ns) = some (c02_coalesce (c02_tokens ns)) := by
  simp [c02_lexHtml, writeHtml, c02_run_writeList ns hp, c02_coalesce]

/-- When the forest's token stream has no empty text and no two adjacent text nodes, the lexer
    returns the forest's tokens exactly (every single text node string is recovered). -/
theorem C02_lex_write_exact (ns : List Node) (hp : c02_plainNames ns = true)
    (hs : c02_textSeparated (c02_tokens ns) = true) :
    c02_lexHtml (writeHtml ns) = some (c02_tokens ns) := by
  rw [C02_lex_write ns hp, c02_coalesce_separated _ hs]

/-- WELL-FORMEDNESS.  The written HTML is in the strict grammar and its tags balance and nest. -/
theorem C02_written_wellformed (ns : List Node) (hp : c02_plainNames ns = true) :
    ∃ toks, c02_lexHtml (writeHtml ns) = some toks ∧ c02_balanced toks = true ∧
      c02_tokMarkup toks = c02_tokMarkup (c02_tokens ns) := by
  refine ⟨_, C02_lex_write ns hp, ?_, ?_⟩
  · rw [c02_balanced_coalesce]; exact C02_tokens_balanced ns
  · exact c02_tokMarkup_coalesce _

/-- THE LEXER IS EXACTLY THE GRAMMAR (soundness).  Whatever string the lexer accepts is literally the
    concatenation of the canonical spellings of the tokens it returns (`<name key="escaped"…>`,
    `</name>`, `<name … />`, escaped text): so in an accepted string every `<`, `>`, `"` is part of a
    tag and every `&` starts one of the four entities. -/
theorem C02_lex_sound (s : Str) (toks : List c02_Tok) (h : c02_lexHtml s = some toks) :
    s = c02_render toks :=
  c02_lexHtml_sound s toks h

/-- (completeness) every canonical spelling of plain-named tokens is accepted, and lexes to the
    tokens themselves up to joining adjacent text -/
theorem C02_lex_render (ts : List c02_Tok) (hp : ts.all c02_plainTok = true) :
    c02_lexHtml (c02_render ts) = some (c02_coalesce ts) :=
  c02_lexHtml_render ts hp

/-- the written HTML is the canonical spelling of the forest's (coalesced) token stream -/
theorem C02_written_is_render (ns : List Node) (hp : c02_plainNames ns = true) :
    writeHtml ns = c02_render (c02_coalesce (c02_tokens ns)) :=
  C02_lex_sound _ _ (C02_lex_write ns hp)

/-! ## 4. corollaries: the document's strings come back unchanged -/

/-- The strings recovered by the lexer are the originals, in order: the decoded attribute
    (key, value) pairs are exactly the forest's attribute pairs in document order, and the decoded
    text is exactly the forest's text. -/
theorem C02_strings_roundtrip (ns : List Node) (hp : c02_plainNames ns = true) :
    ∃ toks, c02_lexHtml (writeHtml ns) = some toks ∧
      c02_tokAttrs toks = c02_attrsOfL ns ∧ c02_tokText toks = textOfL ns := by
  refine ⟨_, C02_lex_write ns hp, ?_, ?_⟩
  · rw [c02_tokAttrs_coalesce, c02_tokAttrs_tokens]
  · rw [c02_tokText_coalesce, c02_tokText_tokens]

/-- (for C01) Stripping the tags of the written HTML and decoding the entities gives exactly the
    text content of the forest. -/
theorem C02_text_of_written (ns : List Node) (hp : c02_plainNames ns = true) :
    c02_htmlText (writeHtml ns) = textOfL ns := by
  simp [c02_htmlText, C02_lex_write ns hp, c02_tokText_coalesce, c02_tokText_tokens]

/-- one text node, any string: it lexes back to itself (and to nothing if empty) -/
theorem C02_text_node_roundtrip (s : Str) :
    c02_lexHtml (writeHtml [.text s]) = some (if s.isEmpty then [] else [.text s]) := by
  rw [C02_lex_write [.text s] (by simp [c02_plainNames, c02_plainNamesN])]
  simp [c02_coalesce, c02_feedStep, c02_flush]

/-! ## 5. examples -/

/-- a forest with hostile strings in text and attribute values, a void element, a non-void `br`
    (it has a child), adjacent text nodes, an empty text node and a force-write marker -/
def c02_example : List Node :=
  [ .elem { name := S!"p", attrs := [(S!"title", S!"\"><script>alert(1)</script>")] }
      [ .text S!"a < b && c > \"d\" &lt;", .forceWrite, .elem { name := S!"br" } [],
        .text S!"x", .text [], .text S!"&amp;y",
        .elem { name := S!"img", attrs := [(S!"alt", S!"&quot; <b>"), (S!"src", S!"x.png?a=1&b=2")] } [] ],
    .elem { name := S!"br" } [.text S!"not void"] ]

example : c02_plainNames c02_example = true := by decide

example : writeHtml c02_example =
    S!"<p title=\"&quot;&gt;&lt;script&gt;alert(1)&lt;/script&gt;\">a &lt; b &amp;&amp; c &gt; &quot;d&quot; &amp;lt;<br />x&amp;amp;y<img alt=\"&amp;quot; &lt;b&gt;\" src=\"x.png?a=1&amp;b=2\" /></p><br>not void</br>" := by
  rfl

set_option maxRecDepth 20000 in
example : c02_lexHtml (writeHtml c02_example) = some
    [ .start S!"p" [(S!"title", S!"\"><script>alert(1)</script>")],
      .text S!"a < b && c > \"d\" &lt;",
      .selfClose S!"br" [],
      .text S!"x&amp;y",
      .selfClose S!"img" [(S!"alt", S!"&quot; <b>"), (S!"src", S!"x.png?a=1&b=2")],
      .end S!"p",
      .start S!"br" [], .text S!"not void", .end S!"br" ] := by
  rfl

set_option maxRecDepth 20000 in
example : c02_htmlText (writeHtml c02_example) = S!"a < b && c > \"d\" &lt;x&amp;ynot void" := by rfl

example : c02_balanced (c02_tokens c02_example) = true := by decide

example : c02_unescape (escape S!"\"><script>&lt;&amp;") = S!"\"><script>&lt;&amp;" := by decide

-- the lexer is strict: raw markup characters, unknown or unterminated entities, unquoted values,
-- empty names and unfinished tags are rejected
example : c02_lexHtml S!"a<b" = none := by decide
example : c02_lexHtml S!"a > b" = none := by decide
example : c02_lexHtml S!"say \"hi\"" = none := by decide
example : c02_lexHtml S!"AT&T" = none := by decide
example : c02_lexHtml S!"&nbsp;" = none := by decide
example : c02_lexHtml S!"<a href=x>" = none := by decide
example : c02_lexHtml S!"<a href=\"<\">" = none := by decide
example : c02_lexHtml S!"<>" = none := by decide
example : c02_lexHtml S!"<br/>" = none := by decide
-- ... and it does not check balance itself (that is `c02_balanced`'s job)
example : c02_lexHtml S!"<a></b>" = some [.start S!"a" [], .end S!"b"] := by decide
example : c02_balanced [.start S!"a" [], .end S!"b"] = false := by decide
example : c02_balanced [.start S!"a" [], .start S!"b" [], .end S!"a", .end S!"b"] = false := by decide


-- the hypothesis `c02_plainNames` is needed: the writer copies tag names and attribute keys verbatim
-- (they come from the style map and from library constants, never from the document)
example : writeHtml [.elem { name := S!"p><script" } []] = S!"<p><script></p><script>" := by rfl
example : c02_plainNames [.elem { name := S!"p><script" } []] = false := by decide

end Mammoth
