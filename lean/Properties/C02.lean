/-
  C02 — HTML output is well-formed and document strings never become markup.
  Property theorems only; definitions and helper lemmas live in
  Proofs/C02_Escape.lean (decoder `c02_unescape`, entity check `c02_ampsOk`),
  Proofs/C02_Tokens.lean (token model `c02_Tok`, `c02_tokens`, `c02_balanced`, `c02_coalesce`),
  Proofs/C02_Lexer.lean (strict lexer `c02_lexHtml`, hypothesis `c02_plainNames`),
  Proofs/C02_Sound.lean (canonical spelling `c02_render` of a token list; the lexer accepts only those),
  Proofs/C02_Subst.lean (substitutions `c02_Sub`, `c02_mapForest`, `c02_mapStrings`; they commute with
    `strip_empty` and `collapse`), Proofs/C02_Shape.lean (`c02_shape`, `c02_skeleton`, substituted tokens),
  Proofs/C02_AllTags.lean (tag predicates survive `strip_empty`/`collapse`; plain names),
  Proofs/C02_SubstLocal.lean (per-forest, decidable hypotheses `c02_subOkOn`),
  Proofs/C02_ConvertNames.lean (the converter emits plain names: `c02_plainCfg`),
  Proofs/C02_DocSubst.lean, Proofs/C02_DocSubstVisit.lean (text runs of the document are never inspected).
-/
import Proofs.C02_Escape
import Proofs.C02_Tokens
import Proofs.C02_Lexer
import Proofs.C02_Sound
import Proofs.C02_Subst
import Proofs.C02_Shape
import Proofs.C02_AllTags
import Proofs.C02_SubstLocal
import Proofs.C02_ConvertNames
import Proofs.C02_DocSubstVisit
import Proofs.C08_DefaultMap
import Proofs.Pins
namespace Mammoth

/-! ## 1. escaping -/

/-- `_escape_html` acts character by character: `"`, `&`, `<`, `>` become `&quot; &amp; &lt; &gt;`
    and every other character is copied (read off the extracted table). -/
theorem C02_escapeChar_cases (c : Char) :
    escapeChar c =
      if c = '"' then S!"&quot;" else if c = '&' then S!"&amp;"
      else if c = '<' then S!"&lt;" else if c = '>' then S!"&gt;" else [c] :=
  c02_escapeChar_cases c

/-- An escaped string (of ANY input string) contains no `<`, no `>` and no `"`. -/
theorem C02_escape_safe (s : Str) : ∀ c ∈ escape s, c ≠ '<' ∧ c ≠ '>' ∧ c ≠ '"' :=
  c02_escape_safe s

/-- Decoding the four entities `&amp; &lt; &gt; &quot;` of an escaped string gives back exactly the
    original string, for ANY string (also one that already contains text like `&lt;`). -/
theorem C02_unescape_escape (s : Str) : c02_unescape (escape s) = s :=
  c02_unescape_escape s

/-- Every `&` in an escaped string is the first character of `&amp;`, `&lt;`, `&gt;` or `&quot;`. -/
theorem C02_escape_amp (s : Str) : c02_ampsOk (escape s) = true :=
  c02_ampsOk_escape s

/-- escaping is a homomorphism for concatenation (so it can be done piecewise) -/
theorem C02_escape_append (a b : Str) : escape (a ++ b) = escape a ++ escape b :=
  c02_escape_append a b

/-! ## 2. token model: balance and void elements -/

/-- The token stream of any forest obeys the stack discipline: every end tag closes the innermost
    open element and has its name, and nothing stays open (no hypothesis on the forest). -/
theorem C02_tokens_balanced (ns : List Node) : c02_balanced (c02_tokens ns) = true := by
  simp [c02_balanced, c02_balRun_tokens ns []]

/-- the same inside any context: the tokens of a forest leave the stack of open elements unchanged -/
theorem C02_tokens_stack_neutral (ns : List Node) (st : List Str) :
    c02_balRun (some st) (c02_tokens ns) = some st :=
  c02_balRun_tokens ns st

/-- `is_void`: no children and the name is one of `br hr img input`. -/
theorem C02_isVoid_iff (t : Tag) (cs : List Node) :
    isVoid t cs = true ↔ cs = [] ∧ t.name ∈ [S!"br", S!"hr", S!"img", S!"input"] := by
  simp [isVoid, voidNames, Generated.voidTagNames, List.isEmpty_iff]

/-- An element is written self-closed (`<name attrs />`, one `selfClose` token) if it is void, and
    as `<name attrs>` children `</name>` (start token, children's tokens, end token) otherwise;
    in particular it is written self-closed IFF it is void. -/
theorem C02_void_selfclosed (t : Tag) (cs : List Node) :
    (isVoid t cs = true →
        writeNode (.elem t cs) = ['<'] ++ t.name ++ attrString t.attrs ++ S!" />" ∧
        c02_tokensN (.elem t cs) = [.selfClose t.name t.attrs]) ∧
    (isVoid t cs = false →
        writeNode (.elem t cs)
          = ['<'] ++ t.name ++ attrString t.attrs ++ ['>'] ++ writeList cs ++ S!"</" ++ t.name ++ ['>'] ∧
        c02_tokensN (.elem t cs) = [.start t.name t.attrs] ++ c02_tokens cs ++ [.end t.name]) ∧
    ((∃ n as, c02_tokensN (.elem t cs) = [.selfClose n as]) ↔ isVoid t cs = true) := by
  refine ⟨?_, ?_, ?_⟩
  · intro h; simp [writeNode, c02_tokensN, h]
  · intro h; simp [writeNode, c02_tokensN, h]
  · by_cases h : isVoid t cs = true
    · simp [c02_tokensN, h]
    · simp [c02_tokensN, h]

/-! ## 3. the lexer round trip (main theorem) -/

/-- ROUND TRIP.  If every tag name and attribute key of the forest is a plain name (non-empty, no
    whitespace, none of `< > / = " &`), then the strict lexer — which accepts exactly
    `<name( key="escaped")*>`, `<name( key="escaped")* />`, `</name>` and escaped text, rejects a raw
    `<`, `>`, `"` or a `&` that is not one of the four entities, and decodes entities in text and in
    attribute values — accepts the written HTML and returns exactly the tokens of the forest, with
    adjacent text joined and empty text dropped.  Attribute values and text are arbitrary strings. -/
theorem C02_lex_write (ns : List Node) (hp : c02_plainNames ns = true) :
    c02_lexHtml (writeHtml ns) = some (c02_coalesce (c02_tokens ns)) := by
  simp [c02_lexHtml, writeHtml, c02_run_writeList ns hp, c02_coalesce]

/-- When the forest's token stream has no empty text and no two adjacent text nodes, the lexer
    returns the forest's tokens exactly (every single text node string is recovered). -/
theorem C02_lex_write_exact (ns : List Node) (hp : c02_plainNames ns = true)
    (hs : c02_textSeparated (c02_tokens ns) = true) :
    c02_lexHtml (writeHtml ns) = some (c02_tokens ns) := by
  rw [C02_lex_write ns hp, c02_coalesce_separated _ hs]

/-- WELL-FORMEDNESS.  The written HTML is in the strict grammar and its tags balance and nest. -/
theorem C02_written_wellformed (ns : List Node) (hp : c02_plainNames ns = true) :
    ∃ toks, c02_lexHtml (writeHtml ns) = some toks ∧ c02_balanced toks = true ∧
      c02_tokMarkup toks = c02_tokMarkup (c02_tokens ns) := by
  refine ⟨_, C02_lex_write ns hp, ?_, ?_⟩
  · rw [c02_balanced_coalesce]; exact C02_tokens_balanced ns
  · exact c02_tokMarkup_coalesce _

/-- THE LEXER IS EXACTLY THE GRAMMAR (soundness).  Whatever string the lexer accepts is literally the
    concatenation of the canonical spellings of the tokens it returns (`<name key="escaped"…>`,
    `</name>`, `<name … />`, escaped text): so in an accepted string every `<`, `>`, `"` is part of a
    tag and every `&` starts one of the four entities. -/
theorem C02_lex_sound (s : Str) (toks : List c02_Tok) (h : c02_lexHtml s = some toks) :
    s = c02_render toks :=
  c02_lexHtml_sound s toks h

/-- (completeness) every canonical spelling of plain-named tokens is accepted, and lexes to the
    tokens themselves up to joining adjacent text -/
theorem C02_lex_render (ts : List c02_Tok) (hp : ts.all c02_plainTok = true) :
    c02_lexHtml (c02_render ts) = some (c02_coalesce ts) :=
  c02_lexHtml_render ts hp

/-- the written HTML is the canonical spelling of the forest's (coalesced) token stream -/
theorem C02_written_is_render (ns : List Node) (hp : c02_plainNames ns = true) :
    writeHtml ns = c02_render (c02_coalesce (c02_tokens ns)) :=
  C02_lex_sound _ _ (C02_lex_write ns hp)

/-! ## 4. corollaries: the document's strings come back unchanged -/

/-- The strings recovered by the lexer are the originals, in order: the decoded attribute
    (key, value) pairs are exactly the forest's attribute pairs in document order, and the decoded
    text is exactly the forest's text. -/
theorem C02_strings_roundtrip (ns : List Node) (hp : c02_plainNames ns = true) :
    ∃ toks, c02_lexHtml (writeHtml ns) = some toks ∧
      c02_tokAttrs toks = c02_attrsOfL ns ∧ c02_tokText toks = textOfL ns := by
  refine ⟨_, C02_lex_write ns hp, ?_, ?_⟩
  · rw [c02_tokAttrs_coalesce, c02_tokAttrs_tokens]
  · rw [c02_tokText_coalesce, c02_tokText_tokens]

/-- (for C01) Stripping the tags of the written HTML and decoding the entities gives exactly the
    text content of the forest. -/
theorem C02_text_of_written (ns : List Node) (hp : c02_plainNames ns = true) :
    c02_htmlText (writeHtml ns) = textOfL ns := by
  simp [c02_htmlText, C02_lex_write ns hp, c02_tokText_coalesce, c02_tokText_tokens]

/-- one text node, any string: it lexes back to itself (and to nothing if empty) -/
theorem C02_text_node_roundtrip (s : Str) :
    c02_lexHtml (writeHtml [.text s]) = some (if s.isEmpty then [] else [.text s]) := by
  rw [C02_lex_write [.text s] (by simp [c02_plainNames, c02_plainNamesN])]
  simp [c02_coalesce, c02_feedStep, c02_flush]

/-! ## 5. examples -/

/-- a forest with hostile strings in text and attribute values, a void element, a non-void `br`
    (it has a child), adjacent text nodes, an empty text node and a force-write marker -/
def c02_example : List Node :=
  [ .elem { name := S!"p", attrs := [(S!"title", S!"\"><script>alert(1)</script>")] }
      [ .text S!"a < b && c > \"d\" &lt;", .forceWrite, .elem { name := S!"br" } [],
        .text S!"x", .text [], .text S!"&amp;y",
        .elem { name := S!"img", attrs := [(S!"alt", S!"&quot; <b>"), (S!"src", S!"x.png?a=1&b=2")] } [] ],
    .elem { name := S!"br" } [.text S!"not void"] ]

example : c02_plainNames c02_example = true := by decide

example : writeHtml c02_example =
    S!"<p title=\"&quot;&gt;&lt;script&gt;alert(1)&lt;/script&gt;\">a &lt; b &amp;&amp; c &gt; &quot;d&quot; &amp;lt;<br />x&amp;amp;y<img alt=\"&amp;quot; &lt;b&gt;\" src=\"x.png?a=1&amp;b=2\" /></p><br>not void</br>" := by
  rfl

set_option maxRecDepth 20000 in
example : c02_lexHtml (writeHtml c02_example) = some
    [ .start S!"p" [(S!"title", S!"\"><script>alert(1)</script>")],
      .text S!"a < b && c > \"d\" &lt;",
      .selfClose S!"br" [],
      .text S!"x&amp;y",
      .selfClose S!"img" [(S!"alt", S!"&quot; <b>"), (S!"src", S!"x.png?a=1&b=2")],
      .end S!"p",
      .start S!"br" [], .text S!"not void", .end S!"br" ] := by
  rfl

set_option maxRecDepth 20000 in
example : c02_htmlText (writeHtml c02_example) = S!"a < b && c > \"d\" &lt;x&amp;ynot void" := by rfl

example : c02_balanced (c02_tokens c02_example) = true := by decide

example : c02_unescape (escape S!"\"><script>&lt;&amp;") = S!"\"><script>&lt;&amp;" := by decide

-- the lexer is strict: raw markup characters, unknown or unterminated entities, unquoted values,
-- empty names and unfinished tags are rejected
example : c02_lexHtml S!"a<b" = none := by decide
example : c02_lexHtml S!"a > b" = none := by decide
example : c02_lexHtml S!"say \"hi\"" = none := by decide
example : c02_lexHtml S!"AT&T" = none := by decide
example : c02_lexHtml S!"&nbsp;" = none := by decide
example : c02_lexHtml S!"<a href=x>" = none := by decide
example : c02_lexHtml S!"<a href=\"<\">" = none := by decide
example : c02_lexHtml S!"<>" = none := by decide
example : c02_lexHtml S!"<br/>" = none := by decide
-- ... and it does not check balance itself (that is `c02_balanced`'s job)
example : c02_lexHtml S!"<a></b>" = some [.start S!"a" [], .end S!"b"] := by decide
example : c02_balanced [.start S!"a" [], .end S!"b"] = false := by decide
example : c02_balanced [.start S!"a" [], .start S!"b" [], .end S!"a", .end S!"b"] = false := by decide


-- the hypothesis `c02_plainNames` is needed: the writer copies tag names and attribute keys verbatim
-- (they come from the style map and from library constants, never from the document)
example : writeHtml [.elem { name := S!"p><script" } []] = S!"<p><script></p><script>" := by rfl
example : c02_plainNames [.elem { name := S!"p><script" } []] = false := by decide

/-! ## 6. substitution invariance on forests

A substitution `σ : c02_Sub` replaces every string of a forest: `σ.text` is applied to the string of
every text node and to every separator, `σ.attr k` to the value of every attribute named `k`
(`c02_mapForest σ`); tag names, alternative names, attribute names, their order and the collapsible
flags are left alone.  `c02_mapStrings σ` is the special case of one function `σ : Str → Str` used
everywhere.  Hypotheses (they quantify over strings, so they are `Prop`s, not `Bool`s; the examples
below discharge them for concrete substitutions, and section 7 gives the decidable, per-forest form):
`σ.TextOk`: `σ.text s` is empty iff `s` is;  `σ.AttrInj`: each `σ.attr k` is injective. -/

/-- `strip_empty` commutes with substitution, provided text stays empty / non-empty. -/
theorem C02_strip_subst (σ : c02_Sub) (ht : σ.TextOk) (ns : List Node) :
    stripEmpty (c02_mapForest σ ns) = c02_mapForest σ (stripEmpty ns) :=
  c02_stripEmpty_map σ ht ns

/-- `collapse` commutes with substitution, provided distinct values of an attribute stay distinct
    (`_is_match` compares the attribute dictionaries) and separators stay empty / non-empty
    (`if node.separator:`). -/
theorem C02_collapse_subst (σ : c02_Sub) (ht : σ.TextOk) (ha : σ.AttrInj) (ns : List Node) :
    collapse (c02_mapForest σ ns) = c02_mapForest σ (collapse ns) :=
  c02_collapse_map σ ht ha ns

/-- Hence the forest that is written for the substituted input is the substituted forest that is
    written for the original input. -/
theorem C02_render_forest_subst (σ : c02_Sub) (ht : σ.TextOk) (ha : σ.AttrInj) (ns : List Node) :
    collapse (stripEmpty (c02_mapForest σ ns)) = c02_mapForest σ (collapse (stripEmpty ns)) := by
  rw [c02_stripEmpty_map σ ht, c02_collapse_map σ ht ha]

/-- SHAPE INVARIANCE.  The written forest of the substituted input has the same shape — tag names,
    attribute names in order, nesting, positions of text leaves — as that of the original input. -/
theorem C02_shape_subst (σ : c02_Sub) (ht : σ.TextOk) (ha : σ.AttrInj) (ns : List Node) :
    c02_shape (collapse (stripEmpty (c02_mapForest σ ns))) = c02_shape (collapse (stripEmpty ns)) :=
  c02_shape_subst σ ht ha ns

/-- The token stream of a substituted forest is the image of the token stream (no hypothesis): tags
    keep their names and attribute names, void elements stay void. -/
theorem C02_tokens_subst (σ : c02_Sub) (ns : List Node) :
    c02_tokens (c02_mapForest σ ns) = (c02_tokens ns).map (c02_mapTok σ) :=
  c02_tokens_map σ ns

/-- WRITTEN FORM.  For a forest with plain names, the HTML rendered for the original and for the
    substituted forest both lex; the two token lists have the same skeleton (tags, attribute names,
    nesting, places of text); the tags of the second are exactly the images of the tags of the first
    (attribute values replaced by their substitutes); and both balance. -/
theorem C02_render_subst (σ : c02_Sub) (ht : σ.TextOk) (ha : σ.AttrInj) (ns : List Node)
    (hp : c02_plainNames ns = true) :
    ∃ toks toks', c02_lexHtml (render ns) = some toks ∧
      c02_lexHtml (render (c02_mapForest σ ns)) = some toks' ∧
      c02_skeleton toks' = c02_skeleton toks ∧
      c02_tokMarkup toks' = (c02_tokMarkup toks).map (c02_mapTok σ) ∧
      c02_balanced toks = true ∧ c02_balanced toks' = true := by
  have hp1 := c02_plainNames_render ns hp
  have hp2 : c02_plainNames (c02_mapForest σ (collapse (stripEmpty ns))) = true := by
    rw [c02_plainNames_map]; exact hp1
  refine ⟨c02_coalesce (c02_tokens (collapse (stripEmpty ns))),
    c02_coalesce ((c02_tokens (collapse (stripEmpty ns))).map (c02_mapTok σ)),
    C02_lex_write _ hp1, ?_, ?_, ?_, ?_, ?_⟩
  · show c02_lexHtml (writeHtml (collapse (stripEmpty (c02_mapForest σ ns)))) = _
    rw [C02_render_forest_subst σ ht ha, C02_lex_write _ hp2, c02_tokens_map]
  · exact c02_skeleton_coalesce_map σ ht _
  · exact c02_tokMarkup_coalesce_map σ _
  · rw [c02_balanced_coalesce]; exact C02_tokens_balanced _
  · rw [c02_balanced_coalesce, ← c02_tokens_map]; exact C02_tokens_balanced _

/-- WRITTEN FORM, exact.  If in addition the written forest has no two adjacent text nodes (and no
    empty one), the token list of the substituted rendering is literally the image of the token list
    of the original rendering: every text and every attribute value is replaced by its substitute
    and nothing else changes. -/
theorem C02_render_subst_exact (σ : c02_Sub) (ht : σ.TextOk) (ha : σ.AttrInj) (ns : List Node)
    (hp : c02_plainNames ns = true)
    (hs : c02_textSeparated (c02_tokens (collapse (stripEmpty ns))) = true) :
    ∃ toks, c02_lexHtml (render ns) = some toks ∧
      c02_lexHtml (render (c02_mapForest σ ns)) = some (toks.map (c02_mapTok σ)) := by
  have hp1 := c02_plainNames_render ns hp
  have hp2 : c02_plainNames (c02_mapForest σ (collapse (stripEmpty ns))) = true := by
    rw [c02_plainNames_map]; exact hp1
  refine ⟨_, C02_lex_write_exact _ hp1 hs, ?_⟩
  show c02_lexHtml (writeHtml (collapse (stripEmpty (c02_mapForest σ ns)))) = _
  rw [C02_render_forest_subst σ ht ha, C02_lex_write_exact _ hp2, c02_tokens_map]
  rw [c02_tokens_map, c02_textSeparated_map σ ht]; exact hs

/-! ### one function for all strings -/

/-- a function that is injective and fixes the empty string keeps non-empty strings non-empty -/
theorem C02_uniform_ok (σ : Str → Str) (hi : ∀ a b, σ a = σ b → a = b) (h0 : σ [] = []) :
    (c02_Sub.uniform σ).TextOk ∧ (c02_Sub.uniform σ).AttrInj := by
  refine ⟨?_, fun _ a b h => hi a b h⟩
  intro s
  cases s with
  | nil => show (σ []).isEmpty = _; rw [h0]
  | cons c cs =>
    show (σ (c :: cs)).isEmpty = false
    cases h : σ (c :: cs) with
    | nil => exact absurd (hi _ _ (h.trans h0.symm)) (by simp)
    | cons _ _ => rfl

/-- SHAPE INVARIANCE for `mapStrings σ`, `σ` injective with `σ "" = ""` (so that non-empty strings
    stay non-empty): replacing every text, attribute value and separator `s` by `σ s` changes no tag,
    attribute name or nesting of the written forest. -/
theorem C02_mapStrings_shape (σ : Str → Str) (hi : ∀ a b, σ a = σ b → a = b) (h0 : σ [] = [])
    (ns : List Node) :
    c02_shape (collapse (stripEmpty (c02_mapStrings σ ns))) = c02_shape (collapse (stripEmpty ns)) :=
  c02_shape_subst _ (C02_uniform_ok σ hi h0).1 (C02_uniform_ok σ hi h0).2 ns

/-- ... and the written forest itself is the `σ`-image of the original written forest -/
theorem C02_mapStrings_render_forest (σ : Str → Str) (hi : ∀ a b, σ a = σ b → a = b) (h0 : σ [] = [])
    (ns : List Node) :
    collapse (stripEmpty (c02_mapStrings σ ns)) = c02_mapStrings σ (collapse (stripEmpty ns)) :=
  C02_render_forest_subst _ (C02_uniform_ok σ hi h0).1 (C02_uniform_ok σ hi h0).2 ns

/-! ### examples -/

/-- hostile replacement: every non-empty string gets `"><script>` in front (injective, fixes `""`) -/
def c02_exSigma (s : Str) : Str := if s.isEmpty then [] else S!"\"><script>" ++ s

theorem c02_exSigma_inj (a b : Str) (h : c02_exSigma a = c02_exSigma b) : a = b := by
  unfold c02_exSigma at h
  cases a <;> cases b <;> simp_all

/-- two collapsible links with the same target (they merge), a paragraph that is stripped, a
    separator, an empty text node -/
def c02_exForest : List Node :=
  [ .elem { name := S!"a", attrs := [(S!"href", S!"u?x=1&y=2")], collapsible := true } [.text S!"one"],
    .elem { name := S!"a", attrs := [(S!"href", S!"u?x=1&y=2")], collapsible := true, separator := some S!", " }
      [.text S!"two"],
    .elem { name := S!"a", attrs := [(S!"href", S!"other")], collapsible := true } [.text S!"three"],
    .elem { name := S!"p" } [.text []],
    .elem { name := S!"img", attrs := [(S!"alt", S!"A & B"), (S!"src", S!"x.png")] } [] ]

example : c02_plainNames c02_exForest = true := by decide

example : render c02_exForest =
    S!"<a href=\"u?x=1&amp;y=2\">one, two</a><a href=\"other\">three</a><img alt=\"A &amp; B\" src=\"x.png\" />" := by
  rfl

set_option maxRecDepth 20000 in
example : render (c02_mapStrings c02_exSigma c02_exForest) =
    S!"<a href=\"&quot;&gt;&lt;script&gt;u?x=1&amp;y=2\">&quot;&gt;&lt;script&gt;one&quot;&gt;&lt;script&gt;, &quot;&gt;&lt;script&gt;two</a><a href=\"&quot;&gt;&lt;script&gt;other\">&quot;&gt;&lt;script&gt;three</a><img alt=\"&quot;&gt;&lt;script&gt;A &amp; B\" src=\"&quot;&gt;&lt;script&gt;x.png\" />" := by
  rfl

example : c02_shape (collapse (stripEmpty (c02_mapStrings c02_exSigma c02_exForest)))
    = c02_shape (collapse (stripEmpty c02_exForest)) :=
  C02_mapStrings_shape _ c02_exSigma_inj rfl _

example : c02_shape (collapse (stripEmpty c02_exForest)) =
    [ .elem S!"a" [S!"href"] [.text, .text, .text], .elem S!"a" [S!"href"] [.text],
      .elem S!"img" [S!"alt", S!"src"] [] ] := by rfl

/-- a substitution with different functions: text is blanked to `"x"`, attribute values are reversed -/
def c02_exSub : c02_Sub := ⟨fun s => if s.isEmpty then [] else S!"x", fun _ v => v.reverse⟩

theorem c02_exSub_ok : c02_exSub.TextOk ∧ c02_exSub.AttrInj := by
  refine ⟨fun s => ?_, fun _ a b h => List.reverse_inj.mp h⟩
  cases s <;> simp [c02_exSub]

example : ∃ toks toks', c02_lexHtml (render c02_exForest) = some toks ∧
      c02_lexHtml (render (c02_mapForest c02_exSub c02_exForest)) = some toks' ∧
      c02_skeleton toks' = c02_skeleton toks ∧
      c02_tokMarkup toks' = (c02_tokMarkup toks).map (c02_mapTok c02_exSub) ∧
      c02_balanced toks = true ∧ c02_balanced toks' = true :=
  C02_render_subst _ c02_exSub_ok.1 c02_exSub_ok.2 _ (by decide)

set_option maxRecDepth 20000 in
example : (c02_lexHtml (render (c02_mapForest c02_exSub c02_exForest))).map c02_skeleton = some
    [ .start S!"a" [S!"href"], .text, .end S!"a", .start S!"a" [S!"href"], .text, .end S!"a",
      .selfClose S!"img" [S!"alt", S!"src"] ] := by rfl

/-- two links with different targets and a void element between text -/
def c02_cexLinks' : List Node :=
  [ .elem { name := S!"a", attrs := [(S!"href", S!"u1")], collapsible := true } [.text S!"1"],
    .elem { name := S!"a", attrs := [(S!"href", S!"u2")], collapsible := true }
      [.text S!"2", .elem { name := S!"br" } [], .text S!"3"] ]

-- the commutation laws, evaluated on the example (both sides computed by the kernel)
example : stripEmpty (c02_mapForest c02_exSub c02_exForest) = c02_mapForest c02_exSub (stripEmpty c02_exForest) :=
  C02_strip_subst _ c02_exSub_ok.1 _
example : collapse (c02_mapForest c02_exSub (stripEmpty c02_exForest))
    = c02_mapForest c02_exSub (collapse (stripEmpty c02_exForest)) :=
  C02_collapse_subst _ c02_exSub_ok.1 c02_exSub_ok.2 _
example : collapse (stripEmpty (c02_mapForest c02_exSub c02_exForest)) =
    [ .elem { name := S!"a", attrs := [(S!"href", S!"2=y&1=x?u")], collapsible := true }
        [.text S!"x", .text S!"x", .text S!"x"],
      .elem { name := S!"a", attrs := [(S!"href", S!"rehto")], collapsible := true } [.text S!"x"],
      .elem { name := S!"img", attrs := [(S!"alt", S!"B & A"), (S!"src", S!"gnp.x")] } [] ] := by rfl

-- `C02_render_subst_exact`: a forest whose written form has no adjacent text nodes
example : c02_plainNames c02_cexLinks' = true ∧
    c02_textSeparated (c02_tokens (collapse (stripEmpty c02_cexLinks'))) = true := by decide
example : ∃ toks, c02_lexHtml (render c02_cexLinks') = some toks ∧
    c02_lexHtml (render (c02_mapForest c02_exSub c02_cexLinks')) = some (toks.map (c02_mapTok c02_exSub)) :=
  C02_render_subst_exact _ c02_exSub_ok.1 c02_exSub_ok.2 _ (by decide) (by decide)

/-! ### each hypothesis is needed -/

/-- NOT INJECTIVE on attribute values: two links with different targets are kept apart, but after
    replacing both targets by the same string `collapse` merges them (one `<a>` instead of two). -/
def c02_cexLinks : List Node :=
  [ .elem { name := S!"a", attrs := [(S!"href", S!"u1")], collapsible := true } [.text S!"1"],
    .elem { name := S!"a", attrs := [(S!"href", S!"u2")], collapsible := true } [.text S!"2"] ]
def c02_cexConst (s : Str) : Str := if s.isEmpty then [] else S!"x"

example : (c02_Sub.uniform c02_cexConst).TextOk := by intro s; cases s <;> simp [c02_Sub.uniform, c02_cexConst]
example : render c02_cexLinks = S!"<a href=\"u1\">1</a><a href=\"u2\">2</a>" := by rfl
example : render (c02_mapStrings c02_cexConst c02_cexLinks) = S!"<a href=\"x\">xx</a>" := by rfl
example : c02_shape (collapse (stripEmpty c02_cexLinks))
    = [.elem S!"a" [S!"href"] [.text], .elem S!"a" [S!"href"] [.text]] := by rfl
example : c02_shape (collapse (stripEmpty (c02_mapStrings c02_cexConst c02_cexLinks)))
    = [.elem S!"a" [S!"href"] [.text, .text]] := by rfl
example : c02_skeleton (c02_tokens (collapse (stripEmpty (c02_mapStrings c02_cexConst c02_cexLinks))))
    ≠ c02_skeleton (c02_tokens (collapse (stripEmpty c02_cexLinks))) := by decide

/-- A NON-EMPTY TEXT BECOMES EMPTY (attribute values untouched, so `AttrInj` holds): the paragraph
    is stripped. -/
def c02_cexBlank : c02_Sub := ⟨fun _ => [], fun _ v => v⟩
example : c02_cexBlank.AttrInj := fun _ _ _ h => h
example : render [.elem { name := S!"p" } [.text S!"a"]] = S!"<p>a</p>" := by rfl
example : render (c02_mapForest c02_cexBlank [.elem { name := S!"p" } [.text S!"a"]]) = [] := by rfl
example : c02_shape (collapse (stripEmpty (c02_mapForest c02_cexBlank [.elem { name := S!"p" } [.text S!"a"]])))
    = [] := by rfl

/-- THE EMPTY TEXT BECOMES NON-EMPTY (`σ s = "x" ++ s` is injective and keeps non-empty strings
    non-empty, but `σ "" ≠ ""`): a paragraph that was stripped now appears. -/
def c02_cexPrefix (s : Str) : Str := 'x' :: s
example : ∀ a b, c02_cexPrefix a = c02_cexPrefix b → a = b := by intro a b h; simpa [c02_cexPrefix] using h
example : ∀ s, s ≠ [] → c02_cexPrefix s ≠ [] := by intro s _; simp [c02_cexPrefix]
example : render [.elem { name := S!"p" } [.text []]] = [] := by rfl
example : render (c02_mapStrings c02_cexPrefix [.elem { name := S!"p" } [.text []]]) = S!"<p>x</p>" := by rfl

/-- A NON-EMPTY SEPARATOR BECOMES EMPTY: the merged element loses a text leaf. -/
def c02_cexSep : List Node :=
  [ .elem { name := S!"pre", collapsible := true } [.text S!"1"],
    .elem { name := S!"pre", collapsible := true, separator := some S!"\n" } [.text S!"2"] ]
def c02_cexSepSub : c02_Sub := ⟨fun s => if s = S!"\n" then [] else s, fun _ v => v⟩
example : c02_shape (collapse (stripEmpty c02_cexSep)) = [.elem S!"pre" [] [.text, .text, .text]] := by rfl
example : c02_shape (collapse (stripEmpty (c02_mapForest c02_cexSepSub c02_cexSep)))
    = [.elem S!"pre" [] [.text, .text]] := by rfl

/-! ## 7. substitution invariance, hypotheses checked on the forest only

`c02_subOkOn σ ns` is the decidable form of the hypotheses of section 6, restricted to the strings
that occur in `ns`: every text/separator string of `ns` stays empty or non-empty under `σ.text`,
and any two DIFFERENT values that `ns` gives to the same attribute name get different substitutes
("distinct for distinct originals").  Nothing is asked of `σ` on other strings. -/

/-- EXTENSION.  A substitution that is good on the strings of `ns` acts on `ns` exactly like some
    substitution that is good on all strings (so every theorem of section 6 applies to it). -/
theorem C02_subst_extend (σ : c02_Sub) (ns : List Node) (h : c02_subOkOn σ ns = true) :
    ∃ τ : c02_Sub, τ.TextOk ∧ τ.AttrInj ∧ c02_mapForest σ ns = c02_mapForest τ ns ∧
      (∀ s ∈ c02_texts ns, τ.text s = σ.text s) ∧
      (∀ p ∈ c02_attrsOfL ns, τ.attr p.1 p.2 = σ.attr p.1 p.2) :=
  c02_subOkOn_extend σ ns h

/-- SHAPE INVARIANCE, per-forest hypotheses. -/
theorem C02_shape_subst_local (σ : c02_Sub) (ns : List Node) (h : c02_subOkOn σ ns = true) :
    c02_shape (collapse (stripEmpty (c02_mapForest σ ns))) = c02_shape (collapse (stripEmpty ns)) :=
  c02_shape_subst_local σ ns h

/-- WRITTEN FORM, per-forest hypotheses: both renderings lex, to token lists with the same skeleton
    (same tags, attribute names, nesting and text places), and both balance. -/
theorem C02_render_subst_local (σ : c02_Sub) (ns : List Node) (h : c02_subOkOn σ ns = true)
    (hp : c02_plainNames ns = true) :
    ∃ toks toks', c02_lexHtml (render ns) = some toks ∧
      c02_lexHtml (render (c02_mapForest σ ns)) = some toks' ∧
      c02_skeleton toks' = c02_skeleton toks ∧
      c02_balanced toks = true ∧ c02_balanced toks' = true := by
  obtain ⟨τ, ht, ha, he, _, _⟩ := c02_subOkOn_extend σ ns h
  obtain ⟨toks, toks', h1, h2, h3, _, h5, h6⟩ := C02_render_subst τ ht ha ns hp
  exact ⟨toks, toks', h1, by rw [he]; exact h2, h3, h5, h6⟩

/-- a finite substitution given by a table (strings not in the table are left alone) -/
def c02_exTable (tbl : List (Str × Str)) (s : Str) : Str :=
  match tbl.find? (fun p => p.1 == s) with
  | some p => p.2
  | none => s

/-- texts and targets of `c02_exForest` replaced by hostile strings; the two equal targets get the
    same substitute, the third target a different one -/
def c02_exLocalSub : c02_Sub :=
  c02_Sub.uniform (c02_exTable
    [ (S!"one", S!"</a>"), (S!"two", S!"<a>"), (S!"three", S!"&"), (S!", ", S!"\""),
      (S!"u?x=1&y=2", S!"\" onclick=\""), (S!"other", S!"javascript:alert(1)"),
      (S!"A & B", S!"<b>"), (S!"x.png", S!"y.png") ])

example : c02_subOkOn c02_exLocalSub c02_exForest = true := by decide

set_option maxRecDepth 20000 in
example : render (c02_mapForest c02_exLocalSub c02_exForest) =
    S!"<a href=\"&quot; onclick=&quot;\">&lt;/a&gt;&quot;&lt;a&gt;</a><a href=\"javascript:alert(1)\">&amp;</a><img alt=\"&lt;b&gt;\" src=\"y.png\" />" := by
  rfl

example : c02_shape (collapse (stripEmpty (c02_mapForest c02_exLocalSub c02_exForest)))
    = c02_shape (collapse (stripEmpty c02_exForest)) :=
  C02_shape_subst_local _ _ (by decide)

-- the per-forest check fails for the counterexamples of section 6
example : c02_subOkOn (c02_Sub.uniform c02_cexConst) c02_cexLinks = false := by decide
example : c02_subOkOn c02_cexBlank [.elem { name := S!"p" } [.text S!"a"]] = false := by decide
example : c02_subOkOn (c02_Sub.uniform c02_cexPrefix) [.elem { name := S!"p" } [.text []]] = false := by decide
example : c02_subOkOn c02_cexSepSub c02_cexSep = false := by decide

/-! ## 8. the converter produces plain names only

`c02_plainCfg cfg`: every tag of every style-map path has a plain name and plain attribute names
(`c02_plainMap`), and the attribute names returned by the image converter are plain
(`c02_plainConv`; `data_uri` returns `src` only).  All other names in the output are the literals of
conversion.py / images.py: `p s sub sup em strong a input table thead tbody tr th td br img li ol dl
dt dd` and `href target type checked colspan rowspan alt src data-len id`. -/

/-- Every tag name and attribute name produced by `visit` (any element, any state) is plain. -/
theorem C02_visit_plain_names (cfg : Cfg) (h : c02_plainCfg cfg = true) (hdr : Bool) (e : Elem)
    (st st' : ConvState) (ns : List Node) (hr : visit cfg hdr e st = .ok (ns, st')) :
    c02_plainNames ns = true := by
  simp only [c02_plainCfg, Bool.and_eq_true] at h
  exact c02_plain_visit cfg h.1 h.2 hdr e st ns st' hr

/-- Every tag name and attribute name in the forest produced for a whole document — body, notes,
    comments, the trailing `ol` and `dl` — is plain, for every document. -/
theorem C02_convert_plain_names (cfg : Cfg) (h : c02_plainCfg cfg = true) (d : Document) (r : ConvResult)
    (hr : convertDoc cfg d = .ok r) : c02_plainNames r.nodes = true :=
  c02_plain_convertDoc cfg h d r hr

/-- WELL-FORMEDNESS OF REAL CONVERSIONS.  For every document and every configuration with plain
    names, the returned HTML (`render` of the produced forest) is in the strict grammar, its tags
    balance and nest, and the attribute values and the text decode to exactly the strings of the
    written forest. -/
theorem C02_convert_wellformed (cfg : Cfg) (h : c02_plainCfg cfg = true) (d : Document) (r : ConvResult)
    (hr : convertDoc cfg d = .ok r) :
    ∃ toks, c02_lexHtml (render r.nodes) = some toks ∧ c02_balanced toks = true ∧
      c02_tokAttrs toks = c02_attrsOfL (collapse (stripEmpty r.nodes)) ∧
      c02_tokText toks = textOfL (collapse (stripEmpty r.nodes)) := by
  have hp := c02_plainNames_render _ (C02_convert_plain_names cfg h d r hr)
  obtain ⟨toks, h1, h2, h3⟩ := C02_strings_roundtrip _ hp
  refine ⟨toks, h1, ?_, h2, h3⟩
  obtain ⟨toks', h1', h2', _⟩ := C02_written_wellformed _ hp
  have : toks = toks' := Option.some.inj (h1.symm.trans h1')
  rw [this]; exact h2'

/-- SUBSTITUTION INVARIANCE OF REAL CONVERSIONS (forest level).  Replacing the strings of the
    produced forest by others (good on that forest) changes no tag, attribute name or nesting of the
    returned HTML. -/
theorem C02_convert_subst (cfg : Cfg) (h : c02_plainCfg cfg = true) (d : Document) (r : ConvResult)
    (hr : convertDoc cfg d = .ok r) (σ : c02_Sub) (hσ : c02_subOkOn σ r.nodes = true) :
    ∃ toks toks', c02_lexHtml (render r.nodes) = some toks ∧
      c02_lexHtml (render (c02_mapForest σ r.nodes)) = some toks' ∧
      c02_skeleton toks' = c02_skeleton toks ∧
      c02_balanced toks = true ∧ c02_balanced toks' = true :=
  C02_render_subst_local σ r.nodes hσ (C02_convert_plain_names cfg h d r hr)

/-- a style map with attributes and a separator, a custom image converter -/
def c02_exCfg : Cfg :=
  { styleMap :=
      [ { matcher := .paragraph (some S!"Code") none none,
          path := .elements [ { name := S!"pre", attrs := [(S!"class", S!"code <x>")], collapsible := true,
                                separator := some S!"\n" } ] },
        { matcher := .bold, path := .elements [ { name := S!"b", collapsible := true } ] },
        { matcher := .commentReference, path := .elements [pathElem S!"sup" false] } ],
    idPrefix := S!"doc-\"1\"-",
    imageConv := .fixed [(S!"src", S!"a&b.png"), (S!"class", S!"im\"g")] false }

def c02_exDoc : Document :=
  { children :=
      [ .paragraph { styleId := some S!"Code" } [.text S!"if a < b && c:"],
        .paragraph { styleId := some S!"Code" } [.text S!"  print(\"<&>\")"],
        .paragraph {} [ .bookmark (some S!"top\"><"), .run { bold := true } [.text S!"x"],
                        .run { bold := true } [.text S!"y", .noteRef S!"footnote" S!"1"],
                        .hyperlink { href := some S!"http://e.x/?a=1&b=\"2\"" } [.text S!"link"],
                        .image { altText := some S!"<alt>", src := .linked S!"z.png" },
                        .commentRef S!"c\"0" ],
        .table none none [ .row false [.cell 2 1 false [.paragraph {} [.text S!"cell"]]] ] ],
    notes := [ { ty := S!"footnote", id := S!"1", body := [.paragraph {} [.text S!"note & more"]] } ],
    comments := [ { id := S!"c\"0", body := [.paragraph {} [.text S!"why?"]], authorInitials := some S!"<A>" } ] }

example : c02_plainCfg c02_exCfg = true := by decide

set_option maxRecDepth 100000 in
example : (convertDoc c02_exCfg c02_exDoc).map (fun r => render r.nodes) = .ok
    S!"<pre class=\"code &lt;x&gt;\">if a &lt; b &amp;&amp; c:\n  print(&quot;&lt;&amp;&gt;&quot;)</pre><p><a id=\"doc-&quot;1&quot;-top&quot;&gt;&lt;\"></a><b>xy<sup><a href=\"#doc-&quot;1&quot;-footnote-1\" id=\"doc-&quot;1&quot;-footnote-ref-1\">[1]</a></sup></b><a href=\"http://e.x/?a=1&amp;b=&quot;2&quot;\">link</a><img alt=\"&lt;alt&gt;\" class=\"im&quot;g\" src=\"a&amp;b.png\" /><sup><a href=\"#doc-&quot;1&quot;-comment-c&quot;0\" id=\"doc-&quot;1&quot;-comment-ref-c&quot;0\">[&lt;A&gt;1]</a></sup></p><table><tr><td colspan=\"2\"><p>cell</p></td></tr></table><ol><li id=\"doc-&quot;1&quot;-footnote-1\"><p>note &amp; more <a href=\"#doc-&quot;1&quot;-footnote-ref-1\">↑</a></p></li></ol><dl><dt id=\"doc-&quot;1&quot;-comment-c&quot;0\">Comment [&lt;A&gt;1]</dt><dd><p>why? <a href=\"#doc-&quot;1&quot;-comment-ref-c&quot;0\">↑</a></p></dd></dl>" := by
  rfl

/-- the default style map (`options._default_style_map`, parsed by the model's DSL parser) and the
    default image converter have plain names: the theorems above apply to conversions with default
    options, for every document -/
theorem C02_default_cfg_plain (cfg : Cfg) (hs : cfg.styleMap = defaultStyleMap) (hi : cfg.imageConv = .dataUri) :
    c02_plainCfg cfg = true := by
  simp only [c02_plainCfg, c02_plainMap, hs, hi, c08_default_map_value, c02_plainConv, Bool.and_true]
  decide

-- `C02_convert_subst` on the example: all strings of the produced forest reversed
set_option maxRecDepth 100000 in
example : (convertDoc c02_exCfg c02_exDoc).map (fun r => c02_subOkOn (c02_Sub.uniform List.reverse) r.nodes)
    = .ok true := by rfl

-- the hypothesis is needed: names from the style map and from the image converter are copied verbatim
example : (convertDoc { styleMap := [ { matcher := .bold, path := .elements [pathElem S!"b><script" false] } ] }
      { children := [.run { bold := true } [.text S!"x"]] }).map (fun r => render r.nodes)
    = .ok S!"<b><script>x</b><script>" := by rfl
example : c02_plainCfg { styleMap := [ { matcher := .bold, path := .elements [pathElem S!"b><script" false] } ] }
    = false := by decide
example : (convertDoc { imageConv := .fixed [(S!"src=\"\" onerror", S!"alert(1)")] false }
      { children := [.image { src := .linked S!"z.png" }] }).map (fun r => render r.nodes)
    = .ok S!"<img src=\"\" onerror=\"alert(1)\" />" := by rfl
example : c02_plainCfg { imageConv := .fixed [(S!"src=\"\" onerror", S!"alert(1)")] false } = false := by decide

/-- ... and the style-map language itself does NOT guarantee plain names: a backslash escapes any
    character inside a tag name, so `b => em\>\<script` is read as the tag name `em><script` (the
    real parser does the same; the output is `<p><em><script>1</em><script></p>`).  Plainness of the
    style map's names is a genuine hypothesis about the (trusted) options. -/
example : (readStyleMap S!"b => em\\>\\<script").1 =
    [ { matcher := .bold, path := .elements [ { name := S!"em><script", collapsible := true } ] } ] := by
  decide +kernel
example : c02_plainCfg { styleMap := (readStyleMap S!"b => em\\>\\<script").1 } = false := by decide +kernel

/-! ## 9. substitution in the document: text runs

`c02_mapDocText σ d` applies `σ` to the string of every text run (`documents.Text.value`) of the
body, of every note and of every comment of `d`; nothing else is touched.  Hypothesis on `σ`: a text
is empty iff its substitute is (no injectivity is needed: the converter never compares text).
NOT covered: the strings that end up in attribute values (link targets, anchor and bookmark names,
alt text, ids, `id_prefix`) — for those see `C02_convert_subst` (forest level) and the
counterexample at the end of this section — and style ids / style names, which the converter
legitimately inspects to choose the style mapping. -/

/-- The converter does not look at text: on the substituted document the conversion raises the same
    error, or succeeds with the same warnings, the same image-converter calls, the same I/O and the
    same note references, and a forest that differs from the original one only in the strings of
    its text leaves (`c02_BR`: equal after blanking every non-empty text). -/
theorem C02_convert_text_subst (σ : Str → Str) (hσ : ∀ s, (σ s).isEmpty = s.isEmpty) (cfg : Cfg)
    (d : Document) : c02_sameUpToText (convertDoc cfg d) (convertDoc cfg (c02_mapDocText σ d)) :=
  c02_convertDoc_mapText σ hσ cfg d

/-- Forests that differ only in the strings of their text leaves are written with the same shape;
    more precisely the written forests again differ only in the strings of their text leaves. -/
theorem C02_blank_render (ns ns' : List Node) (h : c02_BR ns ns') :
    c02_BR (collapse (stripEmpty ns)) (collapse (stripEmpty ns')) ∧
    c02_shape (collapse (stripEmpty ns')) = c02_shape (collapse (stripEmpty ns)) := by
  have e := fun ms => C02_render_forest_subst c02_blankSub c02_blankSub_textOk c02_blankSub_attrInj ms
  have h1 : c02_BR (collapse (stripEmpty ns)) (collapse (stripEmpty ns')) := by
    show c02_mapForest c02_blankSub _ = c02_mapForest c02_blankSub _
    rw [← e, ← e]
    exact congrArg (fun x => collapse (stripEmpty x)) h
  refine ⟨h1, ?_⟩
  rw [← c02_shape_map c02_blankSub (collapse (stripEmpty ns')), ← c02_shape_map c02_blankSub (collapse (stripEmpty ns))]
  exact congrArg c02_shape h1

/-- SUBSTITUTION INVARIANCE FOR TEXT RUNS, shape.  If the conversion of `d` succeeds, so does the
    conversion of the substituted document, with the same messages, and the written forests have the
    same shape. -/
theorem C02_convert_text_shape (σ : Str → Str) (hσ : ∀ s, (σ s).isEmpty = s.isEmpty) (cfg : Cfg)
    (d : Document) (r : ConvResult) (h : convertDoc cfg d = .ok r) :
    ∃ r', convertDoc cfg (c02_mapDocText σ d) = .ok r' ∧ r'.messages = r.messages ∧
      c02_shape (collapse (stripEmpty r'.nodes)) = c02_shape (collapse (stripEmpty r.nodes)) := by
  have hs := C02_convert_text_subst σ hσ cfg d
  rw [h] at hs
  cases h' : convertDoc cfg (c02_mapDocText σ d) with
  | error e => rw [h'] at hs; exact hs.elim
  | ok r' =>
    rw [h'] at hs
    exact ⟨r', rfl, hs.2.1, (C02_blank_render _ _ hs.1).2⟩

/-- SUBSTITUTION INVARIANCE FOR TEXT RUNS, written form.  With plain names in the options, both
    HTML results lex; the tags of the two token lists are literally the same (names, attribute
    names AND attribute values, order), and the skeletons (tags and places of text) are the same. -/
theorem C02_convert_text_written (σ : Str → Str) (hσ : ∀ s, (σ s).isEmpty = s.isEmpty) (cfg : Cfg)
    (hc : c02_plainCfg cfg = true) (d : Document) (r : ConvResult) (h : convertDoc cfg d = .ok r) :
    ∃ r' toks toks', convertDoc cfg (c02_mapDocText σ d) = .ok r' ∧
      c02_lexHtml (render r.nodes) = some toks ∧ c02_lexHtml (render r'.nodes) = some toks' ∧
      c02_tokMarkup toks' = c02_tokMarkup toks ∧ c02_skeleton toks' = c02_skeleton toks := by
  have hs := C02_convert_text_subst σ hσ cfg d
  rw [h] at hs
  cases h' : convertDoc cfg (c02_mapDocText σ d) with
  | error e => rw [h'] at hs; exact hs.elim
  | ok r' =>
    rw [h'] at hs
    have hb := (C02_blank_render _ _ hs.1).1
    have hp := c02_plainNames_render _ (C02_convert_plain_names cfg hc d r h)
    have hp' := c02_plainNames_render _ (C02_convert_plain_names cfg hc _ r' h')
    refine ⟨r', _, _, rfl, C02_lex_write _ hp, C02_lex_write _ hp', ?_, ?_⟩
    · have e := congrArg (fun x => c02_tokMarkup (c02_tokens x)) hb
      simp only [c02_blank, c02_tokens_map] at e
      rw [c02_tokMarkup_coalesce, c02_tokMarkup_coalesce]
      have idm : ∀ ts : List c02_Tok, c02_tokMarkup (ts.map (c02_mapTok c02_blankSub)) = c02_tokMarkup ts := by
        intro ts
        have ida : ∀ as : List (Str × Str), c02_mapAttrs c02_blankSub.attr as = as := by
          intro as
          induction as with
          | nil => rfl
          | cons kv r ih => obtain ⟨k, v⟩ := kv; simp only [c02_mapAttrs, ih]; rfl
        induction ts with
        | nil => rfl
        | cons t ts ih => cases t <;> simp [c02_tokMarkup, c02_mapTok, ih, ida]
      rw [idm, idm] at e
      exact e
    · have e := congrArg (fun x => c02_skeleton (c02_coalesce (c02_tokens x))) hb
      simp only [c02_blank, c02_tokens_map, c02_skeleton_coalesce_map c02_blankSub c02_blankSub_textOk] at e
      exact e

/-- the hostile replacement of section 6 keeps empty / non-empty apart -/
theorem c02_exSigma_ok (s : Str) : (c02_exSigma s).isEmpty = s.isEmpty := by
  cases s <;> simp [c02_exSigma]

set_option maxRecDepth 100000 in
example : (convertDoc c02_exCfg (c02_mapDocText c02_exSigma c02_exDoc)).map (fun r => render r.nodes) = .ok
    S!"<pre class=\"code &lt;x&gt;\">&quot;&gt;&lt;script&gt;if a &lt; b &amp;&amp; c:\n&quot;&gt;&lt;script&gt;  print(&quot;&lt;&amp;&gt;&quot;)</pre><p><a id=\"doc-&quot;1&quot;-top&quot;&gt;&lt;\"></a><b>&quot;&gt;&lt;script&gt;x&quot;&gt;&lt;script&gt;y<sup><a href=\"#doc-&quot;1&quot;-footnote-1\" id=\"doc-&quot;1&quot;-footnote-ref-1\">[1]</a></sup></b><a href=\"http://e.x/?a=1&amp;b=&quot;2&quot;\">&quot;&gt;&lt;script&gt;link</a><img alt=\"&lt;alt&gt;\" class=\"im&quot;g\" src=\"a&amp;b.png\" /><sup><a href=\"#doc-&quot;1&quot;-comment-c&quot;0\" id=\"doc-&quot;1&quot;-comment-ref-c&quot;0\">[&lt;A&gt;1]</a></sup></p><table><tr><td colspan=\"2\"><p>&quot;&gt;&lt;script&gt;cell</p></td></tr></table><ol><li id=\"doc-&quot;1&quot;-footnote-1\"><p>&quot;&gt;&lt;script&gt;note &amp; more <a href=\"#doc-&quot;1&quot;-footnote-ref-1\">↑</a></p></li></ol><dl><dt id=\"doc-&quot;1&quot;-comment-c&quot;0\">Comment [&lt;A&gt;1]</dt><dd><p>&quot;&gt;&lt;script&gt;why? <a href=\"#doc-&quot;1&quot;-comment-ref-c&quot;0\">↑</a></p></dd></dl>" := by
  rfl

example : c02_sameUpToText (convertDoc c02_exCfg c02_exDoc) (convertDoc c02_exCfg (c02_mapDocText c02_exSigma c02_exDoc)) :=
  C02_convert_text_subst _ c02_exSigma_ok _ _

/-- the hypothesis is needed: blanking a non-empty run makes its paragraph disappear -/
example : (convertDoc {} { children := [.paragraph {} [.text S!"a"]] }).map (fun r => render r.nodes)
    = .ok S!"<p>a</p>" := by rfl
example : (convertDoc {} (c02_mapDocText (fun _ => []) { children := [.paragraph {} [.text S!"a"]] })).map
    (fun r => render r.nodes) = .ok [] := by rfl

/-! ### attribute strings: the document-level statement is FALSE as literally worded

An external link target `#pa` and the internal anchor `a` are different document strings, but with
`id_prefix = "p"` both become the attribute value `#pa`, so the two adjacent links collapse into
one.  Replacing the anchor name by another string (distinct originals still get distinct
substitutes) separates them: the nesting changes.  The real library does the same (checked:
`<p><a href="#pa">12</a></p>` versus `<p><a href="#pa">1</a><a href="#pb">2</a></p>`).  The forest
level theorem `C02_convert_subst` is the correct form: what must stay distinct are the attribute
VALUES of the produced forest. -/
def c02_cexAnchorDoc (anchor : Str) : Document :=
  { children := [ .paragraph {} [ .hyperlink { href := some S!"#pa" } [.run {} [.text S!"1"]],
                                  .hyperlink { anchor := some anchor } [.run {} [.text S!"2"]] ] ] }

example : (convertDoc { idPrefix := S!"p" } (c02_cexAnchorDoc S!"a")).map (fun r => render r.nodes)
    = .ok S!"<p><a href=\"#pa\">12</a></p>" := by rfl
example : (convertDoc { idPrefix := S!"p" } (c02_cexAnchorDoc S!"b")).map (fun r => render r.nodes)
    = .ok S!"<p><a href=\"#pa\">1</a><a href=\"#pb\">2</a></p>" := by rfl

/-- The tables of the library that this property's theorems consume (regenerated from /repo's source on this run) still have the
    content the model was validated against: the behaviour of the HTML escape on the characters it replaces; the void tag names.  An edit of one of them in the library changes model and code
    alike; it is this theorem that then no longer checks (`Proofs/Pins.lean`). -/
theorem C02_tables_as_validated :
    (Generated.escapeTable = pin_escapeTable) ∧
    (Generated.voidTagNames = pin_voidTagNames) :=
  ⟨pins_escapeTable, pins_voidTagNames⟩

end Mammoth
