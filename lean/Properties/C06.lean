/-
  C06 — every style mapping the documented syntax can express means what it says.

  `c06_Mapping` (Proofs/C06_Syntax.lean) is an abstract syntax of mappings with ARBITRARY strings as
  style ids, style names, colours, tag names, class names, attribute names/values and separators.
  `c06_print` writes a mapping as text (escaping what has to be escaped), `c06_tokens` is the token
  list the text is meant to have, `c06_denote` is the `Style` the mapping is meant to be.
  The `Bool` argument of `c06_tokens`/`c06_print` says whether a blank is written after `=>`.
  `c06_expressible` : identifiers are non-empty; a list level is ≥ 1 and its decimal form has at most
  4300 digits (CPython's `int(str)` limit, which the parser would turn into an exception).
-/
import Proofs.C06_Parse
import Proofs.C06_Chain
import Proofs.C06_Meaning
import Proofs.C06_Ext7
namespace Mammoth

/-! ### 1. escapes -/

/-- Decoding the identifier form of ANY string gives the string back. -/
theorem C06_decode_printIdent (s : Str) : decodeEscapes (c06_printIdent s) = s :=
  c06_decode_printIdent s

/-- Decoding the text between the quotes of the quoted form of ANY string gives the string back. -/
theorem C06_decode_printString (s : Str) : decodeEscapes (c06_stringBody s) = s :=
  c06_decode_stringBody s

/-- …and `value[1:-1]` of the quoted form is exactly that text, so `parse_string` returns `s`. -/
theorem C06_parseString_print (s : Str) (ts : List Token) :
    parseString (⟨.string, c06_printString s⟩ :: ts) = some (s, ts) :=
  c06_parseString_str s ts

/-! ### 2. the lexer at token boundaries -/

/-- A printed non-empty identifier followed by text that does not start with a letter, digit, `-`,
    `_` or backslash is matched by the IDENTIFIER rule exactly up to its end. -/
theorem C06_lexIdent_print (s rest : Str) (hs : s ≠ []) (h : c06_stop rest = true) :
    lexIdent (c06_printIdent s ++ rest) = some (c06_printIdent s, rest) :=
  c06_lexIdent_print s rest hs h

/-- A printed string followed by ANY text is matched by the STRING rule exactly up to its closing
    quote (never as an unterminated string). -/
theorem C06_lexString_print (s rest : Str) :
    lexString (c06_printString s ++ rest) = some (.string, c06_printString s, rest) :=
  c06_lexString_print s rest

/-- Each of the twelve symbols is matched as itself (and not as an identifier), provided that `=`
    is not followed by `>`. -/
theorem C06_lexSymbol_print (v rest : Str) (hv : v ∈ c06_symbols)
    (h : v = ['='] → c06_headNe (· == '>') rest = true) :
    lexIdent (v ++ rest) = none ∧ lexSymbol (v ++ rest) = some (v, rest) :=
  c06_lexSymbol_of v rest hv h

/-- The decimal form of a number followed by a non-digit is matched by the INTEGER rule, and reading
    it back gives the number. -/
theorem C06_lexInt_print (n : Nat) (rest : Str) (h : c06_headNe isDigit rest = true) :
    lexInt (c06_printNat n ++ rest) = some (c06_printNat n, rest) ∧ digitsToNat (c06_printNat n) = n :=
  ⟨c06_lexInt_print n rest (by intro c t e; subst e; simpa [c06_headNe] using h), c06_digitsToNat_printNat n⟩

/-- A token list whose every token is what `lexOne` produces at its position tokenises to itself. -/
theorem C06_tokenise_chain (ts : List Token) (h : c06_chain ts []) :
    tokenise (c06_text ts) = some (ts ++ [⟨.end, []⟩]) :=
  c06_tokenise_chain ts h

/-- Tokenising the printed text of ANY expressible mapping gives exactly the intended tokens
    followed by END. -/
theorem C06_tokenise_print (sp : Bool) (m : c06_Mapping) (hok : c06_expressible m = true) :
    tokenise (c06_print sp m) = some (c06_tokens sp m ++ [⟨.end, []⟩]) :=
  c06_tokenise_print sp m hok

/-! ### 3. the parser on the intended tokens -/

/-- The document-matcher parser reads the matcher tokens as the intended matcher and stops there
    (whatever follows, as long as it is not a symbol). -/
theorem C06_parse_matcher_tokens (m : c06_Matcher) (rest : List Token) (hok : c06_matcherOK m = true)
    (h : c06_headNoSym rest = true) :
    parseDocumentMatcher (c06_matcherToks m ++ rest) = some (c06_denoteMatcher m, rest) :=
  c06_parse_matcher m rest hok h

/-- The HTML-path parser reads the path tokens as the intended path; fuel = number of tokens is
    enough. -/
theorem C06_parse_path_tokens (p : c06_Path) (f : Nat) (hf : (c06_pathToks p).length ≤ f) :
    parseHtmlPath f (c06_pathToks p ++ [⟨.end, []⟩]) = some (c06_denotePath p, [⟨.end, []⟩]) :=
  c06_parse_path p f _ hf rfl

/-- Parsing the intended token list of ANY expressible mapping gives the intended style. -/
theorem C06_parse_tokens (sp : Bool) (m : c06_Mapping) (hok : c06_expressible m = true) :
    parseStyleMapping (c06_tokens sp m ++ [⟨.end, []⟩]) = some (c06_denote m) :=
  c06_parse_tokens sp m hok

/-! ### 4. reading the printed text -/

/-- MAIN: reading the text of ANY expressible mapping yields the mapping it says: no payload
    character — `>`, `|`, `=>`, quotes, backslashes, blanks, line breaks, leading digits, non-ASCII —
    can change the structure or the payload. -/
theorem C06_read_print (sp : Bool) (m : c06_Mapping) (hok : c06_expressible m = true) :
    readStyleMapping (c06_print sp m) = some (c06_denote m) := by
  unfold readStyleMapping
  rw [C06_tokenise_print sp m hok]
  exact C06_parse_tokens sp m hok

/-- Hence printing is injective up to meaning: two expressible mappings with the same text denote
    the same style. -/
theorem C06_print_injective (sp sp' : Bool) (m m' : c06_Mapping) (h : c06_expressible m = true)
    (h' : c06_expressible m' = true) (e : c06_print sp m = c06_print sp' m') :
    c06_denote m = c06_denote m' := by
  have := C06_read_print sp m h
  rw [e, C06_read_print sp' m' h'] at this
  exact (Option.some.inj this).symm

/-! ### 5. what the denoted style means -/

/-- A written paragraph matcher matches a paragraph iff the style id is equal (when given), the
    style name is equal / a prefix after upper-casing (when given), and the numbering is the written
    list type with level index `str(n-1)` (when given). -/
theorem C06_denote_matches_paragraph (upper : Str → Str) (sid : Option Str) (sn : Option StrMatch)
    (num : Option c06_Level) (p : ParaProps) :
    matcherMatches upper (c06_denoteMatcher (.paragraph sid sn num)) (.paragraph p) = true ↔
      (∀ v, sid = some v → p.styleId = some v) ∧
      c06_nameSpec upper sn p.styleName ∧
      (∀ l, num = some l → p.numbering = some ⟨natToStr (l.n - 1), l.ordered⟩) := by
  rw [c06_matches_paragraph]
  cases sid <;> cases num <;> simp [c06_idSpec, c06_numSpec]

/-- Complete description for every matcher kind and every target (`c06_matchSpec`): same kind, and
    the written conditions hold; in particular `br[type='page']` matches page breaks only and
    `highlight[color='x']` matches highlight `x` only. -/
theorem C06_denote_matches (upper : Str → Str) (m : c06_Matcher) (t : Target) :
    matcherMatches upper (c06_denoteMatcher m) t = true ↔ c06_matchSpec upper m t :=
  c06_matches_spec upper m t

/-- `.a.b` gives the single attribute `class="a b"`. -/
theorem C06_class_accumulate (a b : Str) (ha : a ≠ []) :
    buildAttrs [] [.cls a, .cls b] = [(S!"class", a ++ [' '] ++ b)] := by
  have := c06_classes_acc [b] a ha
  simpa [buildAttrs, Dict.get?, Dict.insert, c06_spaced] using this

/-- Any number of class names (the first non-empty) accumulate, in order, blank-separated, into one
    `class` attribute. -/
theorem C06_classes_accumulate (c : Str) (cs : List Str) (hc : c ≠ []) :
    buildAttrs [] ((c :: cs).map .cls) = [(S!"class", joinWith [' '] (c :: cs))] := by
  rw [c06_joinWith_cons]
  simpa [buildAttrs, Dict.get?, Dict.insert] using c06_classes_acc cs c hc

/-- The value of any attribute of the element is the left-to-right scan `c06_attrSpec`: explicit
    attributes overwrite (last wins, also for `class`), classes append to a non-empty `class`. -/
theorem C06_attr_value (k : Str) (e : c06_Elem) :
    Dict.get? k (c06_denoteElem e).attrs = c06_attrSpec k none e.events := by
  simpa [c06_denoteElem, Dict.get?] using c06_buildAttrs_get k e.events []

/-! ### 6. examples (hostile payloads) -/

/-- identifiers containing `>`, `|`, `=>`, a quote, a blank, a leading digit, a dot; strings
    containing `'`, `\`, a newline -/
def c06_ex1 : c06_Mapping :=
  ⟨.paragraph (some S!"a>b|c=>1'") (some (.equalTo S!"it's \\ new\nline")) (some ⟨true, 12⟩),
   .elems [⟨S!"1h", [S!"x y"], [.cls S!"a.b", .attr S!"data-x" S!"q'", .cls S!"c"], true, some S!"\n"⟩,
           ⟨S!"li", [], [], false, none⟩]⟩

example : c06_expressible c06_ex1 = true := by decide

example : c06_print true c06_ex1 =
    S!"p.a\\>b\\|c\\=\\>1\\'[style-name='it\\'s \\\\ new\\nline']:ordered-list(12) => \\1h|x\\ y.a\\.b[data-x='q\\''].c:fresh:separator('\\n') > li" := by
  decide

example : readStyleMapping (c06_print true c06_ex1) = some (c06_denote c06_ex1) :=
  C06_read_print true c06_ex1 (by decide)

example : (c06_denote c06_ex1).path = .elements
    [{ name := S!"1h", alts := [S!"x y"], attrs := [(S!"class", S!"a.b c"), (S!"data-x", S!"q'")],
       collapsible := false, separator := some S!"\n" },
     { name := S!"li", collapsible := true }] := by decide

def c06_ex2 : c06_Mapping :=
  ⟨.run none (some (.startsWith S!"a'b\\")), .elems [⟨S!"span", [], [.cls S!"x", .attr S!"class" S!"y"], false, none⟩]⟩

example : c06_print false c06_ex2 = S!"r[style-name^='a\\'b\\\\'] =>span.x[class='y']" := by decide

/-- evaluated directly by the model (no theorem involved) -/
example : readStyleMapping S!"r[style-name^='a\\'b\\\\'] =>span.x[class='y']" =
    some ⟨.run none (some (.startsWith S!"a'b\\")),
          .elements [{ name := S!"span", attrs := [(S!"class", S!"y")], collapsible := true }]⟩ := by decide

example : readStyleMapping S!"br[type='page'] => !" = some ⟨.brk S!"page", .ignore⟩ := by decide

example : decodeEscapes (c06_printIdent S!"9>|=>'\\ \n\tné") = S!"9>|=>'\\ \n\tné" := by decide
example : c06_printIdent S!"9>|=>'\\ \n\tné" = S!"\\9\\>\\|\\=\\>\\'\\\\\\ \\n\\tn\\é" := by decide
example : c06_printString S!"'\\\n x" = S!"'\\'\\\\\\n x'" := by decide

/-! ### 7. the printed text as a line of a style map; attribute keys; list levels -/

/-- The printed text of ANY mapping (expressible or not, whatever the payloads) contains no raw line break:
    every `\n` of a payload is written as backslash-`n`, so the text is ONE line of a style map. -/
theorem C06_print_one_line (sp : Bool) (m : c06_Mapping) : '\n' ∉ c06_print sp m :=
  c06x7_nl_print sp m

example : '\n' ∈ (S!"it's \\ new\nline" : Str) ∧ '\n' ∉ c06_print true c06_ex1 :=
  ⟨by decide, C06_print_one_line true c06_ex1⟩

/-- The style-map reader (`_read_style_map`: split at line breaks, trim, drop blank and `#` lines, read each
    line) applied to the printed text of ANY expressible mapping that trimming leaves alone (i.e. whose last
    identifier does not end in an escaped white-space character — the restriction named in the property) yields
    exactly that one mapping, with the written meaning, and no warning: payload `\n`, `#`, blanks never split
    the line, turn it into a comment or drop it. -/
theorem C06_readStyleMap_print (sp : Bool) (m : c06_Mapping) (hok : c06_expressible m = true)
    (hstrip : strip (c06_print sp m) = c06_print sp m) :
    readStyleMap (c06_print sp m) = ([c06_denote m], []) := by
  obtain ⟨c, r, hcr, hc⟩ := c06x7_print_head sp m
  have hl : styleLines (c06_print sp m) = [c06_print sp m] := by
    simp only [styleLines, c06x7_split_one _ (c06x7_nl_print sp m), List.map, hstrip]
    rw [hcr]
    simp [startsWith, hc]
  simp [readStyleMap, hl, C06_read_print sp m hok, unique, uniqueAux]

example : c06_expressible c06_ex1 = true ∧ strip (c06_print true c06_ex1) = c06_print true c06_ex1 := by
  decide

example : readStyleMap (c06_print true c06_ex1) = ([c06_denote c06_ex1], []) :=
  C06_readStyleMap_print true c06_ex1 (by decide) (by decide)

/-- the hypothesis is needed: an identifier ending in an escaped blank is cut by the trimming and the line
    then reads as a different mapping (class `x` instead of `x `) -/
example : (readStyleMap (c06_print true ⟨.bold, .elems [⟨S!"b", [], [.cls S!"x "], false, none⟩]⟩)).1 ≠
    [c06_denote ⟨.bold, .elems [⟨S!"b", [], [.cls S!"x "], false, none⟩]⟩] := by decide

/-- An emitted element has attribute `k` iff the written element mentions it: some `[k='…']`, or — for
    `k = class` — some `.name`.  No other key appears, and none that is written is lost. -/
theorem C06_attr_absent_iff (k : Str) (e : c06_Elem) :
    Dict.get? k (c06_denoteElem e).attrs = none ↔ ∀ ev ∈ e.events, c06x7_mentions k ev = false := by
  rw [C06_attr_value]
  exact c06x7_attrSpec_none k e.events

example : Dict.get? S!"class" (c06_denoteElem ⟨S!"a", [], [.attr S!"id" S!"x", .cls S!"c"], false, none⟩).attrs ≠ none ∧
    Dict.get? S!"href" (c06_denoteElem ⟨S!"a", [], [.attr S!"id" S!"x", .cls S!"c"], false, none⟩).attrs = none := by
  decide

/-- Leading zeros of a written list level do not change the level that is matched: `:ordered-list(007)`
    means level index `6` like `:ordered-list(7)` (Python's `int("007") == 7`). -/
theorem C06_level_leading_zero (ds : Str) : levelIndexOf ('0' :: ds) = levelIndexOf ds := by
  simp only [levelIndexOf, c06x7_digitsToNat_zero]

example : levelIndexOf S!"007" = S!"6" ∧
    (readStyleMapping S!"p:ordered-list(007) => li").map (·.matcher) =
      (readStyleMapping S!"p:ordered-list(7) => li").map (·.matcher) := by decide

#print axioms C06_print_one_line
#print axioms C06_readStyleMap_print
#print axioms C06_attr_absent_iff
#print axioms C06_level_leading_zero

end Mammoth
