/-
  C19 — document transforms visit each target once and leave everything else alone.

  `transforms.paragraph(f)` / `transforms.run(f)` / `element_of_type(T, f)` build a function that
  walks the document post-order: children first (left to right), the element rebuilt with the new
  children, then `f` on the rebuilt element if it is of the target type.  `isT` is the type test
  (`isParagraph`, `isRun`), `transform isT f` the walk for a pure `f`, `transformM isT f` the same
  walk for a callback with effects in a monad.
-/
import Proofs.C19_Transforms
import Proofs.C19_Ext7
import MammothModel.Package
namespace Mammoth

/-! ## which calls are made, with what, in which order -/

/-- The exact call sequence, for ANY pure answer function `g`: run the monadic walk with the callback
    "append the argument to the log, answer `g argument`".  The result is the pure walk's result and
    the log grows by exactly `c19_calls isT g e`: for each node in post-order, after all calls for
    its children, the node rebuilt with its already transformed children — if that is a target. -/
theorem C19_calls_logged (isT : Elem → Bool) (g : Elem → Elem) (e : Elem) (log : List Elem) :
    (transformM isT (c19_logged g) e).run log = (transform isT g e, log ++ c19_calls isT g e) :=
  c19_transformM_logged isT g e log

/-- Record-only callback (logs its argument, returns it unchanged): the tree comes back unchanged
    and the log is exactly the post-order list of ALL nodes of `e` (`e` included, last) filtered by
    the target test — every target once, at its post-order position, nothing else. -/
theorem C19_calls_postorder (isT : Elem → Bool) (e : Elem) :
    (transformM isT (c19_logged id) e).run [] = (e, (c19_postorder e).filter isT) := by
  rw [c19_transformM_logged, c19_transform_id, c19_calls_id]; simp

/-- For a type test that does not look at children (`isParagraph`, `isRun`, any `isinstance` test)
    and any `g`: the calls correspond one-to-one, in order, to the target nodes of the ORIGINAL tree
    in post-order; the k-th call receives the k-th target with its children replaced by their
    transformed versions (`c19_view`).  In particular the number of calls is the number of targets. -/
theorem C19_calls_each_target_once (isT : Elem → Bool) (g : Elem → Elem) (hT : c19_shapeOnly isT) (e : Elem) :
    c19_calls isT g e = ((c19_postorder e).filter isT).map (c19_view isT g)
    ∧ (c19_calls isT g e).length = ((c19_postorder e).filter isT).length := by
  have h := c19_calls_shape isT g hT e
  exact ⟨h, by rw [h, List.length_map]⟩

/-- `isinstance(_, Paragraph)` and `isinstance(_, Run)` are such tests -/
theorem C19_type_tests_shape_only : c19_shapeOnly isParagraph ∧ c19_shapeOnly isRun :=
  ⟨c19_shapeOnly_isParagraph, c19_shapeOnly_isRun⟩

/-- the walk in the identity monad is the pure walk (so the two model functions agree) -/
theorem C19_monadic_pure_agree (isT : Elem → Bool) (f : Elem → Elem) (e : Elem) :
    Id.run (transformM (m := Id) isT (fun x => pure (f x)) e) = transform isT f e := by
  rw [c19_transformM_Id]; rfl

/-! ## what is left alone -/

/-- the identity transform changes nothing, whatever the target type -/
theorem C19_transform_id (isT : Elem → Bool) (e : Elem) : transform isT id e = e := c19_transform_id isT e

/-- one step of the walk, uniformly for every node: rebuild with transformed children, then apply
    `f` iff the rebuilt node is a target.  (`withChildren` keeps all own fields.) -/
theorem C19_step (isT : Elem → Bool) (f : Elem → Elem) (e : Elem) :
    transform isT f e = applyIf isT f (e.withChildren (transformL isT f e.children)) :=
  c19_transform_step isT f e

/-- `f` receives the element with ALREADY transformed children -/
theorem C19_children_first (isT : Elem → Bool) (f : Elem → Elem) (p : ParaProps) (cs : List Elem)
    (h : isT (.paragraph p (transformL isT f cs)) = true) :
    transform isT f (.paragraph p cs) = f (.paragraph p (transformL isT f cs)) := by
  simp [transform, applyIf, h]

theorem C19_children_first_run (isT : Elem → Bool) (f : Elem → Elem) (r : RunProps) (cs : List Elem)
    (h : isT (.run r (transformL isT f cs)) = true) :
    transform isT f (.run r cs) = f (.run r (transformL isT f cs)) := by
  simp [transform, applyIf, h]

/-- a node that is not a target keeps its class and all its own fields; only its children are
    replaced by their transforms (and a leaf is returned as it is) -/
theorem C19_non_target_node (isT : Elem → Bool) (f : Elem → Elem) (e : Elem)
    (h : isT (e.withChildren (transformL isT f e.children)) = false) :
    transform isT f e = e.withChildren (transformL isT f e.children) := by
  rw [c19_transform_step]; simp [applyIf, h]

/-- instances: a hyperlink under `transforms.paragraph`, a table cell under `transforms.run`, … -/
theorem C19_hyperlink_kept (f : Elem → Elem) (h : LinkProps) (cs : List Elem) :
    transform isParagraph f (.hyperlink h cs) = .hyperlink h (transformL isParagraph f cs) := by
  simp [transform, applyIf, isParagraph]

theorem C19_cell_kept (f : Elem → Elem) (c r : Nat) (v : Bool) (cs : List Elem) :
    transform isRun f (.cell c r v cs) = .cell c r v (transformL isRun f cs) := by
  simp [transform, applyIf, isRun]

/-- siblings are transformed independently, order and number kept -/
theorem C19_siblings (isT : Elem → Bool) (f : Elem → Elem) (cs : List Elem) :
    transformL isT f cs = cs.map (transform isT f) := c19_transformL_eq_map isT f cs

/-- a tree without any target node comes back unchanged, whatever `f` is -/
theorem C19_non_targets_unchanged (isT : Elem → Bool) (f : Elem → Elem) (e : Elem)
    (h : (c19_postorder e).all (fun x => !isT x) = true) : transform isT f e = e :=
  c19_transform_noTarget isT f e h

/-- the result depends on the callback only through its answers on the arguments it is actually
    called with: two callbacks that agree on those give the same tree (so nothing but the targets,
    seen with their transformed children, can influence the outcome) -/
theorem C19_only_calls_matter (isT : Elem → Bool) (f g : Elem → Elem) (e : Elem)
    (h : ∀ x ∈ c19_calls isT f e, f x = g x) : transform isT f e = transform isT g e :=
  c19_transform_congr isT f g e h

/-- the document-level function keeps notes and comments (their bodies are not traversed) and
    transforms exactly the body children -/
theorem C19_doc_notes_comments_untouched (isT : Elem → Bool) (f : Elem → Elem) (d : Document) :
    (transformDoc isT f d).notes = d.notes ∧ (transformDoc isT f d).comments = d.comments
    ∧ (transformDoc isT f d).children = d.children.map (transform isT f) := by
  simp [transformDoc, transformDocWith, c19_transformL_eq_map]

/-- the identity transform on a document is the identity … -/
theorem C19_transformDoc_id (isT : Elem → Bool) : transformDoc isT id = id := by
  funext d
  simp [transformDoc, transformDocWith, c19_transformL_id]

/-- … so converting with `transform_document=paragraph(lambda p: p)` (or `run(…)`) gives the very
    same result — value, messages, everything — as converting without a transform. -/
theorem C19_identity_conversion_unchanged (isT : Elem → Bool) (p : Package) (fuel : Nat) (base : Option Str)
    (world : Str → Option Bytes) (o : Options) :
    apiConvert p fuel base world (transformDoc isT id) o = apiConvert p fuel base world id o := by
  rw [C19_transformDoc_id]

/-! ## `get_descendants` -/

/-- the descendants of an element are, child by child, the child's descendants followed by the
    child (post-order, the element itself excluded; `[]` for an element without children) -/
theorem C19_descendants_postorder (e : Elem) :
    descendants e = e.children.flatMap (fun c => descendants c ++ [c]) := by
  rw [c19_descendants_children, c19_descendantsL_flatMap]

/-- … i.e. all nodes in post-order without the last one, the element itself -/
theorem C19_descendants_strict (e : Elem) : c19_postorder e = descendants e ++ [e] := c19_postorder_eq e

/-- every strict descendant appears at exactly one position: the list has `size e - 1` entries -/
theorem C19_descendants_count (e : Elem) : (descendants e).length + 1 = c19_size e :=
  c19_descendants_length e

/-- `get_descendants_of_type` is the sub-list of `get_descendants` passing the type test: same
    order, and it decomposes child by child like `get_descendants` -/
theorem C19_descendants_of_type (isT : Elem → Bool) (e : Elem) :
    descendantsOfType isT e
      = e.children.flatMap (fun c => descendantsOfType isT c ++ (if isT c then [c] else []))
    ∧ ∀ x, x ∈ descendantsOfType isT e ↔ (x ∈ descendants e ∧ isT x = true) := by
  constructor
  · unfold descendantsOfType
    rw [C19_descendants_postorder, List.filter_flatMap]
    congr 1
    funext c
    simp [List.filter_cons]
  · intro x; simp [descendantsOfType]

/-- `get_descendants(document)` for the whole document -/
theorem C19_descendants_doc (d : Document) :
    descendantsDoc d = d.children.flatMap (fun c => descendants c ++ [c]) := by
  unfold descendantsDoc; rw [c19_descendantsL_flatMap]

/-- the targets a transform visits inside `e` are `get_descendants_of_type(e, T)` plus `e` itself -/
theorem C19_targets_are_descendants_of_type (isT : Elem → Bool) (e : Elem) :
    (c19_postorder e).filter isT = descendantsOfType isT e ++ (if isT e then [e] else []) := by
  rw [c19_postorder_eq, List.filter_append]; simp [descendantsOfType, List.filter_cons]

/-! ## examples -/

private def c19_r (s : Str) : Elem := .run {} [.text s]
private def c19_doc : Elem :=
  .paragraph {} [c19_r S!"a", .hyperlink {} [c19_r S!"b"], .table none none [.row false [.cell 1 1 false [.paragraph {} [c19_r S!"c"]]]]]

example : (transformM isRun (c19_logged id) c19_doc).run [] = (c19_doc, [c19_r S!"a", c19_r S!"b", c19_r S!"c"]) := by rfl
example : (c19_postorder c19_doc).filter isParagraph = [.paragraph {} [c19_r S!"c"], c19_doc] := by rfl
/-- upper-casing runs: the paragraph callback sees the new runs -/
example : c19_calls isParagraph (fun _ => .tab) (.paragraph {} [.paragraph {} []]) = [.paragraph {} [], .paragraph {} [.tab]] := by rfl
example : transform isRun (fun _ => .tab) c19_doc =
    .paragraph {} [.tab, .hyperlink {} [.tab], .table none none [.row false [.cell 1 1 false [.paragraph {} [.tab]]]]] := by rfl
example : (descendants c19_doc).length = 11 ∧ c19_size c19_doc = 12 := by decide
example : descendants (.paragraph {} [c19_r S!"a", .tab]) = [.text S!"a", c19_r S!"a", .tab] := by rfl
example : (c19_postorder (.hyperlink {} [.text S!"x", .tab])).all (fun x => !isRun x) = true := by rfl

/-! ## round 7: nesting of descendants, the document-level call log, size under restyling -/

/-- `get_descendants` is closed and contiguous under nesting: if `x` is a descendant of `e`, then
    `x` preceded by ALL of `x`'s own descendants, in their own order, occupies one contiguous block
    `get_descendants(x) ++ [x]` of `get_descendants(e)` (for some prefix `s` and suffix `t`); in
    particular every descendant of a descendant is a descendant, and it comes before it. -/
theorem C19_descendants_nested_block (e x : Elem) (hx : x ∈ descendants e) :
    (∃ s t, descendants e = s ++ descendants x ++ x :: t) ∧ ∀ y ∈ descendants x, y ∈ descendants e :=
  ⟨c19_descendants_block e x hx, c19_block_mem (c19_descendants_block e x hx)⟩

#print axioms C19_descendants_nested_block

private theorem c19_r_c_mem : c19_r S!"c" ∈ descendants c19_doc := by
  simp [c19_doc, c19_r, descendants, descendantsL]
example : ∃ s t, descendants c19_doc = s ++ descendants (c19_r S!"c") ++ c19_r S!"c" :: t :=
  (C19_descendants_nested_block c19_doc (c19_r S!"c") c19_r_c_mem).1
/-- the block concretely: 5 nodes before, the text `c` and its run, then paragraph, cell, row, table -/
example : descendants c19_doc = (descendants c19_doc).take 5 ++ descendants (c19_r S!"c") ++ c19_r S!"c" ::
    [.paragraph {} [c19_r S!"c"], .cell 1 1 false [.paragraph {} [c19_r S!"c"]],
     .row false [.cell 1 1 false [.paragraph {} [c19_r S!"c"]]],
     .table none none [.row false [.cell 1 1 false [.paragraph {} [c19_r S!"c"]]]]] := by rfl

/-- The whole document body, for ANY answer function `g`: walking the body children with the logging
    callback yields exactly the children of `transformDoc isT g d`, and the log grows by the calls
    of the first body child, then those of the second, … (`flatMap`, body order) — nothing is
    logged for the document itself, and notes/comments contribute no call. -/
theorem C19_doc_calls_logged (isT : Elem → Bool) (g : Elem → Elem) (d : Document) (log : List Elem) :
    (transformLM isT (c19_logged g) d.children).run log
      = ((transformDoc isT g d).children, log ++ d.children.flatMap (c19_calls isT g)) := by
  rw [c19_transformLM_logged, c19_callsL_flatMap]; rfl

#print axioms C19_doc_calls_logged

example : (transformLM isRun (c19_logged (fun _ => .tab)) (Document.mk [c19_doc, c19_r S!"d"] [] []).children).run []
    = ([.paragraph {} [.tab, .hyperlink {} [.tab], .table none none [.row false [.cell 1 1 false [.paragraph {} [.tab]]]]], .tab],
       [c19_r S!"a", c19_r S!"b", c19_r S!"c", c19_r S!"d"]) := by rfl

/-- `get_descendants_of_type(document, T)`: the body children in order, each preceded by its own
    descendants of the type, a child itself listed iff it passes the test; membership is exactly
    "is in `get_descendants(document)` and passes the test". -/
theorem C19_descendants_of_type_doc (isT : Elem → Bool) (d : Document) :
    descendantsOfTypeDoc isT d
      = d.children.flatMap (fun c => descendantsOfType isT c ++ (if isT c then [c] else []))
    ∧ ∀ x, x ∈ descendantsOfTypeDoc isT d ↔ (x ∈ descendantsDoc d ∧ isT x = true) := by
  constructor
  · unfold descendantsOfTypeDoc descendantsOfType
    rw [C19_descendants_doc, List.filter_flatMap]
    congr 1
    funext c
    simp [List.filter_cons]
  · intro x; simp [descendantsOfTypeDoc]

#print axioms C19_descendants_of_type_doc

example : descendantsOfTypeDoc isRun (Document.mk [c19_doc, c19_r S!"d"] [] [])
    = [c19_r S!"a", c19_r S!"b", c19_r S!"c", c19_r S!"d"] := by rfl

/-- Restyling callbacks (any `f` that returns an element with the same children as its argument,
    e.g. "set the style of paragraphs matching a predicate"): the transformed tree has exactly as
    many nodes as the original, so `get_descendants` of the result has the same length — no node is
    dropped, duplicated or visited into a different shape, whatever the target test. -/
theorem C19_restyle_keeps_node_count (isT : Elem → Bool) (f : Elem → Elem)
    (hf : ∀ x, (f x).children = x.children) (e : Elem) :
    c19_size (transform isT f e) = c19_size e
    ∧ (descendants (transform isT f e)).length = (descendants e).length := by
  have h := c19_transform_size isT f hf e
  refine ⟨h, ?_⟩
  have h1 := c19_descendants_length (transform isT f e)
  have h2 := c19_descendants_length e
  omega

#print axioms C19_restyle_keeps_node_count

/-- a restyling callback: runs become bold, children kept -/
private def c19_bold : Elem → Elem
  | .run r cs => .run { r with bold := true } cs
  | e => e
example : ∀ x, (c19_bold x).children = x.children := by
  intro x; cases x <;> rfl
example : transform isRun c19_bold (c19_r S!"a") = .run { bold := true } [.text S!"a"]
    ∧ c19_size (transform isRun c19_bold c19_doc) = 12 := ⟨by rfl, by decide⟩

end Mammoth
