/-
  C16 — everything the converter skips is reported once; clean documents report nothing.
  Property theorems only; helper lemmas live in Proofs/C16_*.lean.
-/
import Proofs.C16_Api
import Proofs.C16_Clean
import Proofs.C16_Image
import Proofs.C16_ApiSpec
import Proofs.C16_Example
import Proofs.C16_ConvSpec
import Proofs.Pins
namespace Mammoth

/-! ### `unique`: reported ONCE -/

section
variable {α : Type} [DecidableEq α]

/-- the de-duplicated list has no repetition -/
theorem C16_unique_nodup (l : List α) : (unique l).Nodup := c16_uniqueAux_nodup [] l

/-- nothing is lost and nothing invented -/
theorem C16_unique_mem (l : List α) (x : α) : x ∈ unique l ↔ x ∈ l := by
  simp [unique, c16_uniqueAux_mem]

/-- the order of first occurrences is kept: `unique l` is a sublist of `l` … -/
theorem C16_unique_order (l : List α) : (unique l).Sublist l := c16_uniqueAux_sublist [] l

/-- … a list without repetition is left alone … -/
theorem C16_unique_of_nodup (l : List α) (h : l.Nodup) : unique l = l :=
  c16_uniqueAux_of_nodup [] l h (fun _ _ hx => by cases hx)

/-- … and a new last element is kept iff it did not occur before (so each element stays at the
    position of its FIRST occurrence) -/
theorem C16_unique_snoc (l : List α) (x : α) :
    unique (l ++ [x]) = if x ∈ l then unique l else unique l ++ [x] := by
  unfold unique
  rw [c16_uniqueAux_append, List.append_nil]
  by_cases h : x ∈ l
  · rw [c16_uniqueAux_cons_mem _ _ _ h]; simp [h, uniqueAux]
  · rw [c16_uniqueAux_cons_not_mem _ _ _ h]; simp [h, uniqueAux]

/-- the nested de-duplications of the code (`Result.map`/`bind`/`combine` each call `unique`)
    compose to a single one -/
theorem C16_unique_append_unique (a b : List α) :
    unique (a ++ unique b) = unique (a ++ b) ∧ unique (unique a ++ b) = unique (a ++ b) := by
  constructor
  · have := c16_unique_mid a b []
    simpa using this
  · exact c16_uniqueAux_unique_append [] a b

theorem C16_unique_idem (l : List α) : unique (unique l) = unique l := by
  have := c16_uniqueAux_unique_append [] l []
  simpa [unique] using this
end

/-! ### what the public entry point reports -/

/-- the messages of `mammoth.convert` are the option (style map) messages, then the reader's,
    then the converter's, de-duplicated -/
theorem C16_api_messages (p : Package) (fuel : Nat) (base : Option Str) (world : Str → Option Bytes)
    (tr : Document → Document) (o : Options) (r : ApiOut)
    (h : apiConvert p fuel base world tr o = .ok r) :
    ∃ embedded doc readMsgs cr,
      (if o.includeEmbedded then readEmbeddedStyleMap p else .ok none) = .ok embedded ∧
      readPackage p fuel = .ok (doc, readMsgs) ∧
      convertDoc (c16_apiCfg p base world o embedded) (tr doc) = .ok cr ∧
      r.messages =
        unique ((readOptions o.styleMap embedded o.includeDefault).2 ++ readMsgs ++ cr.messages) := by
  rw [c16_apiConvert_eq] at h
  cases he : (if o.includeEmbedded = true then readEmbeddedStyleMap p else .ok none) with
  | error e => rw [he] at h; cases h
  | ok embedded =>
    rw [he] at h
    simp only [c16_apiRest] at h
    cases hd : readPackage p fuel with
    | error e => rw [hd] at h; cases h
    | ok dr =>
      obtain ⟨doc, readMsgs⟩ := dr
      rw [hd] at h
      simp only at h
      cases hc : convertDoc (c16_apiCfg p base world o embedded) (tr doc) with
      | error e => rw [hc] at h; cases h
      | ok cr =>
        rw [hc] at h
        cases h
        exact ⟨embedded, doc, readMsgs, cr, rfl, rfl, hc, rfl⟩

/-- the converter's own messages are its state's message list, de-duplicated -/
theorem C16_convertDoc_messages (cfg : Cfg) (d : Document) (cr : ConvResult)
    (h : convertDoc cfg d = .ok cr) :
    ∃ nodes st, (visitDocument { cfg with comments := d.comments } d).run {} = .ok (nodes, st) ∧
      cr.messages = unique st.messages := by
  unfold convertDoc at h
  split at h
  · rename_i nodes st hv
    cases h
    exact ⟨nodes, st, hv, rfl⟩
  · cases h

/-- all in all: ONE de-duplication of (warnings of the explicit style map, of the embedded one,
    reader messages, converter messages) — every distinct message exactly once, ordered by first
    occurrence -/
theorem C16_api_messages_flat (p : Package) (fuel : Nat) (base : Option Str)
    (world : Str → Option Bytes) (tr : Document → Document) (o : Options) (r : ApiOut)
    (h : apiConvert p fuel base world tr o = .ok r) :
    ∃ embedded doc readMsgs nodes st,
      (if o.includeEmbedded then readEmbeddedStyleMap p else .ok none) = .ok embedded ∧
      readPackage p fuel = .ok (doc, readMsgs) ∧
      (visitDocument { c16_apiCfg p base world o embedded with comments := (tr doc).comments }
          (tr doc)).run {} = .ok (nodes, st) ∧
      r.messages =
        unique (c16_styleWarnings (o.styleMap.getD []) ++ c16_styleWarnings (embedded.getD []) ++
                readMsgs ++ st.messages) ∧
      r.messages.Nodup := by
  obtain ⟨embedded, doc, readMsgs, cr, he, hd, hc, hm⟩ := C16_api_messages p fuel base world tr o r h
  obtain ⟨nodes, st, hv, hcm⟩ := C16_convertDoc_messages _ _ _ hc
  refine ⟨embedded, doc, readMsgs, nodes, st, he, hd, hv, ?_, ?_⟩
  · rw [hm, hcm]
    show unique (unique ((readStyleMap (o.styleMap.getD [])).2 ++ (readStyleMap (embedded.getD [])).2)
            ++ readMsgs ++ unique st.messages) = _
    rw [c16_readStyleMap_messages, c16_readStyleMap_messages]
    rw [(C16_unique_append_unique _ st.messages).1, List.append_assoc,
      (C16_unique_append_unique _ _).2, List.append_assoc, (C16_unique_append_unique _ _).2,
      c16_unique_mid]
    simp only [List.append_assoc]
  · rw [hm]; exact C16_unique_nodup _

/-! ### the converter only adds messages -/

/-- visiting an element never removes or reorders earlier messages -/
theorem C16_messages_monotone (cfg : Cfg) (hdr : Bool) (e : Elem) (st st' : ConvState)
    (ns : List Node) (h : (visit cfg hdr e).run st = .ok (ns, st')) :
    st.messages <+: st'.messages := c16_mono_visit cfg hdr e st ns st' h

theorem C16_messages_monotone_all (cfg : Cfg) (hdr : Bool) (es : List Elem) (st st' : ConvState)
    (ns : List Node) (h : (visitAll cfg hdr es).run st = .ok (ns, st')) :
    st.messages <+: st'.messages := c16_mono_visitAll cfg hdr es st ns st' h

theorem C16_messages_monotone_rows (cfg : Cfg) (b : Bool) (rs : List Elem) (st st' : ConvState)
    (r : List Node × List Node) (h : (visitRows cfg b rs).run st = .ok (r, st')) :
    st.messages <+: st'.messages := c16_mono_visitRows cfg b rs st r st' h

/-- "Unrecognised paragraph/run style": exactly one message iff no mapping matches and the element
    has a style id; otherwise none -/
theorem C16_unrecognised_style_warns (cfg : Cfg) (t : Target) (kind : Str) (sid sname : Option Str)
    (d : HtmlPath) (st : ConvState) :
    ∃ p st', (findPathWarn cfg t kind sid sname d).run st = .ok (p, st') ∧
      st'.messages = st.messages ++
        (match findStyle cfg.upper cfg.styleMap t, sid with
         | none, some i => [S!"Unrecognised " ++ kind ++ S!" style: " ++ pyOpt sname ++
                              S!" (Style ID: " ++ i ++ S!")"]
         | _, _ => []) ∧
      st'.noteRefs = st.noteRefs ∧ st'.ioTrace = st.ioTrace ∧ st'.imageCalls = st.imageCalls := by
  refine ⟨_, _, c03_findPathWarn_run cfg t kind sid sname d st, ?_⟩
  unfold c03_warnState findPath
  cases findStyle cfg.upper cfg.styleMap t with
  | some s => simp
  | none =>
    cases sid with
    | none => simp
    | some i => simp [c03_styleWarning]

/-- AN IMAGE THAT CANNOT BE OPENED IS REPORTED, an image that can is not: when the image
    converter opens images, converting an image adds exactly the warning of `Image.open`
    (`c16_openError`: "could not open external image …" / "could not find external image …"), if
    there is one, and nothing otherwise; a converter that does not open images adds nothing -/
theorem C16_image_warns (cfg : Cfg) (hdr : Bool) (i : ImageProps) (st st' : ConvState) (ns : List Node)
    (h : (visit cfg hdr (.image i)).run st = .ok (ns, st')) :
    st'.messages = st.messages ++
      (if c16_opens cfg then
        (match c16_openError cfg i.src with
         | some m => [m]
         | none => [])
       else []) := by
  rw [visit] at h
  by_cases ho : c16_opens cfg = true
  · simp only [ho, if_true]
    cases he : c16_openError cfg i.src with
    | some m =>
      obtain ⟨st2, hrun, hm⟩ := c16_convertImage_fails cfg i m st ho he
      rw [hrun] at h; cases h
      exact hm
    | none =>
      have hok : c16_imageOk cfg i = true := by
        unfold c16_imageOk
        rw [(c16_openError_none_iff cfg i.src).mp he, Bool.or_true]
      simpa using (c16_quiet_convertImage [] cfg i hok st ns st' h).1.1
  · have hok : c16_imageOk cfg i = true := by
      unfold c16_imageOk
      unfold c16_opens at ho
      cases hc : cfg.imageConv with
      | dataUri => simp [hc] at ho
      | fixed attrs o => cases o <;> simp_all
    simp only [ho, Bool.false_eq_true, if_false, List.append_nil]
    exact (c16_quiet_convertImage [] cfg i hok st ns st' h).1.1

/-- …and in the failing case no `img` is produced -/
theorem C16_unopenable_image_dropped (cfg : Cfg) (hdr : Bool) (i : ImageProps) (st : ConvState)
    (m : Str) (ho : c16_opens cfg = true) (he : c16_openError cfg i.src = some m) :
    ∃ st', (visit cfg hdr (.image i)).run st = .ok ([], st') ∧ st'.messages = st.messages ++ [m] := by
  rw [visit]
  exact c16_convertImage_fails cfg i m st ho he

/-! ### clean documents report nothing -/

/-- CLEAN ELEMENTS ARE SILENT.  `c16_cleanL cfg es` (decidable; defined in Proofs/C16_Clean.lean)
    says: every paragraph and run has a matching mapping or no style id, and every image can be
    opened (or the image converter does not open images).  Then converting `es` adds no message. -/
theorem C16_clean_elements_silent (cfg : Cfg) (hdr : Bool) (es : List Elem) (st st' : ConvState)
    (ns : List Node) (hc : c16_cleanL cfg es = true)
    (h : (visitAll cfg hdr es).run st = .ok (ns, st')) : st'.messages = st.messages :=
  (c16_quiet_visitAll cfg hdr es hc st ns st' h).1.1

/-- A CLEAN DOCUMENT (body, notes and comments clean) converts without any message -/
theorem C16_clean_document_silent (cfg : Cfg) (d : Document) (cr : ConvResult)
    (hc : c16_cleanL cfg d.children = true)
    (hn : ∀ n ∈ d.notes, c16_cleanL cfg n.body = true)
    (hcm : ∀ c ∈ d.comments, c16_cleanL cfg c.body = true)
    (h : convertDoc cfg d = .ok cr) : cr.messages = [] := by
  obtain ⟨nodes, st, hv, hm⟩ := C16_convertDoc_messages cfg d cr h
  have := c16_visitDocument_quiet { cfg with comments := d.comments } d {} st nodes
    (fun _ hlc => by cases hlc)
    (by rw [c16_cleanL_comments]; exact hc)
    (fun n hmem => by rw [c16_cleanL_comments]; exact hn n hmem)
    (fun c hmem => by rw [c16_cleanL_comments]; exact hcm c hmem) hv
  rw [hm, this]
  rfl

/-- NOT everything that falls back is reported: a table whose style no mapping matches becomes a
    plain `table` WITHOUT an "Unrecognised table style" warning (the code passes
    `warn_unrecognised=False` for tables) — with clean rows the message list is unchanged whatever
    the table's style id is -/
theorem C16_unmapped_table_style_not_reported (cfg : Cfg) (hdr : Bool) (sid sname : Option Str)
    (rows : List Elem) (st st' : ConvState) (ns : List Node)
    (hrows : c16_cleanL cfg rows = true)
    (h : (visit cfg hdr (.table sid sname rows)).run st = .ok (ns, st')) :
    st'.messages = st.messages :=
  (c16_quiet_visit cfg hdr (.table sid sname rows) (by rw [c16_clean]; exact hrows) st ns st' h).1.1

/-! ### what the reader reports -/

/-- no element name that is silently ignored has a handler -/
theorem C16_ignored_no_handler : ∀ n ∈ Generated.ignored, handlerOf n = none := by decide

/-- an element without handler that is not on the ignore list: one warning naming it, nothing else -/
theorem C16_unknown_element_warns (env : REnv) (f : Nat) (st : RState) (name : Str) (as : Attrs)
    (cs : List XmlNode) (hh : handlerOf name = none) (hi : name ∉ Generated.ignored) :
    readElem env (f + 1) st (.elem name as cs) =
      .ok ({ elements := [], extra := [],
             messages := [S!"An unrecognised element was ignored: " ++ name] }, st) := by
  rw [c16_readElem_nohandler env f st name as cs hh]
  have : Generated.ignored.contains name = false := by simpa using hi
  simp only [this, Bool.false_eq_true, if_false]
  rfl

/-- an element on the ignore list is skipped without any message -/
theorem C16_ignored_element_silent (env : REnv) (f : Nat) (st : RState) (name : Str) (as : Attrs)
    (cs : List XmlNode) (hi : name ∈ Generated.ignored) :
    readElem env (f + 1) st (.elem name as cs) = .ok ({ elements := [], extra := [], messages := [] }, st) := by
  rw [c16_readElem_nohandler env f st name as cs (C16_ignored_no_handler name hi)]
  have : Generated.ignored.contains name = true := by simpa using hi
  simp only [this, if_true]

/-- a style reference: the "referenced but not defined" message iff an id is given and the
    table has no entry for it -/
theorem C16_undefined_style_warns (props : List XmlNode) (tag kind : Str)
    (table : List (Option Str × Option Str)) :
    (readStyle props tag kind table).2 =
      match childAttr tag S!"w:val" props with
      | none => []
      | some sid =>
        if lookupLast (some sid) table = none then
          [kind ++ S!" style with ID " ++ sid ++ S!" was referenced but not defined in the document"]
        else [] := by
  unfold readStyle
  cases childAttr tag S!"w:val" props with
  | none => rfl
  | some sid =>
    simp only
    cases h : lookupLast (some sid) table <;> simp

/-- …and the id is kept either way -/
theorem C16_undefined_style_keeps_id (props : List XmlNode) (tag kind : Str)
    (table : List (Option Str × Option Str)) :
    (readStyle props tag kind table).1.1 = childAttr tag S!"w:val" props := by
  unfold readStyle
  cases childAttr tag S!"w:val" props with
  | none => rfl
  | some sid =>
    simp only
    cases h : lookupLast (some sid) table <;> rfl

/-- breaks: an unsupported `w:type` is reported (and produces no element); the supported ones
    (absent, empty, `textWrapping`, `page`, `column`) produce a break and no message -/
theorem C16_break_warns (as : Attrs) :
    readBreak as =
      match attr? S!"w:type" as with
      | none => { elements := [.brk S!"line"], extra := [], messages := [] }
      | some t =>
        if t = [] ∨ t = S!"textWrapping" then { elements := [.brk S!"line"], extra := [], messages := [] }
        else if t = S!"page" then { elements := [.brk S!"page"], extra := [], messages := [] }
        else if t = S!"column" then { elements := [.brk S!"column"], extra := [], messages := [] }
        else { elements := [], extra := [], messages := [S!"Unsupported break type: " ++ t] } := by
  unfold readBreak
  cases attr? S!"w:type" as with
  | none => rfl
  | some t =>
    simp only [List.isEmpty_iff, Bool.or_eq_true, beq_iff_eq, rrElems, rrMsg]

/-- an image is always produced; a warning accompanies it iff its content type is not one of the
    types browsers display -/
theorem C16_image_type_warns (env : REnv) (path : Str) (src : ImageSrc) (alt : Option Str) :
    (readImage env path src alt).elements =
        [.image { altText := alt, contentType := findContentType env.contentTypes path, src := src }] ∧
    (readImage env path src alt).messages =
      if (match findContentType env.contentTypes path with
          | some c => Generated.browserImageTypes.contains c
          | none => false) = true then []
      else [S!"Image of type " ++ pyOpt (findContentType env.contentTypes path) ++
              S!" is unlikely to display in web browsers"] := by
  unfold readImage
  cases findContentType env.contentTypes path with
  | none => exact ⟨rfl, rfl⟩
  | some c =>
    simp only
    cases Generated.browserImageTypes.contains c <;> exact ⟨rfl, rfl⟩

/-- `w:br` is read by `readBreak` (so `C16_break_warns` is what the dispatcher reports) -/
theorem C16_break_element (env : REnv) (f : Nat) (st : RState) (as : Attrs) (cs : List XmlNode) :
    readElem env (f + 1) st (.elem S!"w:br" as cs) = .ok (readBreak as, st) := rfl

/-- `v:imagedata` without `r:id`: skipped with a warning -/
theorem C16_imagedata_without_id_warns (env : REnv) (f : Nat) (st : RState) (as : Attrs)
    (cs : List XmlNode) (h : attr? S!"r:id" as = none) :
    readElem env (f + 1) st (.elem S!"v:imagedata" as cs) =
      .ok ({ elements := [], extra := [],
             messages := [S!"A v:imagedata element without a relationship ID was ignored"] }, st) := by
  show (match attr? S!"r:id" as with | none => _ | some rid => _) = _
  rw [h]
  rfl

/-- `a:blip` with neither `r:embed` nor `r:link`: skipped with a warning -/
theorem C16_blip_without_rel_warns (env : REnv) (as : Attrs) (alt : Option Str)
    (h1 : attr? S!"r:embed" as = none) (h2 : attr? S!"r:link" as = none) :
    readBlip env as alt =
      .ok { elements := [], extra := [], messages := [S!"Could not find image file for a:blip element"] } := by
  unfold readBlip
  rw [h1, h2]
  rfl

/-- `w:sym` without `w:char`: skipped with a warning naming character and font -/
theorem C16_sym_without_char_warns (as : Attrs) (h : attr? S!"w:char" as = none) :
    readSymbol as =
      .ok { elements := [], extra := [],
            messages := [S!"A w:sym element with an unsupported character was ignored: char None in font " ++
                           pyOpt (attr? S!"w:font" as)] } := by
  unfold readSymbol
  simp only [h]
  rfl

/-- the messages of a sequence of nodes are those of the first element followed by those of the
    rest: nothing is dropped or reordered on the way up -/
theorem C16_reader_messages_concat (rd : RState → XmlNode → Except Err (ReadResult × RState))
    (st st1 st2 : RState) (name : Str) (as : Attrs) (cs rest : List XmlNode) (r1 r2 : ReadResult)
    (h1 : rd st (.elem name as cs) = .ok (r1, st1)) (h2 : readAllWith rd st1 rest = .ok (r2, st2)) :
    ∃ r, readAllWith rd st (.elem name as cs :: rest) = .ok (r, st2) ∧
      r.messages = r1.messages ++ r2.messages ∧ r.elements = r1.elements ++ r2.elements := by
  rw [readAllWith]
  · simp only [bind, Except.bind, h1, h2]
    exact ⟨_, rfl, rfl, rfl⟩
  · intro s hs; cases hs

/-! ### examples -/

/-- a linked image and no way to open it: reported -/
example :
    ((visit {} false (.image { src := .linked S!"a.png" })).run {}).toOption.map (·.2.messages) =
      some [S!"could not find external image 'a.png', fileobj has no name"] := by rfl

/-- a clean body, and one that is not (a styled paragraph nobody maps) -/
example : c16_cleanL {} [.paragraph {} [.run { bold := true } [.text S!"x"], .noteRef S!"footnote" S!"1"]] = true := by
  rfl
example : c16_cleanL {} [.paragraph { styleId := some S!"Fancy" } []] = false := by rfl
example : c16_cleanL { styleMap := [⟨.paragraph (some S!"Fancy") none none, .elements []⟩] }
            [.paragraph { styleId := some S!"Fancy" } []] = true := by rfl

example : unique [3, 1, 3, 2, 1] = [3, 1, 2] := by decide
example : unique ([1, 2] ++ unique [2, 2, 3]) = unique ([1, 2] ++ [2, 2, 3]) := by decide
example : (readBreak [(S!"w:type", S!"weird")]).messages = [S!"Unsupported break type: weird"] := by rfl
example : (readBreak [(S!"w:type", S!"page")]).messages = [] := by rfl
example : handlerOf S!"w:unknownThing" = none ∧ S!"w:unknownThing" ∉ Generated.ignored := by decide
example : S!"w:sectPr" ∈ Generated.ignored := by decide
/-- a styled paragraph without mapping: one warning; twice the same paragraph: the state has the
    message twice, the result of `unique` once -/
example :
    ((visitAll {} false [.paragraph { styleId := some S!"X" } [], .paragraph { styleId := some S!"X" } []]).run
        {}).toOption.map (fun r => (r.2.messages.length, (unique r.2.messages).length)) = some (2, 1) := by
  rfl


/-! ### the GLOBAL statement on the reader side: messages = an independent traversal of the XML -/

/-- THE READER'S MESSAGES ARE THE WARNINGS OF THE SPECIFICATION.  For every environment (styles, numbering,
    relationships, content types), every amount of fuel, every reader state and every XML node: if the
    element reader returns `(r, st')`, then
      * `r.messages` is exactly the list of warnings that `c16_spec` (Proofs/C16_XmlSpec.lean: a structural
        traversal of the tree by element NAMES — unknown elements, undefined paragraph / run / table styles,
        unsupported breaks and symbols, pictures without image or of an unlikely type, `v:imagedata` without
        id, tables with non-rows / rows with non-cells — in reading order) prescribes, run in the field
        state of `st` (`c16_abs st`: the open complex fields and the instruction text, on which it depends
        whether a `w:fldChar end` directly inside a table is a stray check box) and with the buffer that
        stands for the content the reader holds back after deleted paragraph marks (`c16_pend env st.deleted`);
      * the field state afterwards is the one the specification computes;
      * CONSERVATION of deferred content: the content held back afterwards is the buffer the specification
        leaves — what a deleted-mark paragraph contains is reported by the next opened paragraph (after that
        paragraph's own style warning, before its own content), or is still waiting. -/
theorem C16_read_messages_spec (env : REnv) (f : Nat) (st : RState) (n : XmlNode) (r : ReadResult) (st' : RState)
    (h : readElem env f st n = .ok (r, st')) :
    r.messages = ((c16_spec env n (c16_pend env st.deleted)).eff (c16_abs st)).msgs ∧
    c16_abs st' = ((c16_spec env n (c16_pend env st.deleted)).eff (c16_abs st)).fs ∧
    c16_pend env st'.deleted = (c16_spec env n (c16_pend env st.deleted)).buf := by
  have hp := c16_readElem_spec env f st n r st' h
  exact ⟨hp.sum.msgs, hp.fs, hp.buf⟩

/-- …the same for a list of sibling nodes (`read_all`) -/
theorem C16_read_messages_spec_all (env : REnv) (f : Nat) (st : RState) (ns : List XmlNode) (r : ReadResult)
    (st' : RState) (h : readAll env f st ns = .ok (r, st')) :
    r.messages = ((c16_specL env ns (c16_pend env st.deleted)).eff (c16_abs st)).msgs ∧
    c16_abs st' = ((c16_specL env ns (c16_pend env st.deleted)).eff (c16_abs st)).fs ∧
    c16_pend env st'.deleted = (c16_specL env ns (c16_pend env st.deleted)).buf := by
  have hp := c16_readAll_spec env f st ns r st' h
  exact ⟨hp.sum.msgs, hp.fs, hp.buf⟩

/-- …and from the initial state (no open field, nothing held back), which is how every story of a package
    is read: the messages are `c16_xmlWarnings env ns` -/
theorem C16_read_messages_initial (env : REnv) (f : Nat) (ns : List XmlNode) (r : ReadResult) (st' : RState)
    (h : readAll env f {} ns = .ok (r, st')) : r.messages = c16_xmlWarnings env ns :=
  c16_readAll_initial env f ns r st' h

/-- the specification also says what the table reader sees: whether the elements read are all rows made of
    cells (code 0), all rows but one with a non-cell (1), or not all rows (2), and whether they are all cells -/
theorem C16_read_grid_shape (env : REnv) (f : Nat) (st : RState) (n : XmlNode) (r : ReadResult) (st' : RState)
    (h : readElem env f st n = .ok (r, st')) :
    (if !r.elements.all isRow then 2 else if !(r.elements.all fun row => (rowCells row).all isCell) then 1 else 0) =
        ((c16_spec env n (c16_pend env st.deleted)).eff (c16_abs st)).code ∧
    r.elements.all isCell = ((c16_spec env n (c16_pend env st.deleted)).eff (c16_abs st)).cells := by
  have hp := c16_readElem_spec env f st n r st' h
  exact ⟨hp.sum.code, hp.sum.cells⟩

/-- the specification of a paragraph, spelled out: with a deleted mark it reports nothing and its content
    (preceded by what was already waiting) waits at level 0 of the buffer; without, it reports its style
    warning, then what was waiting, then its own content -/
theorem C16_spec_paragraph (env : REnv) (as : Attrs) (cs : List XmlNode) (b : c16_Buf) :
    c16_spec env (.elem S!"w:p" as cs) b =
      if c16_delMark cs then
        ⟨c16_skip, c16_bufCons (c16_seq (c16_bufHead b) (c16_specL env cs (c16_bufTail b)).eff)
                      (c16_specL env cs (c16_bufTail b)).buf⟩
      else
        ⟨c16_box (c16_styleWarn S!"Paragraph" S!"w:pPr" S!"w:pStyle" env.styles.paragraph cs)
            (c16_seq (c16_bufHead b) (c16_specL env cs (c16_bufTail b)).eff),
         (c16_specL env cs (c16_bufTail b)).buf⟩ :=
  c16_spec_paragraph env as cs b (by decide)

/-- the names the specification treats as unknown are exactly the names without a reader
    (`Generated.handlers`); of those, the ones on `Generated.ignored` are silent -/
theorem C16_spec_unknown_iff (name : Str) : c16_kindOf name = .unknown ↔ handlerOf name = none :=
  c16_kindOf_unknown_iff name

/-! ### clean XML is silent; an anomaly at any depth is not -/

/-- CLEAN XML IS READ WITHOUT ANY MESSAGE.  `c16_xmlCleanL env ns` (decidable, Proofs/C16_XmlClean.lean):
    made only of supported constructs — every element has a reader or is on the ignore list, every
    paragraph / run / table style id is defined, breaks and symbols are supported, every picture resolves to
    an image of a type browsers show, tables contain rows and rows contain cells.  Then, for every fuel and
    every reader state whose held-back content is clean as well, reading `ns` gives no message. -/
theorem C16_xml_clean_silent (env : REnv) (f : Nat) (st : RState) (ns : List XmlNode) (r : ReadResult)
    (st' : RState) (hc : c16_xmlCleanL env ns = true) (hd : c16_xmlCleanL env st.deleted = true)
    (h : readAll env f st ns = .ok (r, st')) : r.messages = [] :=
  c16_read_clean_silent env f st ns r st' hc hd h

/-- …in particular from the initial state -/
theorem C16_xml_clean_silent_initial (env : REnv) (f : Nat) (ns : List XmlNode) (r : ReadResult)
    (st' : RState) (hc : c16_xmlCleanL env ns = true)
    (h : readAll env f {} ns = .ok (r, st')) : r.messages = [] :=
  c16_read_clean_silent env f {} ns r st' hc rfl h

/-- AN ANOMALY AT ANY DEPTH YIELDS ITS WARNING.  `c16_occursL p ns`: an element satisfying `p` occurs at a
    position of `ns` that the reader reads (at any depth: body, tables, text boxes, hyperlinks, alternate
    content, structured document tags).  If every such element reports `w` for itself (`c16_ownWarn`), then
    `w` is among the reader's messages — unless the element sits in the content of a deleted-mark paragraph
    that no later paragraph has taken over, in which case it is still in the buffer (`c16_BufHas`). -/
theorem C16_anomaly_any_depth (env : REnv) (p : Str → Attrs → List XmlNode → Bool) (w : Str)
    (hp : ∀ name as cs, p name as cs = true → w ∈ c16_ownWarn env name as cs)
    (f : Nat) (st : RState) (ns : List XmlNode) (r : ReadResult) (st' : RState)
    (h : readAll env f st ns = .ok (r, st'))
    (ho : c16_occursL p ns = true ∨ c16_occursL p st.deleted = true) :
    w ∈ r.messages ∨ c16_BufHas w (c16_pend env st'.deleted) :=
  c16_read_anomaly env p w hp f st ns r st' h ho

/-- …so when nothing is held back at the end, it IS among the messages -/
theorem C16_anomaly_any_depth_reported (env : REnv) (p : Str → Attrs → List XmlNode → Bool) (w : Str)
    (hp : ∀ name as cs, p name as cs = true → w ∈ c16_ownWarn env name as cs)
    (f : Nat) (st : RState) (ns : List XmlNode) (r : ReadResult) (st' : RState)
    (h : readAll env f st ns = .ok (r, st')) (ho : c16_occursL p ns = true) (hend : st'.deleted = []) :
    w ∈ r.messages := by
  rcases c16_read_anomaly env p w hp f st ns r st' h (Or.inl ho) with h1 | h2
  · exact h1
  · rw [hend, c16_pend_nil] at h2
    exact absurd h2 (c16_not_BufHas_noBuf w)

/-- UNKNOWN ELEMENT, any depth: an element named `x` (no reader, not on the ignore list) at a read position -/
theorem C16_unknown_element_any_depth (env : REnv) (x : Str) (hx : handlerOf x = none)
    (hi : x ∉ Generated.ignored) (f : Nat) (st : RState) (ns : List XmlNode) (r : ReadResult) (st' : RState)
    (h : readAll env f st ns = .ok (r, st'))
    (ho : c16_occursL (fun name _ _ => name == x) ns = true) (hend : st'.deleted = []) :
    (S!"An unrecognised element was ignored: " ++ x) ∈ r.messages := by
  refine C16_anomaly_any_depth_reported env _ _ ?_ f st ns r st' h ho hend
  intro name as cs hn
  have : name = x := by simpa using hn
  subst this
  simp [c16_ownWarn, c16_kindOf_none hx, c16_unknownWarn, hi]

/-- UNDEFINED PARAGRAPH STYLE, any depth: a `w:p` (mark not deleted) whose `w:pPr/w:pStyle` is an id that
    `styles.xml` does not define as a paragraph style -/
theorem C16_undefined_paragraph_style_any_depth (env : REnv) (sid : Str)
    (hs : lookupLast (some sid) env.styles.paragraph = none)
    (f : Nat) (st : RState) (ns : List XmlNode) (r : ReadResult) (st' : RState)
    (h : readAll env f st ns = .ok (r, st'))
    (ho : c16_occursL (fun name _ cs => name == S!"w:p" && !c16_delMark cs &&
            (childAttr S!"w:pStyle" S!"w:val" (findChildOrNull S!"w:pPr" cs).2 == some sid)) ns = true)
    (hend : st'.deleted = []) :
    (S!"Paragraph style with ID " ++ sid ++ S!" was referenced but not defined in the document") ∈ r.messages := by
  refine C16_anomaly_any_depth_reported env _ _ ?_ f st ns r st' h ho hend
  intro name as cs hn
  simp only [Bool.and_eq_true, beq_iff_eq, Bool.not_eq_true'] at hn
  obtain ⟨⟨rfl, hd⟩, hsid⟩ := hn
  have hk : c16_kindOf S!"w:p" = .paragraph := by decide
  simp [c16_ownWarn, hk, hd, c16_styleWarn, hsid, hs]

/-- UNDEFINED RUN STYLE, any depth -/
theorem C16_undefined_run_style_any_depth (env : REnv) (sid : Str)
    (hs : lookupLast (some sid) env.styles.character = none)
    (f : Nat) (st : RState) (ns : List XmlNode) (r : ReadResult) (st' : RState)
    (h : readAll env f st ns = .ok (r, st'))
    (ho : c16_occursL (fun name _ cs => name == S!"w:r" &&
            (childAttr S!"w:rStyle" S!"w:val" (findChildOrNull S!"w:rPr" cs).2 == some sid)) ns = true)
    (hend : st'.deleted = []) :
    (S!"Run style with ID " ++ sid ++ S!" was referenced but not defined in the document") ∈ r.messages := by
  refine C16_anomaly_any_depth_reported env _ _ ?_ f st ns r st' h ho hend
  intro name as cs hn
  simp only [Bool.and_eq_true, beq_iff_eq] at hn
  obtain ⟨rfl, hsid⟩ := hn
  have hk : c16_kindOf S!"w:r" = .run := by decide
  simp [c16_ownWarn, hk, c16_styleWarn, hsid, hs]

/-- UNDEFINED TABLE STYLE, any depth -/
theorem C16_undefined_table_style_any_depth (env : REnv) (sid : Str)
    (hs : lookupLast (some sid) env.styles.table = none)
    (f : Nat) (st : RState) (ns : List XmlNode) (r : ReadResult) (st' : RState)
    (h : readAll env f st ns = .ok (r, st'))
    (ho : c16_occursL (fun name _ cs => name == S!"w:tbl" &&
            (childAttr S!"w:tblStyle" S!"w:val" (findChildOrNull S!"w:tblPr" cs).2 == some sid)) ns = true)
    (hend : st'.deleted = []) :
    (S!"Table style with ID " ++ sid ++ S!" was referenced but not defined in the document") ∈ r.messages := by
  refine C16_anomaly_any_depth_reported env _ _ ?_ f st ns r st' h ho hend
  intro name as cs hn
  simp only [Bool.and_eq_true, beq_iff_eq] at hn
  obtain ⟨rfl, hsid⟩ := hn
  have hk : c16_kindOf S!"w:tbl" = .table := by decide
  simp [c16_ownWarn, hk, c16_styleWarn, hsid, hs]

/-! ### composition to the package and to the public entry point -/

/-- THE MESSAGES OF `docx.read` are, for every package and every fuel, the warnings the specification
    prescribes for the four stories of the package — footnotes, endnotes, comments, body, in this order —
    each in its own environment (`c16_pkgStories`, `c16_readerWarnings`: no fuel, no reader state) -/
theorem C16_reader_messages_package (p : Package) (fuel : Nat) (doc : Document) (msgs : List Str)
    (h : readPackage p fuel = .ok (doc, msgs)) : c16_readerWarnings p = .ok msgs :=
  c16_readPackage_messages p fuel doc msgs h

/-- the messages of a whole conversion, reader part specified: `unique` of
      warnings of the explicit style map ++ warnings of the embedded style map
      ++ the reader warnings of the stories (footnotes, endnotes, comments, body; per `c16_xmlWarnings`)
      ++ the messages the converter records while visiting the (transformed) document -/
theorem C16_api_messages_reader_spec (p : Package) (fuel : Nat) (base : Option Str)
    (world : Str → Option Bytes) (tr : Document → Document) (o : Options) (r : ApiOut)
    (h : apiConvert p fuel base world tr o = .ok r) :
    ∃ embedded stories doc nodes st,
      (if o.includeEmbedded then readEmbeddedStyleMap p else .ok none) = .ok embedded ∧
      c16_pkgStories p = .ok stories ∧
      readPackage p fuel = .ok (doc, c16_storiesWarnings stories) ∧
      (visitDocument { c16_apiCfg p base world o embedded with comments := (tr doc).comments }
          (tr doc)).run {} = .ok (nodes, st) ∧
      r.messages =
        unique (c16_styleWarnings (o.styleMap.getD []) ++ c16_styleWarnings (embedded.getD []) ++
                c16_storiesWarnings stories ++ st.messages) := by
  obtain ⟨embedded, doc, readMsgs, nodes, st, he, hd, hv, hm, _⟩ :=
    C16_api_messages_flat p fuel base world tr o r h
  obtain ⟨stories, hs, rfl⟩ :=
    c16_readerWarnings_stories p readMsgs (c16_readPackage_messages p fuel doc readMsgs hd)
  exact ⟨embedded, stories, doc, nodes, st, he, hs, hd, hv, hm⟩

/-! ### the converter side: messages = an independent traversal of the document -/

/-- WHAT VISITING AN ELEMENT RECORDS.  For every configuration, element and converter state: the messages
    added are exactly the warnings among `c16_cevs cfg e` (Proofs/C16_ConvSpec.lean: by recursion on the
    document tree — "Unrecognised paragraph/run style" for a paragraph / run that has a style id and no
    matching mapping, the `Image.open` warning of an image that cannot be opened, nothing below an element
    mapped to `!`), the note references and the referenced comments added are the ones among these events -/
theorem C16_visit_records (cfg : Cfg) (hdr : Bool) (e : Elem) (st st' : ConvState) (ns : List Node)
    (h : (visit cfg hdr e).run st = .ok (ns, st')) :
    st'.messages = st.messages ++ c16_cWarns (c16_cevs cfg e) ∧
    st'.noteRefs = st.noteRefs ++ c16_cRefs (c16_cevs cfg e) ∧
    st'.refComments.map Prod.snd = st.refComments.map Prod.snd ++ c16_cComments cfg (c16_cevs cfg e) := by
  have p := c16_visit_events cfg hdr e st ns st' h
  exact ⟨p.msgs, p.refs, p.comments⟩

/-- THE MESSAGES OF THE CONVERTER for a whole document: `unique` of the warnings of the body, then of the
    notes the body references (in order of reference), then of the comments referenced from body and notes
    (`c16_docWarnings`) -/
theorem C16_convert_messages_spec (cfg : Cfg) (d : Document) (cr : ConvResult)
    (h : convertDoc cfg d = .ok cr) : cr.messages = unique (c16_docWarnings cfg d) :=
  c16_convertDoc_messages cfg d cr h

/-- THE MESSAGES OF A WHOLE CONVERSION are `unique` of
      the warnings of the explicit style map ++ the warnings of the embedded style map
      ++ the reader warnings of the stories of the package (footnotes, endnotes, comments, body: `c16_xmlWarnings`)
      ++ the converter warnings of the (transformed) document that was read (`c16_docWarnings`)
    — every distinct warning once, at the position of its first occurrence in this order -/
theorem C16_api_messages_spec (p : Package) (fuel : Nat) (base : Option Str)
    (world : Str → Option Bytes) (tr : Document → Document) (o : Options) (r : ApiOut)
    (h : apiConvert p fuel base world tr o = .ok r) :
    ∃ embedded stories doc,
      (if o.includeEmbedded then readEmbeddedStyleMap p else .ok none) = .ok embedded ∧
      c16_pkgStories p = .ok stories ∧
      readPackage p fuel = .ok (doc, c16_storiesWarnings stories) ∧
      r.messages =
        unique (c16_styleWarnings (o.styleMap.getD []) ++ c16_styleWarnings (embedded.getD []) ++
                c16_storiesWarnings stories ++
                c16_docWarnings (c16_apiCfg p base world o embedded) (tr doc)) ∧
      r.messages.Nodup := by
  obtain ⟨embedded, stories, doc, nodes, st, he, hs, hd, hv, hm⟩ :=
    C16_api_messages_reader_spec p fuel base world tr o r h
  have pv := c16_visitDocument_events _ (tr doc) {} st nodes rfl rfl hv
  refine ⟨embedded, stories, doc, he, hs, hd, ?_, by rw [hm]; exact C16_unique_nodup _⟩
  rw [hm, pv.msgs]
  rfl

/-- A CLEAN PACKAGE CONVERTS WITHOUT ANY MESSAGE: every story is clean XML (`c16_pkgXmlClean`), every line
    of the explicit and of the embedded style map parses (`c16_styleMapOk`), and every styled paragraph / run
    of the document that was read is recognised by a mapping and every image can be opened (`c16_docClean`,
    on the transformed document, under the configuration of this conversion) -/
theorem C16_clean_package_silent (p : Package) (fuel : Nat) (base : Option Str)
    (world : Str → Option Bytes) (tr : Document → Document) (o : Options) (r : ApiOut)
    (embedded : Option Str) (doc : Document) (msgs : List Str)
    (h : apiConvert p fuel base world tr o = .ok r)
    (hx : c16_pkgXmlClean p = true)
    (hs1 : c16_styleMapOk (o.styleMap.getD []) = true)
    (he : (if o.includeEmbedded then readEmbeddedStyleMap p else .ok none) = .ok embedded)
    (hs2 : c16_styleMapOk (embedded.getD []) = true)
    (hd : readPackage p fuel = .ok (doc, msgs))
    (hc : c16_docClean (c16_apiCfg p base world o embedded) (tr doc) = true) :
    r.messages = [] := by
  obtain ⟨embedded', stories, doc', nodes, st, he', hs, hd', hv, hm⟩ :=
    C16_api_messages_reader_spec p fuel base world tr o r h
  rw [he] at he'
  cases he'
  rw [hd] at hd'
  cases hd'
  have hw : c16_storiesWarnings stories = [] := by
    unfold c16_pkgXmlClean at hx
    rw [hs] at hx
    exact c16_storiesWarnings_clean stories hx
  simp only [c16_docClean, Bool.and_eq_true, List.all_eq_true] at hc
  have hq := c16_visitDocument_quiet { c16_apiCfg p base world o embedded with comments := (tr doc).comments }
    (tr doc) {} st nodes (fun _ hlc => by cases hlc)
    (by rw [c16_cleanL_comments]; exact hc.1.1)
    (fun n hmem => by rw [c16_cleanL_comments]; exact hc.1.2 n hmem)
    (fun c hmem => by rw [c16_cleanL_comments]; exact hc.2 c hmem) hv
  rw [hm, c16_styleMapOk_warn _ hs1, c16_styleMapOk_warn _ hs2, hw, hq]
  rfl

/-! ### examples for the global statements -/

/-- the specification on a small story with every kind of reordering: a deleted-mark paragraph (its unknown
    element and its open FORMCHECKBOX field are read by the next paragraph, which is inside a table cell),
    the field ending directly inside a nested table (a stray check box: "non-row"), a text box ending with
    a deleted mark, and an unsupported symbol -/
example :
    c16_xmlWarnings {} [
      .elem S!"w:p" [] [.elem S!"w:pPr" [] [.elem S!"w:rPr" [] [.elem S!"w:del" [] []]],
        .elem S!"w:r" [] [.elem S!"w:foo" [] []],
        .elem S!"w:r" [] [.elem S!"w:fldChar" [(S!"w:fldCharType", S!"begin")] [],
                          .elem S!"w:instrText" [] [.text S!" FORMCHECKBOX "]]],
      .elem S!"w:tbl" [] [.elem S!"w:tr" [] [.elem S!"w:tc" [] [
        .elem S!"w:p" [] [.elem S!"w:pPr" [] [.elem S!"w:pStyle" [(S!"w:val", S!"X")] []],
                          .elem S!"w:r" [] [.elem S!"w:br" [(S!"w:type", S!"odd")] []]],
        .elem S!"w:tbl" [] [.elem S!"w:fldChar" [(S!"w:fldCharType", S!"end")] [],
                            .elem S!"w:tr" [] [.elem S!"w:bar" [] []]]]]],
      .elem S!"w:p" [] [.elem S!"w:sym" [(S!"w:font", S!"Nope"), (S!"w:char", S!"41")] []]] =
    [S!"Paragraph style with ID X was referenced but not defined in the document",
     S!"An unrecognised element was ignored: w:foo",
     S!"Unsupported break type: odd",
     S!"An unrecognised element was ignored: w:bar",
     S!"unexpected non-row element in table, cell merging may be incorrect",
     S!"A w:sym element with an unsupported character was ignored: char 41 in font Nope"] := by
  decide +kernel

/-- the converter specification on a small document: an unmapped paragraph style, inside it an unmapped run
    style and a linked image that cannot be opened; a paragraph sent to `!` (its styled run is never
    visited: no warning); the same unmapped paragraph style again -/
example :
    c16_docWarnings { styleMap := [⟨.paragraph (some S!"Drop") none none, .ignore⟩] }
      { children := [
          .paragraph { styleId := some S!"P1", styleName := some S!"Para One" } [
            .run { styleId := some S!"R1" } [.text S!"x"], .image { src := .linked S!"a.png" }],
          .paragraph { styleId := some S!"Drop" } [.run { styleId := some S!"R2" } [.text S!"y"]],
          .paragraph { styleId := some S!"P1", styleName := some S!"Para One" } []],
        notes := [], comments := [] } =
    [S!"Unrecognised paragraph style: Para One (Style ID: P1)",
     S!"Unrecognised run style: None (Style ID: R1)",
     S!"could not find external image 'a.png', fileobj has no name",
     S!"Unrecognised paragraph style: Para One (Style ID: P1)"] := by
  decide +kernel

/-- A CONCRETE, NON-TRIVIAL CLEAN PACKAGE (Proofs/C16_Example.lean: styles, a footnote, an image, a table
    with a spanning cell, a text box, a hyperlink, a dingbat, …) satisfies every hypothesis of
    `C16_clean_package_silent` under the default options, and converts with no message -/
example : c16_pkgXmlClean c16_exCleanPkg = true := by decide +kernel
example : c16_styleMapOk (({} : Options).styleMap.getD []) = true := by decide
example : (readEmbeddedStyleMap c16_exCleanPkg).toOption = some none := by decide +kernel
example :
    (match readPackage c16_exCleanPkg 30 with
     | .ok (doc, _) => c16_docClean (c16_apiCfg c16_exCleanPkg none (fun _ => none) {} none) doc
     | .error _ => false) = true := by decide +kernel
example :
    ((apiConvert c16_exCleanPkg 30 none (fun _ => none) id {}).toOption.map (·.messages)) = some [] := by
  decide +kernel

/-- TWO IDENTICAL ANOMALIES AT DIFFERENT DEPTHS, ONE WARNING: the unknown element `w:foo` inside a run of
    the body and inside a table cell in a text box in the footnote — the reader reports it twice (footnotes
    first), the conversion once -/
example :
    (c16_readerWarnings c16_exAnomalyPkg).toOption =
      some [S!"An unrecognised element was ignored: w:foo", S!"An unrecognised element was ignored: w:foo"] := by
  decide +kernel
example :
    ((apiConvert c16_exAnomalyPkg 30 none (fun _ => none) id {}).toOption.map (·.messages)) =
      some [S!"An unrecognised element was ignored: w:foo"] := by
  decide +kernel

/-- the hypotheses of the any-depth theorems are met by that package's footnote story: `w:foo` occurs (four
    containers deep), it has no reader and is not ignored -/
example :
    c16_occursL (fun name _ _ => name == S!"w:foo")
      [c16_exFootnotes [c16_exEl S!"w:foo"]] = false ∧      -- the part's root is not a story node …
    c16_occursL (fun name _ _ => name == S!"w:foo")
      (c16_noteNodes S!"footnote" [.elem S!"w:footnote" [(S!"w:id", S!"1")] [
        c16_exPara [c16_exTextBox [c16_exEl S!"w:tbl" [c16_exEl S!"w:tr" [c16_exEl S!"w:tc" [c16_exEl S!"w:foo"]]]]]]]) = true ∧
    handlerOf S!"w:foo" = none ∧ S!"w:foo" ∉ Generated.ignored := by
  decide +kernel

/-- the any-depth theorems are not vacuous: an undefined run style and an unknown element three containers
    deep in a table; the reader ends with nothing held back and reports both -/
example :
    let ns : List XmlNode := [c16_exEl S!"w:tbl" [c16_exEl S!"w:tr" [c16_exEl S!"w:tc" [c16_exPara [
      c16_exRun [c16_exEl S!"w:rPr" [c16_exVal S!"w:rStyle" S!"Ghost"], c16_exEl S!"w:foo"]]]]]]
    c16_occursL (fun name _ _ => name == S!"w:foo") ns = true ∧
    c16_occursL (fun name _ cs => name == S!"w:r" &&
      (childAttr S!"w:rStyle" S!"w:val" (findChildOrNull S!"w:rPr" cs).2 == some S!"Ghost")) ns = true ∧
    lookupLast (some S!"Ghost") ({} : REnv).styles.character = none ∧
    (readAll {} 30 {} ns).toOption.map (fun x => (x.2.deleted.isEmpty, x.1.messages)) =
      some (true, [S!"Run style with ID Ghost was referenced but not defined in the document",
                   S!"An unrecognised element was ignored: w:foo"]) := by
  decide +kernel

/-- …and the second disjunct of `C16_anomaly_any_depth` is needed: an anomaly in a deleted-mark paragraph at
    the END of a story is never read (the reader is left holding the content) — no warning -/
example :
    let ns : List XmlNode := [c16_exPara [c16_exEl S!"w:pPr" [c16_exEl S!"w:rPr" [c16_exEl S!"w:del"]],
                                          c16_exRun [c16_exEl S!"w:foo"]]]
    c16_occursL (fun name _ _ => name == S!"w:foo") ns = true ∧
    (readAll {} 30 {} ns).toOption.map (fun x => (x.2.deleted.length, x.1.messages)) = some (2, []) ∧
    -- followed by any paragraph, it is reported by that paragraph
    (readAll {} 30 {} (ns ++ [c16_exPara []])).toOption.map (fun x => (x.2.deleted.length, x.1.messages)) =
      some (0, [S!"An unrecognised element was ignored: w:foo"]) := by
  decide +kernel

/-- clean and not clean -/
example : c16_xmlCleanL {} (c16_exBody []) = false := by decide +kernel   -- styles undefined in the empty environment
example : c16_xmlCleanL {} [c16_exPara [c16_exTxt S!"x"], c16_exEl S!"w:tbl" [c16_exEl S!"w:tr" [c16_exEl S!"w:tc" [c16_exPara []]]]] = true := by
  decide +kernel
example : c16_xmlCleanL {} [c16_exEl S!"w:tbl" [c16_exEl S!"w:tr" [c16_exPara []]]] = false := by decide +kernel

/-- The tables of the library that this property's theorems consume (regenerated from /repo's source on this run) still have the
    content the model was validated against: the reader's dispatch table; the set of deliberately ignored elements; the browser-friendly image types; the dingbat table (entries and checksums).  An edit of one of them in the library changes model and code
    alike; it is this theorem that then no longer checks (`Proofs/Pins.lean`). -/
theorem C16_tables_as_validated :
    (Generated.handlers = pin_handlers) ∧
    (sameSet Generated.ignored pin_ignored = true) ∧
    (sameSet Generated.browserImageTypes pin_browserImageTypes = true) ∧
    (dingbatSums Generated.dingbats = (1061, 217117, 77998056)) :=
  ⟨pins_handlers, pins_ignored, pins_browserImageTypes, pins_dingbats⟩

end Mammoth
