/-
  C16 — everything the converter skips is reported once; clean documents report nothing.
  Property theorems only; helper lemmas live in Proofs/C16_*.lean.
-/
import Proofs.C16_Api
import Proofs.C16_Clean
import Proofs.C16_Image
namespace Mammoth

/-! ### `unique`: reported ONCE -/

section
variable {α : Type} [DecidableEq α]

/-- the de-duplicated list has no repetition -/
theorem C16_unique_nodup (l : List α) : (unique l).Nodup := c16_uniqueAux_nodup [] l

/-- nothing is lost and nothing invented -/
theorem C16_unique_mem (l : List α) (x : α) : x ∈ unique l ↔ x ∈ l := by
  simp [unique, c16_uniqueAux_mem]

/-- the order of first occurrences is kept: `unique l` is a sublist of `l` … -/
theorem C16_unique_order (l : List α) : (unique l).Sublist l := c16_uniqueAux_sublist [] l

/-- … a list without repetition is left alone … -/
theorem C16_unique_of_nodup (l : List α) (h : l.Nodup) : unique l = l :=
  c16_uniqueAux_of_nodup [] l h (fun _ _ hx => by cases hx)

/-- … and a new last element is kept iff it did not occur before (so each element stays at the
    position of its FIRST occurrence) -/
theorem C16_unique_snoc (l : List α) (x : α) :
    unique (l ++ [x]) = if x ∈ l then unique l else unique l ++ [x] := by
  unfold unique
  rw [c16_uniqueAux_append, List.append_nil]
  by_cases h : x ∈ l
  · rw [c16_uniqueAux_cons_mem _ _ _ h]; simp [h, uniqueAux]
  · rw [c16_uniqueAux_cons_not_mem _ _ _ h]; simp [h, uniqueAux]

/-- the nested de-duplications of the code (`Result.map`/`bind`/`combine` each call `unique`)
    compose to a single one -/
theorem C16_unique_append_unique (a b : List α) :
    unique (a ++ unique b) = unique (a ++ b) ∧ unique (unique a ++ b) = unique (a ++ b) := by
  constructor
  · have := c16_unique_mid a b []
    simpa using this
  · exact c16_uniqueAux_unique_append [] a b

theorem C16_unique_idem (l : List α) : unique (unique l) = unique l := by
  have := c16_uniqueAux_unique_append [] l []
  simpa [unique] using this
end

/-! ### what the public entry point reports -/

/-- the messages of `mammoth.convert` are the option (style map) messages, then the reader's,
    then the converter's, de-duplicated -/
theorem C16_api_messages (p : Package) (fuel : Nat) (base : Option Str) (world : Str → Option Bytes)
    (tr : Document → Document) (o : Options) (r : ApiOut)
    (h : apiConvert p fuel base world tr o = .ok r) :
    ∃ embedded doc readMsgs cr,
      (if o.includeEmbedded then readEmbeddedStyleMap p else .ok none) = .ok embedded ∧
      readPackage p fuel = .ok (doc, readMsgs) ∧
      convertDoc (c16_apiCfg p base world o embedded) (tr doc) = .ok cr ∧
      r.messages =
        unique ((readOptions o.styleMap embedded o.includeDefault).2 ++ readMsgs ++ cr.messages) := by
  rw [c16_apiConvert_eq] at h
  cases he : (if o.includeEmbedded = true then readEmbeddedStyleMap p else .ok none) with
  | error e => rw [he] at h; cases h
  | ok embedded =>
    rw [he] at h
    simp only [c16_apiRest] at h
    cases hd : readPackage p fuel with
    | error e => rw [hd] at h; cases h
    | ok dr =>
      obtain ⟨doc, readMsgs⟩ := dr
      rw [hd] at h
      simp only at h
      cases hc : convertDoc (c16_apiCfg p base world o embedded) (tr doc) with
      | error e => rw [hc] at h; cases h
      | ok cr =>
        rw [hc] at h
        cases h
        exact ⟨embedded, doc, readMsgs, cr, rfl, rfl, hc, rfl⟩

/-- the converter's own messages are its state's message list, de-duplicated -/
theorem C16_convertDoc_messages (cfg : Cfg) (d : Document) (cr : ConvResult)
    (h : convertDoc cfg d = .ok cr) :
    ∃ nodes st, (visitDocument { cfg with comments := d.comments } d).run {} = .ok (nodes, st) ∧
      cr.messages = unique st.messages := by
  unfold convertDoc at h
  split at h
  · rename_i nodes st hv
    cases h
    exact ⟨nodes, st, hv, rfl⟩
  · cases h

/-- all in all: ONE de-duplication of (warnings of the explicit style map, of the embedded one,
    reader messages, converter messages) — every distinct message exactly once, ordered by first
    occurrence -/
theorem C16_api_messages_flat (p : Package) (fuel : Nat) (base : Option Str)
    (world : Str → Option Bytes) (tr : Document → Document) (o : Options) (r : ApiOut)
    (h : apiConvert p fuel base world tr o = .ok r) :
    ∃ embedded doc readMsgs nodes st,
      (if o.includeEmbedded then readEmbeddedStyleMap p else .ok none) = .ok embedded ∧
      readPackage p fuel = .ok (doc, readMsgs) ∧
      (visitDocument { c16_apiCfg p base world o embedded with comments := (tr doc).comments }
          (tr doc)).run {} = .ok (nodes, st) ∧
      r.messages =
        unique (c16_styleWarnings (o.styleMap.getD []) ++ c16_styleWarnings (embedded.getD []) ++
                readMsgs ++ st.messages) ∧
      r.messages.Nodup := by
  obtain ⟨embedded, doc, readMsgs, cr, he, hd, hc, hm⟩ := C16_api_messages p fuel base world tr o r h
  obtain ⟨nodes, st, hv, hcm⟩ := C16_convertDoc_messages _ _ _ hc
  refine ⟨embedded, doc, readMsgs, nodes, st, he, hd, hv, ?_, ?_⟩
  · rw [hm, hcm]
    show unique (unique ((readStyleMap (o.styleMap.getD [])).2 ++ (readStyleMap (embedded.getD [])).2)
            ++ readMsgs ++ unique st.messages) = _
    rw [c16_readStyleMap_messages, c16_readStyleMap_messages]
    rw [(C16_unique_append_unique _ st.messages).1, List.append_assoc,
      (C16_unique_append_unique _ _).2, List.append_assoc, (C16_unique_append_unique _ _).2,
      c16_unique_mid]
    simp only [List.append_assoc]
  · rw [hm]; exact C16_unique_nodup _

/-! ### the converter only adds messages -/

/-- visiting an element never removes or reorders earlier messages -/
theorem C16_messages_monotone (cfg : Cfg) (hdr : Bool) (e : Elem) (st st' : ConvState)
    (ns : List Node) (h : (visit cfg hdr e).run st = .ok (ns, st')) :
    st.messages <+: st'.messages := c16_mono_visit cfg hdr e st ns st' h

theorem C16_messages_monotone_all (cfg : Cfg) (hdr : Bool) (es : List Elem) (st st' : ConvState)
    (ns : List Node) (h : (visitAll cfg hdr es).run st = .ok (ns, st')) :
    st.messages <+: st'.messages := c16_mono_visitAll cfg hdr es st ns st' h

theorem C16_messages_monotone_rows (cfg : Cfg) (b : Bool) (rs : List Elem) (st st' : ConvState)
    (r : List Node × List Node) (h : (visitRows cfg b rs).run st = .ok (r, st')) :
    st.messages <+: st'.messages := c16_mono_visitRows cfg b rs st r st' h

/-- "Unrecognised paragraph/run style": exactly one message iff no mapping matches and the element
    has a style id; otherwise none -/
theorem C16_unrecognised_style_warns (cfg : Cfg) (t : Target) (kind : Str) (sid sname : Option Str)
    (d : HtmlPath) (st : ConvState) :
    ∃ p st', (findPathWarn cfg t kind sid sname d).run st = .ok (p, st') ∧
      st'.messages = st.messages ++
        (match findStyle cfg.upper cfg.styleMap t, sid with
         | none, some i => [S!"Unrecognised " ++ kind ++ S!" style: " ++ pyOpt sname ++
                              S!" (Style ID: " ++ i ++ S!")"]
         | _, _ => []) ∧
      st'.noteRefs = st.noteRefs ∧ st'.ioTrace = st.ioTrace ∧ st'.imageCalls = st.imageCalls := by
  refine ⟨_, _, c03_findPathWarn_run cfg t kind sid sname d st, ?_⟩
  unfold c03_warnState findPath
  cases findStyle cfg.upper cfg.styleMap t with
  | some s => simp
  | none =>
    cases sid with
    | none => simp
    | some i => simp [c03_styleWarning]

/-- AN IMAGE THAT CANNOT BE OPENED IS REPORTED, an image that can is not: when the image
    converter opens images, converting an image adds exactly the warning of `Image.open`
    (`c16_openError`: "could not open external image …" / "could not find external image …"), if
    there is one, and nothing otherwise; a converter that does not open images adds nothing -/
theorem C16_image_warns (cfg : Cfg) (hdr : Bool) (i : ImageProps) (st st' : ConvState) (ns : List Node)
    (h : (visit cfg hdr (.image i)).run st = .ok (ns, st')) :
    st'.messages = st.messages ++
      (if c16_opens cfg then
        (match c16_openError cfg i.src with
         | some m => [m]
         | none => [])
       else []) := by
  rw [visit] at h
  by_cases ho : c16_opens cfg = true
  · simp only [ho, if_true]
    cases he : c16_openError cfg i.src with
    | some m =>
      obtain ⟨st2, hrun, hm⟩ := c16_convertImage_fails cfg i m st ho he
      rw [hrun] at h; cases h
      exact hm
    | none =>
      have hok : c16_imageOk cfg i = true := by
        unfold c16_imageOk
        rw [(c16_openError_none_iff cfg i.src).mp he, Bool.or_true]
      simpa using (c16_quiet_convertImage [] cfg i hok st ns st' h).1.1
  · have hok : c16_imageOk cfg i = true := by
      unfold c16_imageOk
      unfold c16_opens at ho
      cases hc : cfg.imageConv with
      | dataUri => simp [hc] at ho
      | fixed attrs o => cases o <;> simp_all
    simp only [ho, Bool.false_eq_true, if_false, List.append_nil]
    exact (c16_quiet_convertImage [] cfg i hok st ns st' h).1.1

/-- …and in the failing case no `img` is produced -/
theorem C16_unopenable_image_dropped (cfg : Cfg) (hdr : Bool) (i : ImageProps) (st : ConvState)
    (m : Str) (ho : c16_opens cfg = true) (he : c16_openError cfg i.src = some m) :
    ∃ st', (visit cfg hdr (.image i)).run st = .ok ([], st') ∧ st'.messages = st.messages ++ [m] := by
  rw [visit]
  exact c16_convertImage_fails cfg i m st ho he

/-! ### clean documents report nothing -/

/-- CLEAN ELEMENTS ARE SILENT.  `c16_cleanL cfg es` (decidable; defined in Proofs/C16_Clean.lean)
    says: every paragraph and run has a matching mapping or no style id, and every image can be
    opened (or the image converter does not open images).  Then converting `es` adds no message. -/
theorem C16_clean_elements_silent (cfg : Cfg) (hdr : Bool) (es : List Elem) (st st' : ConvState)
    (ns : List Node) (hc : c16_cleanL cfg es = true)
    (h : (visitAll cfg hdr es).run st = .ok (ns, st')) : st'.messages = st.messages :=
  (c16_quiet_visitAll cfg hdr es hc st ns st' h).1.1

/-- A CLEAN DOCUMENT (body, notes and comments clean) converts without any message -/
theorem C16_clean_document_silent (cfg : Cfg) (d : Document) (cr : ConvResult)
    (hc : c16_cleanL cfg d.children = true)
    (hn : ∀ n ∈ d.notes, c16_cleanL cfg n.body = true)
    (hcm : ∀ c ∈ d.comments, c16_cleanL cfg c.body = true)
    (h : convertDoc cfg d = .ok cr) : cr.messages = [] := by
  obtain ⟨nodes, st, hv, hm⟩ := C16_convertDoc_messages cfg d cr h
  have := c16_visitDocument_quiet { cfg with comments := d.comments } d {} st nodes
    (fun _ hlc => by cases hlc)
    (by rw [c16_cleanL_comments]; exact hc)
    (fun n hmem => by rw [c16_cleanL_comments]; exact hn n hmem)
    (fun c hmem => by rw [c16_cleanL_comments]; exact hcm c hmem) hv
  rw [hm, this]
  rfl

/-- NOT everything that falls back is reported: a table whose style no mapping matches becomes a
    plain `table` WITHOUT an "Unrecognised table style" warning (the code passes
    `warn_unrecognised=False` for tables) — with clean rows the message list is unchanged whatever
    the table's style id is -/
theorem C16_unmapped_table_style_not_reported (cfg : Cfg) (hdr : Bool) (sid sname : Option Str)
    (rows : List Elem) (st st' : ConvState) (ns : List Node)
    (hrows : c16_cleanL cfg rows = true)
    (h : (visit cfg hdr (.table sid sname rows)).run st = .ok (ns, st')) :
    st'.messages = st.messages :=
  (c16_quiet_visit cfg hdr (.table sid sname rows) (by rw [c16_clean]; exact hrows) st ns st' h).1.1

/-! ### what the reader reports -/

/-- no element name that is silently ignored has a handler -/
theorem C16_ignored_no_handler : ∀ n ∈ Generated.ignored, handlerOf n = none := by decide

/-- an element without handler that is not on the ignore list: one warning naming it, nothing else -/
theorem C16_unknown_element_warns (env : REnv) (f : Nat) (st : RState) (name : Str) (as : Attrs)
    (cs : List XmlNode) (hh : handlerOf name = none) (hi : name ∉ Generated.ignored) :
    readElem env (f + 1) st (.elem name as cs) =
      .ok ({ elements := [], extra := [],
             messages := [S!"An unrecognised element was ignored: " ++ name] }, st) := by
  rw [c16_readElem_nohandler env f st name as cs hh]
  have : Generated.ignored.contains name = false := by simpa using hi
  simp only [this, Bool.false_eq_true, if_false]
  rfl

/-- an element on the ignore list is skipped without any message -/
theorem C16_ignored_element_silent (env : REnv) (f : Nat) (st : RState) (name : Str) (as : Attrs)
    (cs : List XmlNode) (hi : name ∈ Generated.ignored) :
    readElem env (f + 1) st (.elem name as cs) = .ok ({ elements := [], extra := [], messages := [] }, st) := by
  rw [c16_readElem_nohandler env f st name as cs (C16_ignored_no_handler name hi)]
  have : Generated.ignored.contains name = true := by simpa using hi
  simp only [this, if_true]

/-- a style reference: the "referenced but not defined" message iff an id is given and the
    table has no entry for it -/
theorem C16_undefined_style_warns (props : List XmlNode) (tag kind : Str)
    (table : List (Option Str × Option Str)) :
    (readStyle props tag kind table).2 =
      match childAttr tag S!"w:val" props with
      | none => []
      | some sid =>
        if lookupLast (some sid) table = none then
          [kind ++ S!" style with ID " ++ sid ++ S!" was referenced but not defined in the document"]
        else [] := by
  unfold readStyle
  cases childAttr tag S!"w:val" props with
  | none => rfl
  | some sid =>
    simp only
    cases h : lookupLast (some sid) table <;> simp

/-- …and the id is kept either way -/
theorem C16_undefined_style_keeps_id (props : List XmlNode) (tag kind : Str)
    (table : List (Option Str × Option Str)) :
    (readStyle props tag kind table).1.1 = childAttr tag S!"w:val" props := by
  unfold readStyle
  cases childAttr tag S!"w:val" props with
  | none => rfl
  | some sid =>
    simp only
    cases h : lookupLast (some sid) table <;> rfl

/-- breaks: an unsupported `w:type` is reported (and produces no element); the supported ones
    (absent, empty, `textWrapping`, `page`, `column`) produce a break and no message -/
theorem C16_break_warns (as : Attrs) :
    readBreak as =
      match attr? S!"w:type" as with
      | none => { elements := [.brk S!"line"], extra := [], messages := [] }
      | some t =>
        if t = [] ∨ t = S!"textWrapping" then { elements := [.brk S!"line"], extra := [], messages := [] }
        else if t = S!"page" then { elements := [.brk S!"page"], extra := [], messages := [] }
        else if t = S!"column" then { elements := [.brk S!"column"], extra := [], messages := [] }
        else { elements := [], extra := [], messages := [S!"Unsupported break type: " ++ t] } := by
  unfold readBreak
  cases attr? S!"w:type" as with
  | none => rfl
  | some t =>
    simp only [List.isEmpty_iff, Bool.or_eq_true, beq_iff_eq, rrElems, rrMsg]

/-- an image is always produced; a warning accompanies it iff its content type is not one of the
    types browsers display -/
theorem C16_image_type_warns (env : REnv) (path : Str) (src : ImageSrc) (alt : Option Str) :
    (readImage env path src alt).elements =
        [.image { altText := alt, contentType := findContentType env.contentTypes path, src := src }] ∧
    (readImage env path src alt).messages =
      if (match findContentType env.contentTypes path with
          | some c => Generated.browserImageTypes.contains c
          | none => false) = true then []
      else [S!"Image of type " ++ pyOpt (findContentType env.contentTypes path) ++
              S!" is unlikely to display in web browsers"] := by
  unfold readImage
  cases findContentType env.contentTypes path with
  | none => exact ⟨rfl, rfl⟩
  | some c =>
    simp only
    cases Generated.browserImageTypes.contains c <;> exact ⟨rfl, rfl⟩

/-- `w:br` is read by `readBreak` (so `C16_break_warns` is what the dispatcher reports) -/
theorem C16_break_element (env : REnv) (f : Nat) (st : RState) (as : Attrs) (cs : List XmlNode) :
    readElem env (f + 1) st (.elem S!"w:br" as cs) = .ok (readBreak as, st) := rfl

/-- `v:imagedata` without `r:id`: skipped with a warning -/
theorem C16_imagedata_without_id_warns (env : REnv) (f : Nat) (st : RState) (as : Attrs)
    (cs : List XmlNode) (h : attr? S!"r:id" as = none) :
    readElem env (f + 1) st (.elem S!"v:imagedata" as cs) =
      .ok ({ elements := [], extra := [],
             messages := [S!"A v:imagedata element without a relationship ID was ignored"] }, st) := by
  show (match attr? S!"r:id" as with | none => _ | some rid => _) = _
  rw [h]
  rfl

/-- `a:blip` with neither `r:embed` nor `r:link`: skipped with a warning -/
theorem C16_blip_without_rel_warns (env : REnv) (as : Attrs) (alt : Option Str)
    (h1 : attr? S!"r:embed" as = none) (h2 : attr? S!"r:link" as = none) :
    readBlip env as alt =
      .ok { elements := [], extra := [], messages := [S!"Could not find image file for a:blip element"] } := by
  unfold readBlip
  rw [h1, h2]
  rfl

/-- `w:sym` without `w:char`: skipped with a warning naming character and font -/
theorem C16_sym_without_char_warns (as : Attrs) (h : attr? S!"w:char" as = none) :
    readSymbol as =
      .ok { elements := [], extra := [],
            messages := [S!"A w:sym element with an unsupported character was ignored: char None in font " ++
                           pyOpt (attr? S!"w:font" as)] } := by
  unfold readSymbol
  simp only [h]
  rfl

/-- the messages of a sequence of nodes are those of the first element followed by those of the
    rest: nothing is dropped or reordered on the way up -/
theorem C16_reader_messages_concat (rd : RState → XmlNode → Except Err (ReadResult × RState))
    (st st1 st2 : RState) (name : Str) (as : Attrs) (cs rest : List XmlNode) (r1 r2 : ReadResult)
    (h1 : rd st (.elem name as cs) = .ok (r1, st1)) (h2 : readAllWith rd st1 rest = .ok (r2, st2)) :
    ∃ r, readAllWith rd st (.elem name as cs :: rest) = .ok (r, st2) ∧
      r.messages = r1.messages ++ r2.messages ∧ r.elements = r1.elements ++ r2.elements := by
  rw [readAllWith]
  · simp only [bind, Except.bind, h1, h2]
    exact ⟨_, rfl, rfl, rfl⟩
  · intro s hs; cases hs

/-! ### examples -/

/-- a linked image and no way to open it: reported -/
example :
    ((visit {} false (.image { src := .linked S!"a.png" })).run {}).toOption.map (·.2.messages) =
      some [S!"could not find external image 'a.png', fileobj has no name"] := by rfl

/-- a clean body, and one that is not (a styled paragraph nobody maps) -/
example : c16_cleanL {} [.paragraph {} [.run { bold := true } [.text S!"x"], .noteRef S!"footnote" S!"1"]] = true := by
  rfl
example : c16_cleanL {} [.paragraph { styleId := some S!"Fancy" } []] = false := by rfl
example : c16_cleanL { styleMap := [⟨.paragraph (some S!"Fancy") none none, .elements []⟩] }
            [.paragraph { styleId := some S!"Fancy" } []] = true := by rfl

example : unique [3, 1, 3, 2, 1] = [3, 1, 2] := by decide
example : unique ([1, 2] ++ unique [2, 2, 3]) = unique ([1, 2] ++ [2, 2, 3]) := by decide
example : (readBreak [(S!"w:type", S!"weird")]).messages = [S!"Unsupported break type: weird"] := by rfl
example : (readBreak [(S!"w:type", S!"page")]).messages = [] := by rfl
example : handlerOf S!"w:unknownThing" = none ∧ S!"w:unknownThing" ∉ Generated.ignored := by decide
example : S!"w:sectPr" ∈ Generated.ignored := by decide
/-- a styled paragraph without mapping: one warning; twice the same paragraph: the state has the
    message twice, the result of `unique` once -/
example :
    ((visitAll {} false [.paragraph { styleId := some S!"X" } [], .paragraph { styleId := some S!"X" } []]).run
        {}).toOption.map (fun r => (r.2.messages.length, (unique r.2.messages).length)) = some (2, 1) := by
  rfl

end Mammoth
