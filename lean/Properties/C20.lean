/-
  C20 — the command line writes exactly what the library returns.

  Model: `MammothModel/Cli.lean` (`main`, `ImageWriter`, `_write_output` of mammoth/cli.py, POSIX).
  `cliRun args value messages images` takes the library's result and the images handed to the
  image converter (content type, bytes) in document order.
-/
import Proofs.C20_Cli
import Proofs.C12_Utf8
namespace Mammoth

/-- The bytes written are the UTF-8 encoding of precisely the library's `value`, to the chosen sink:
    * an output path given: that file gets them, it is the only file written, stdout stays empty;
    * neither path nor directory: stdout gets them and no file is written;
    * `--output-dir d`: the file `d/<name>.html` gets them (written last, after the image files),
      stdout stays empty.
    (And what was written decodes back to `value`: `C20_output_decodes`.) -/
theorem C20_output_bytes (args : CliArgs) (value : Str) (messages : List Str)
    (images : List (Str × Bytes)) :
    (∀ out, args.output = some out → args.outputDir = none →
        (cliRun args value messages images).files = [(out, utf8Encode value)] ∧
        (cliRun args value messages images).stdout = []) ∧
    (args.output = none → args.outputDir = none →
        (cliRun args value messages images).files = [] ∧
        (cliRun args value messages images).stdout = utf8Encode value) ∧
    (∀ dir, args.outputDir = some dir → args.output = none →
        (cliRun args value messages images).files =
          (imageWriterRun dir 1 images).1
            ++ [(posixJoin dir (cliOutputName args.path), utf8Encode value)] ∧
        (cliRun args value messages images).stdout = []) := by
  refine ⟨fun out h1 h2 => ?_, fun h1 h2 => ?_, fun dir h1 h2 => ?_⟩
  · simp [cliRun, CliArgs.valid, h1, h2]
  · simp [cliRun, CliArgs.valid, h1, h2]
  · simp [cliRun, CliArgs.valid, h1, h2]

/-- the bytes written decode (strict UTF-8) to exactly the library's value -/
theorem C20_output_decodes (value : Str) : utf8DecodeL (utf8Encode value) = some value :=
  c12_utf8_roundtrip value

/-- `output-path` together with `--output-dir` is rejected by argparse: exit status 2, nothing is
    written anywhere. -/
theorem C20_usage_error (args : CliArgs) (value : Str) (messages : List Str)
    (images : List (Str × Bytes)) (out dir : Str)
    (h1 : args.output = some out) (h2 : args.outputDir = some dir) :
    (cliRun args value messages images).exitCode = 2 ∧
    (cliRun args value messages images).files = [] ∧
    (cliRun args value messages images).stdout = [] := by
  simp [cliRun, CliArgs.valid, h1, h2]

/-- stderr receives the messages, all of them, in order, each followed by one newline — in every
    valid mode —; so when no message contains a newline itself, the lines of stderr are exactly the
    messages (one per line; the final `[]` is the empty piece after the last newline). -/
theorem C20_messages_lines (args : CliArgs) (value : Str) (messages : List Str)
    (images : List (Str × Bytes)) (hv : args.valid = true) :
    (cliRun args value messages images).stderr = messages ∧
    (cliRun args value messages images).stderrText = stderrTextOf messages ∧
    ((∀ m ∈ messages, '\n' ∉ m) →
      splitOnChar '\n' (cliRun args value messages images).stderrText = messages ++ [[]]) := by
  have e : (cliRun args value messages images).stderr = messages ∧
      (cliRun args value messages images).stderrText = stderrTextOf messages := by
    unfold cliRun
    simp only [hv, Bool.not_true, Bool.false_eq_true, if_false]
    cases args.outputDir with
    | some dir => exact ⟨rfl, rfl⟩
    | none => cases args.output <;> exact ⟨rfl, rfl⟩
  exact ⟨e.1, e.2, fun h => by rw [e.2]; exact c20_stderr_lines messages h⟩

/-- `--output-dir d`: the k-th image of the document (k = 1, 2, …; `images[k-1]`), with content type
    `ct` and bytes `b`, is written to `d/<k>.<subtype>` with EXACTLY its bytes, `subtype` being the
    part of `ct` after the first "/", and `<k>.<subtype>` is the `src` returned for it.
    There is one file and one `src` per image; the `src`s are pairwise distinct and so are the
    paths of the image files — for ALL content types (empty, without "/", with several "/").
    The counter invariant `c20_run_counter`: after `n` images the counter is `1 + n`. -/
theorem C20_image_numbering (args : CliArgs) (value : Str) (messages : List Str)
    (images : List (Str × Bytes)) (dir : Str)
    (h1 : args.outputDir = some dir) (h2 : args.output = none) :
    (∀ k ct b, images[k]? = some (ct, b) →
        (cliRun args value messages images).files[k]?
            = some (posixJoin dir (natToStr (k + 1) ++ ['.'] ++ imageSubtype ct), b) ∧
        (cliRun args value messages images).srcs[k]?
            = some (natToStr (k + 1) ++ ['.'] ++ imageSubtype ct)) ∧
    (cliRun args value messages images).srcs.length = images.length ∧
    (cliRun args value messages images).files.length = images.length + 1 ∧
    (cliRun args value messages images).srcs.Nodup ∧
    (((cliRun args value messages images).files.take images.length).map (·.1)).Nodup ∧
    (imageWriterRun dir 1 images).2.2 = 1 + images.length := by
  have ef : (cliRun args value messages images).files =
      (imageWriterRun dir 1 images).1
        ++ [(posixJoin dir (cliOutputName args.path), utf8Encode value)] := by
    simp [cliRun, CliArgs.valid, h1, h2]
  have es : (cliRun args value messages images).srcs = (imageWriterRun dir 1 images).2.1 := by
    simp [cliRun, CliArgs.valid, h1, h2]
  have hl := c20_run_lengths dir 1 images
  refine ⟨fun k ct b hk => ?_, ?_, ?_, ?_, ?_, c20_run_counter dir 1 images⟩
  · obtain ⟨g1, g2⟩ := c20_run_get dir 1 images k ct b hk
    have hlt : k < (imageWriterRun dir 1 images).1.length := by
      rw [hl.1]
      by_cases hk' : k < images.length
      · exact hk'
      · rw [List.getElem?_eq_none (by omega)] at hk; cases hk
    rw [ef, es, List.getElem?_append_left hlt, g1, g2, Nat.add_comm 1 k]
    exact ⟨rfl, rfl⟩
  · rw [es, hl.2]
  · rw [ef]; simp [hl.1]
  · rw [es]; exact c20_run_srcs_nodup dir 1 images
  · rw [ef, ← hl.1, List.take_left' rfl]
    exact c20_run_paths_nodup dir 1 images

/-- `cliRun` is the special case of `cliRunO` in which every image has a content type and opens. -/
theorem C20_run_total (args : CliArgs) (value : Str) (messages : List Str)
    (images : List (Str × Bytes)) :
    cliRunO args value messages (c20_lift images) = cliRun args value messages images := by
  unfold cliRunO cliRun
  cases hv : args.valid with
  | false => rfl
  | true =>
    simp only [Bool.not_true, Bool.false_eq_true, if_false]
    cases hd : args.outputDir with
    | none => simp
    | some dir => simp only [c20_runO_lift]; rfl

/-- `--output-dir` when some images cannot be opened (linked images that cannot be read) but all
    have a content type: the command still succeeds; the images that DO open are numbered 1, 2, …
    in document order exactly as if the others were not there (`src`s and files with their exact
    bytes); every other file written is an EMPTY file `<n>.<subtype>` left behind by a failed open
    (the destination is created before the source is opened; the counter is not advanced, so the
    next image reuses the number — and overwrites that file if it has the same subtype). -/
theorem C20_image_open_failures (args : CliArgs) (value : Str) (messages : List Str)
    (images : List (Option Str × Option Bytes)) (dir : Str)
    (h1 : args.outputDir = some dir) (h2 : args.output = none)
    (ht : c20_typed images = true) :
    (cliRunO args value messages images).srcs
      = (cliRun args value messages (c20_opened images)).srcs ∧
    (cliRunO args value messages images).exitCode = 0 ∧
    (cliRunO args value messages images).stdout = [] ∧
    (cliRunO args value messages images).files.getLast?
      = some (posixJoin dir (cliOutputName args.path), utf8Encode value) ∧
    (∀ f ∈ (cliRunO args value messages images).files,
        f ∈ (cliRun args value messages (c20_opened images)).files ∨ f.2 = []) ∧
    (cliRun args value messages (c20_opened images)).files.Sublist
        (cliRunO args value messages images).files := by
  obtain ⟨r1, _, r3, r4, r5⟩ := c20_runO_typed dir 1 images ht
  have eO : cliRunO args value messages images =
      { files := (imageWriterRunO dir 1 images).1
          ++ [(posixJoin dir (cliOutputName args.path), utf8Encode value)],
        stderrText := stderrTextOf messages, stderr := messages,
        srcs := (imageWriterRunO dir 1 images).2.1 } := by
    simp [cliRunO, CliArgs.valid, h1, h2, r3]
  have eR : cliRun args value messages (c20_opened images) =
      { files := (imageWriterRun dir 1 (c20_opened images)).1
          ++ [(posixJoin dir (cliOutputName args.path), utf8Encode value)],
        stderrText := stderrTextOf messages, stderr := messages,
        srcs := (imageWriterRun dir 1 (c20_opened images)).2.1 } := by
    simp [cliRun, CliArgs.valid, h1, h2]
  rw [eO, eR]
  refine ⟨r1, rfl, rfl, by simp, ?_, ?_⟩
  · intro f hf
    simp only [List.mem_append, List.mem_singleton] at hf ⊢
    rcases hf with hf | hf
    · rcases r4 f hf with h | h
      · exact Or.inl (Or.inl h)
      · exact Or.inr h
    · exact Or.inl (Or.inr hf)
  · exact List.Sublist.append r5 (List.Sublist.refl _)

/-- `--output-dir` and an image WITHOUT content type (the reader found no `Override`, no `Default`
    and no known extension: `content_type` is `None`): `None.partition` raises AttributeError, the
    command dies with exit status 1; neither the HTML file nor the messages nor anything on stdout
    is written (only the image files written before the crash exist).  Here the command does NOT
    write what the library would return. -/
theorem C20_unknown_type_crash (args : CliArgs) (value : Str) (messages : List Str)
    (images : List (Option Str × Option Bytes)) (dir : Str)
    (h1 : args.outputDir = some dir) (h2 : args.output = none)
    (ht : c20_typed images = false) :
    (cliRunO args value messages images).exitCode = 1 ∧
    (cliRunO args value messages images).stdout = [] ∧
    (cliRunO args value messages images).stderr = [] ∧
    (cliRunO args value messages images).files = (imageWriterRunO dir 1 images).1 := by
  have := c20_runO_crash dir 1 images ht
  simp [cliRunO, CliArgs.valid, h1, h2, this]

/-- The subtype is what follows the FIRST "/" of the content type (`partition("/")[2]`). -/
theorem C20_subtype (a b : Str) (h : '/' ∉ a) : imageSubtype (a ++ '/' :: b) = b := by
  unfold imageSubtype
  induction a with
  | nil => simp [afterFirst]
  | cons c cs ih =>
    have hc : (c == '/') = false := by
      simp only [beq_eq_false_iff_ne, ne_eq]; intro e; exact h (e ▸ List.mem_cons_self ..)
    simp only [List.cons_append, afterFirst, hc, Bool.false_eq_true, if_false]
    exact ih (fun hh => h (List.mem_cons_of_mem _ hh))

/-- … and a content type without "/" gives the empty subtype (file name `"<k>."`). -/
theorem C20_subtype_none (a : Str) (h : '/' ∉ a) : imageSubtype a = [] := by
  unfold imageSubtype
  induction a with
  | nil => rfl
  | cons c cs ih =>
    have hc : (c == '/') = false := by
      simp only [beq_eq_false_iff_ne, ne_eq]; intro e; exact h (e ▸ List.mem_cons_self ..)
    simp only [afterFirst, hc, Bool.false_eq_true, if_false]
    exact ih (fun hh => h (List.mem_cons_of_mem _ hh))

/-- The name of the HTML file in `--output-dir` mode is `<stem>.html`, `stem` = the input's
    basename (last path component, it contains no "/") without its extension, by the rules of
    `os.path.splitext`: the extension starts at the LAST dot, and leading dots are not an
    extension.  Every slash-free name falls under exactly one of the three cases. -/
theorem C20_output_name (path : Str) :
    cliOutputName path = (splitext (basename path)).1 ++ S!".html" ∧
    '/' ∉ basename path ∧
    (∃ d, path = d ++ basename path) ∧
    (splitext (basename path)).1 ++ (splitext (basename path)).2 = basename path ∧
    (∀ name, '/' ∉ name → '.' ∉ name → splitext name = (name, [])) ∧
    (∀ stem ext, '/' ∉ stem → '/' ∉ ext → '.' ∉ ext → stem.any (· != '.') = true →
        splitext (stem ++ '.' :: ext) = (stem, '.' :: ext)) ∧
    (∀ dots ext, '/' ∉ ext → '.' ∉ ext → dots.any (· != '.') = false →
        splitext (dots ++ '.' :: ext) = (dots ++ '.' :: ext, [])) :=
  ⟨rfl, c20_basename_no_sep path, ⟨_, (c20_basename_suffix path).symm⟩,
   c20_splitext_concat _, fun name _ hd => c20_splitext_nodot name hd,
   c20_splitext_ext, c20_splitext_dots⟩

/-! ### examples -/

example : (splitext S!"a.docx").1 = S!"a" := by decide
example : (splitext S!"a.b.docx").1 = S!"a.b" := by decide
example : (splitext S!"document").1 = S!"document" := by decide
example : (splitext S!".hidden").1 = S!".hidden" := by decide
example : splitext S!"..hidden.x" = (S!"..hidden", S!".x") := by decide
example : splitext S!"dir.d/file" = (S!"dir.d/file", []) := by decide
example : cliOutputName S!"/home/u/my.report.docx" = S!"my.report.html" := by decide
example : cliOutputName S!"document" = S!"document.html" := by decide
example : cliOutputName S!".hidden" = S!".hidden.html" := by decide

example : imageWriterStep 3 S!"image/svg+xml" [1, 2] = (S!"3.svg+xml", 4) := by decide
example : imageWriterStep 10 S!"image" [] = (S!"10.", 11) := by decide
example : imageWriterStep 1 S!"a/b/c" [] = (S!"1.b/c", 2) := by decide

example :
    cliRun { path := S!"in/a.b.docx", outputDir := some S!"out" } S!"<p>é</p>" [S!"m1", S!"m2"]
      [(S!"image/png", [1, 2]), (S!"image/jpeg", [3])]
    = { files := [(S!"out/1.png", [1, 2]), (S!"out/2.jpeg", [3]),
                  (S!"out/a.b.html", [60, 112, 62, 195, 169, 60, 47, 112, 62])],
        stdout := [], stderrText := S!"m1\nm2\n", stderr := [S!"m1", S!"m2"],
        srcs := [S!"1.png", S!"2.jpeg"], exitCode := 0 } := by decide

example :
    cliRun { path := S!"a.docx" } S!"hé" [S!"w"] [(S!"image/png", [1])]
    = { stdout := [104, 195, 169], stderrText := S!"w\n", stderr := [S!"w"] } := by decide

/-- a collision the numbering cannot exclude: the HTML file itself is named like an image file
    (input `1.docx`, an image part declared as `x/html`): the image file is overwritten -/
example :
    (cliRun { path := S!"1.docx", outputDir := some S!"o" } S!"v" [] [(S!"x/html", [7])]).files
    = [(S!"o/1.html", [7]), (S!"o/1.html", [118])] := by decide

/-- an unreadable linked image followed by an embedded one: an empty `1.gif` is left behind and the
    embedded image is number 1 -/
example :
    (cliRunO { path := S!"a.docx", outputDir := some S!"o" } S!"v" [S!"could not open"]
      [(some S!"image/gif", none), (some S!"image/png", some [7])]).files
    = [(S!"o/1.gif", []), (S!"o/1.png", [7]), (S!"o/a.html", [118])] := by decide

/-- an image of unknown type: crash after the first image file -/
example :
    cliRunO { path := S!"a.docx", outputDir := some S!"o" } S!"v" [S!"m"]
      [(some S!"image/png", some [7]), (none, some [8])]
    = { files := [(S!"o/1.png", [7])], srcs := [S!"1.png"], exitCode := 1 } := by decide

end Mammoth
