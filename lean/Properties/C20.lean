/-
  C20 — the command line writes exactly what the library returns.

  Model: `MammothModel/Cli.lean` (`main`, `ImageWriter`, `_write_output` of mammoth/cli.py, POSIX).
  `cliRun args value messages images` takes the library's result and the images handed to the
  image converter (content type, bytes) in document order.
-/
import Proofs.C20_Cli
import Proofs.C20_EndToEnd
import Proofs.C12_Utf8
namespace Mammoth

/-- The bytes written are the UTF-8 encoding of precisely the library's `value`, to the chosen sink:
    * an output path given: that file gets them, it is the only file written, stdout stays empty;
    * neither path nor directory: stdout gets them and no file is written;
    * `--output-dir d`: the file `d/<name>.html` gets them (written last, after the image files),
      stdout stays empty.
    (And what was written decodes back to `value`: `C20_output_decodes`.) -/
theorem C20_output_bytes (args : CliArgs) (value : Str) (messages : List Str)
    (images : List (Str × Bytes)) :
    (∀ out, args.output = some out → args.outputDir = none →
        (cliRun args value messages images).files = [(out, utf8Encode value)] ∧
        (cliRun args value messages images).stdout = []) ∧
    (args.output = none → args.outputDir = none →
        (cliRun args value messages images).files = [] ∧
        (cliRun args value messages images).stdout = utf8Encode value) ∧
    (∀ dir, args.outputDir = some dir → args.output = none →
        (cliRun args value messages images).files =
          (imageWriterRun dir 1 images).1
            ++ [(posixJoin dir (cliOutputName args.path), utf8Encode value)] ∧
        (cliRun args value messages images).stdout = []) := by
  refine ⟨fun out h1 h2 => ?_, fun h1 h2 => ?_, fun dir h1 h2 => ?_⟩
  · simp [cliRun, CliArgs.valid, h1, h2]
  · simp [cliRun, CliArgs.valid, h1, h2]
  · simp [cliRun, CliArgs.valid, h1, h2]

/-- the bytes written decode (strict UTF-8) to exactly the library's value -/
theorem C20_output_decodes (value : Str) : utf8DecodeL (utf8Encode value) = some value :=
  c12_utf8_roundtrip value

/-- `output-path` together with `--output-dir` is rejected by argparse: exit status 2, nothing is
    written anywhere. -/
theorem C20_usage_error (args : CliArgs) (value : Str) (messages : List Str)
    (images : List (Str × Bytes)) (out dir : Str)
    (h1 : args.output = some out) (h2 : args.outputDir = some dir) :
    (cliRun args value messages images).exitCode = 2 ∧
    (cliRun args value messages images).files = [] ∧
    (cliRun args value messages images).stdout = [] := by
  simp [cliRun, CliArgs.valid, h1, h2]

/-- stderr receives the messages, all of them, in order, each followed by one newline — in every
    valid mode —; so when no message contains a newline itself, the lines of stderr are exactly the
    messages (one per line; the final `[]` is the empty piece after the last newline). -/
theorem C20_messages_lines (args : CliArgs) (value : Str) (messages : List Str)
    (images : List (Str × Bytes)) (hv : args.valid = true) :
    (cliRun args value messages images).stderr = messages ∧
    (cliRun args value messages images).stderrText = stderrTextOf messages ∧
    ((∀ m ∈ messages, '\n' ∉ m) →
      splitOnChar '\n' (cliRun args value messages images).stderrText = messages ++ [[]]) := by
  have e : (cliRun args value messages images).stderr = messages ∧
      (cliRun args value messages images).stderrText = stderrTextOf messages := by
    unfold cliRun
    simp only [hv, Bool.not_true, Bool.false_eq_true, if_false]
    cases args.outputDir with
    | some dir => exact ⟨rfl, rfl⟩
    | none => cases args.output <;> exact ⟨rfl, rfl⟩
  exact ⟨e.1, e.2, fun h => by rw [e.2]; exact c20_stderr_lines messages h⟩

/-- `--output-dir d`: the k-th image of the document (k = 1, 2, …; `images[k-1]`), with content type
    `ct` and bytes `b`, is written to `d/<k>.<subtype>` with EXACTLY its bytes, `subtype` being the
    part of `ct` after the first "/", and `<k>.<subtype>` is the `src` returned for it.
    There is one file and one `src` per image; the `src`s are pairwise distinct and so are the
    paths of the image files — for ALL content types (empty, without "/", with several "/").
    The counter invariant `c20_run_counter`: after `n` images the counter is `1 + n`. -/
theorem C20_image_numbering (args : CliArgs) (value : Str) (messages : List Str)
    (images : List (Str × Bytes)) (dir : Str)
    (h1 : args.outputDir = some dir) (h2 : args.output = none) :
    (∀ k ct b, images[k]? = some (ct, b) →
        (cliRun args value messages images).files[k]?
            = some (posixJoin dir (natToStr (k + 1) ++ ['.'] ++ imageSubtype ct), b) ∧
        (cliRun args value messages images).srcs[k]?
            = some (natToStr (k + 1) ++ ['.'] ++ imageSubtype ct)) ∧
    (cliRun args value messages images).srcs.length = images.length ∧
    (cliRun args value messages images).files.length = images.length + 1 ∧
    (cliRun args value messages images).srcs.Nodup ∧
    (((cliRun args value messages images).files.take images.length).map (·.1)).Nodup ∧
    (imageWriterRun dir 1 images).2.2 = 1 + images.length := by
  have ef : (cliRun args value messages images).files =
      (imageWriterRun dir 1 images).1
        ++ [(posixJoin dir (cliOutputName args.path), utf8Encode value)] := by
    simp [cliRun, CliArgs.valid, h1, h2]
  have es : (cliRun args value messages images).srcs = (imageWriterRun dir 1 images).2.1 := by
    simp [cliRun, CliArgs.valid, h1, h2]
  have hl := c20_run_lengths dir 1 images
  refine ⟨fun k ct b hk => ?_, ?_, ?_, ?_, ?_, c20_run_counter dir 1 images⟩
  · obtain ⟨g1, g2⟩ := c20_run_get dir 1 images k ct b hk
    have hlt : k < (imageWriterRun dir 1 images).1.length := by
      rw [hl.1]
      by_cases hk' : k < images.length
      · exact hk'
      · rw [List.getElem?_eq_none (by omega)] at hk; cases hk
    rw [ef, es, List.getElem?_append_left hlt, g1, g2, Nat.add_comm 1 k]
    exact ⟨rfl, rfl⟩
  · rw [es, hl.2]
  · rw [ef]; simp [hl.1]
  · rw [es]; exact c20_run_srcs_nodup dir 1 images
  · rw [ef, ← hl.1, List.take_left' rfl]
    exact c20_run_paths_nodup dir 1 images

/-- `cliRun` is the special case of `cliRunO` in which every image has a content type and opens. -/
theorem C20_run_total (args : CliArgs) (value : Str) (messages : List Str)
    (images : List (Str × Bytes)) :
    cliRunO args value messages (c20_lift images) = cliRun args value messages images := by
  unfold cliRunO cliRun
  cases hv : args.valid with
  | false => rfl
  | true =>
    simp only [Bool.not_true, Bool.false_eq_true, if_false]
    cases hd : args.outputDir with
    | none => simp
    | some dir => simp only [c20_runO_lift]; rfl

/-- `--output-dir` when some images cannot be opened (linked images that cannot be read) but all
    have a content type: the command still succeeds; the images that DO open are numbered 1, 2, …
    in document order exactly as if the others were not there (`src`s and files with their exact
    bytes); every other file written is an EMPTY file `<n>.<subtype>` left behind by a failed open
    (the destination is created before the source is opened; the counter is not advanced, so the
    next image reuses the number — and overwrites that file if it has the same subtype). -/
theorem C20_image_open_failures (args : CliArgs) (value : Str) (messages : List Str)
    (images : List (Option Str × Option Bytes)) (dir : Str)
    (h1 : args.outputDir = some dir) (h2 : args.output = none)
    (ht : c20_typed images = true) :
    (cliRunO args value messages images).srcs
      = (cliRun args value messages (c20_opened images)).srcs ∧
    (cliRunO args value messages images).exitCode = 0 ∧
    (cliRunO args value messages images).stdout = [] ∧
    (cliRunO args value messages images).files.getLast?
      = some (posixJoin dir (cliOutputName args.path), utf8Encode value) ∧
    (∀ f ∈ (cliRunO args value messages images).files,
        f ∈ (cliRun args value messages (c20_opened images)).files ∨ f.2 = []) ∧
    (cliRun args value messages (c20_opened images)).files.Sublist
        (cliRunO args value messages images).files := by
  obtain ⟨r1, _, r3, r4, r5⟩ := c20_runO_typed dir 1 images ht
  have eO : cliRunO args value messages images =
      { files := (imageWriterRunO dir 1 images).1
          ++ [(posixJoin dir (cliOutputName args.path), utf8Encode value)],
        stderrText := stderrTextOf messages, stderr := messages,
        srcs := (imageWriterRunO dir 1 images).2.1 } := by
    simp [cliRunO, CliArgs.valid, h1, h2, r3]
  have eR : cliRun args value messages (c20_opened images) =
      { files := (imageWriterRun dir 1 (c20_opened images)).1
          ++ [(posixJoin dir (cliOutputName args.path), utf8Encode value)],
        stderrText := stderrTextOf messages, stderr := messages,
        srcs := (imageWriterRun dir 1 (c20_opened images)).2.1 } := by
    simp [cliRun, CliArgs.valid, h1, h2]
  rw [eO, eR]
  refine ⟨r1, rfl, rfl, by simp, ?_, ?_⟩
  · intro f hf
    simp only [List.mem_append, List.mem_singleton] at hf ⊢
    rcases hf with hf | hf
    · rcases r4 f hf with h | h
      · exact Or.inl (Or.inl h)
      · exact Or.inr h
    · exact Or.inl (Or.inr hf)
  · exact List.Sublist.append r5 (List.Sublist.refl _)

/-- `--output-dir` and an image WITHOUT content type (the reader found no `Override`, no `Default`
    and no known extension: `content_type` is `None`): `None.partition` raises AttributeError, the
    command dies with exit status 1; neither the HTML file nor the messages nor anything on stdout
    is written (only the image files written before the crash exist).  Here the command does NOT
    write what the library would return. -/
theorem C20_unknown_type_crash (args : CliArgs) (value : Str) (messages : List Str)
    (images : List (Option Str × Option Bytes)) (dir : Str)
    (h1 : args.outputDir = some dir) (h2 : args.output = none)
    (ht : c20_typed images = false) :
    (cliRunO args value messages images).exitCode = 1 ∧
    (cliRunO args value messages images).stdout = [] ∧
    (cliRunO args value messages images).stderr = [] ∧
    (cliRunO args value messages images).files = (imageWriterRunO dir 1 images).1 := by
  have := c20_runO_crash dir 1 images ht
  simp [cliRunO, CliArgs.valid, h1, h2, this]

/-- The subtype is what follows the FIRST "/" of the content type (`partition("/")[2]`). -/
theorem C20_subtype (a b : Str) (h : '/' ∉ a) : imageSubtype (a ++ '/' :: b) = b := by
  unfold imageSubtype
  induction a with
  | nil => simp [afterFirst]
  | cons c cs ih =>
    have hc : (c == '/') = false := by
      simp only [beq_eq_false_iff_ne, ne_eq]; intro e; exact h (e ▸ List.mem_cons_self ..)
    simp only [List.cons_append, afterFirst, hc, Bool.false_eq_true, if_false]
    exact ih (fun hh => h (List.mem_cons_of_mem _ hh))

/-- … and a content type without "/" gives the empty subtype (file name `"<k>."`). -/
theorem C20_subtype_none (a : Str) (h : '/' ∉ a) : imageSubtype a = [] := by
  unfold imageSubtype
  induction a with
  | nil => rfl
  | cons c cs ih =>
    have hc : (c == '/') = false := by
      simp only [beq_eq_false_iff_ne, ne_eq]; intro e; exact h (e ▸ List.mem_cons_self ..)
    simp only [afterFirst, hc, Bool.false_eq_true, if_false]
    exact ih (fun hh => h (List.mem_cons_of_mem _ hh))

/-- The name of the HTML file in `--output-dir` mode is `<stem>.html`, `stem` = the input's
    basename (last path component, it contains no "/") without its extension, by the rules of
    `os.path.splitext`: the extension starts at the LAST dot, and leading dots are not an
    extension.  Every slash-free name falls under exactly one of the three cases. -/
theorem C20_output_name (path : Str) :
    cliOutputName path = (splitext (basename path)).1 ++ S!".html" ∧
    '/' ∉ basename path ∧
    (∃ d, path = d ++ basename path) ∧
    (splitext (basename path)).1 ++ (splitext (basename path)).2 = basename path ∧
    (∀ name, '/' ∉ name → '.' ∉ name → splitext name = (name, [])) ∧
    (∀ stem ext, '/' ∉ stem → '/' ∉ ext → '.' ∉ ext → stem.any (· != '.') = true →
        splitext (stem ++ '.' :: ext) = (stem, '.' :: ext)) ∧
    (∀ dots ext, '/' ∉ ext → '.' ∉ ext → dots.any (· != '.') = false →
        splitext (dots ++ '.' :: ext) = (dots ++ '.' :: ext, [])) :=
  ⟨rfl, c20_basename_no_sep path, ⟨_, (c20_basename_suffix path).symm⟩,
   c20_splitext_concat _, fun name _ hd => c20_splitext_nodot name hd,
   c20_splitext_ext, c20_splitext_dots⟩

/-! ### examples -/

example : (splitext S!"a.docx").1 = S!"a" := by decide
example : (splitext S!"a.b.docx").1 = S!"a.b" := by decide
example : (splitext S!"document").1 = S!"document" := by decide
example : (splitext S!".hidden").1 = S!".hidden" := by decide
example : splitext S!"..hidden.x" = (S!"..hidden", S!".x") := by decide
example : splitext S!"dir.d/file" = (S!"dir.d/file", []) := by decide
example : cliOutputName S!"/home/u/my.report.docx" = S!"my.report.html" := by decide
example : cliOutputName S!"document" = S!"document.html" := by decide
example : cliOutputName S!".hidden" = S!".hidden.html" := by decide

example : imageWriterStep 3 S!"image/svg+xml" [1, 2] = (S!"3.svg+xml", 4) := by decide
example : imageWriterStep 10 S!"image" [] = (S!"10.", 11) := by decide
example : imageWriterStep 1 S!"a/b/c" [] = (S!"1.b/c", 2) := by decide

example :
    cliRun { path := S!"in/a.b.docx", outputDir := some S!"out" } S!"<p>é</p>" [S!"m1", S!"m2"]
      [(S!"image/png", [1, 2]), (S!"image/jpeg", [3])]
    = { files := [(S!"out/1.png", [1, 2]), (S!"out/2.jpeg", [3]),
                  (S!"out/a.b.html", [60, 112, 62, 195, 169, 60, 47, 112, 62])],
        stdout := [], stderrText := S!"m1\nm2\n", stderr := [S!"m1", S!"m2"],
        srcs := [S!"1.png", S!"2.jpeg"], exitCode := 0 } := by decide

example :
    cliRun { path := S!"a.docx" } S!"hé" [S!"w"] [(S!"image/png", [1])]
    = { stdout := [104, 195, 169], stderrText := S!"w\n", stderr := [S!"w"] } := by decide

/-- a collision the numbering cannot exclude: the HTML file itself is named like an image file
    (input `1.docx`, an image part declared as `x/html`): the image file is overwritten -/
example :
    (cliRun { path := S!"1.docx", outputDir := some S!"o" } S!"v" [] [(S!"x/html", [7])]).files
    = [(S!"o/1.html", [7]), (S!"o/1.html", [118])] := by decide

/-- an unreadable linked image followed by an embedded one: an empty `1.gif` is left behind and the
    embedded image is number 1 -/
example :
    (cliRunO { path := S!"a.docx", outputDir := some S!"o" } S!"v" [S!"could not open"]
      [(some S!"image/gif", none), (some S!"image/png", some [7])]).files
    = [(S!"o/1.gif", []), (S!"o/1.png", [7]), (S!"o/a.html", [118])] := by decide

/-- an image of unknown type: crash after the first image file -/
example :
    cliRunO { path := S!"a.docx", outputDir := some S!"o" } S!"v" [S!"m"]
      [(some S!"image/png", some [7]), (none, some [8])]
    = { files := [(S!"o/1.png", [7])], srcs := [S!"1.png"], exitCode := 1 } := by decide

/-! ## End to end: the command as a function of the PACKAGE

  `c20_cli args p world fuel` (`Proofs/C20_EndToEnd.lean`) composes the model of the command with the model of
  the library: `args` (with the TEXT of the `--style-map` file), the package `p` (the parsed input file), the
  outside world (what opening a path / URL yields, for linked images) ↦ what `main()` writes; `.error e` when
  the library raises `e`.  The library call is

      `apiConvert p fuel (some (c20_dirname args.path)) world id
          { styleMap := args.styleMap, format := fmt, imageConv := conv }`

  = `mammoth.convert(open(args.path, "rb"), style_map=…, convert_image=…, output_format=…)` (all other options
  at their defaults: built-in and embedded style maps included), `conv` = the default `data_uri` converter
  without `--output-dir`.  With `--output-dir` the converter is `img_element(ImageWriter(dir))`; the model's
  family of image converters does not contain it (its `src` differs from call to call), so the run is
  composed of `apiConvert` with `c20_writerConv` (`img_element(f)` for an `f` that opens every image and
  returns no attribute: same calls, same `open()`s, same warnings, one fresh childless `img` per opened image),
  the model's `ImageWriter` (`imageWriterRunO`), and the substitution `c20_putSrcs` that gives the k-th such
  `img` the k-th `src` the `ImageWriter` returned (`c20_putSrc_tag`: the result is the element the model's own
  `img_element` makes for `{"src": name}`).  The real command agrees with `c20_cli` on the example packages
  below, byte for byte (files, stdout; stderr up to the OS error text the model leaves out of the warning). -/

/-- STDOUT.  No output path, no `--output-dir`, `--output-format` absent / `html` / `markdown`, any style-map
    text (or none): if the library returns `out` for the package, the command writes to standard output the
    bytes `utf8Encode out.value` and nothing else anywhere (no file), exit status 0.  If the library raises,
    so does the command (nothing written). -/
theorem C20_stdout_is_value (args : CliArgs) (p : Package) (world : Str → Option Bytes) (fuel : Nat)
    (fmt : Format) (ho : args.output = none) (hd : args.outputDir = none)
    (hf : c20_format args.format = some fmt) :
    (∀ out, apiConvert p fuel (some (c20_dirname args.path)) world id
          { styleMap := args.styleMap, format := fmt } = .ok out →
      ∃ res, c20_cli args p world fuel = .ok res ∧
        res.stdout = utf8Encode out.value ∧ res.files = [] ∧ res.exitCode = 0) ∧
    (∀ e, apiConvert p fuel (some (c20_dirname args.path)) world id
          { styleMap := args.styleMap, format := fmt } = .error e →
      c20_cli args p world fuel = .error e) := by
  have hv : args.valid = true := by simp [CliArgs.valid, ho]
  have hc := c20_cli_nodir args p world fuel fmt hv hf hd
  constructor
  · intro out hout
    have hout' : c20_convert args p world fuel fmt .dataUri = .ok out := hout
    rw [hout'] at hc
    exact ⟨_, hc, by simp [cliRun, hv, hd, ho]⟩
  · intro e herr
    have herr' : c20_convert args p world fuel fmt .dataUri = .error e := herr
    rw [herr'] at hc
    exact hc

/-- OUTPUT PATH.  With an output path (and hence no `--output-dir`): that file receives exactly
    `utf8Encode out.value`; it is the only file written and standard output stays empty. -/
theorem C20_file_is_value (args : CliArgs) (p : Package) (world : Str → Option Bytes) (fuel : Nat)
    (fmt : Format) (path : Str) (ho : args.output = some path) (hd : args.outputDir = none)
    (hf : c20_format args.format = some fmt) :
    (∀ out, apiConvert p fuel (some (c20_dirname args.path)) world id
          { styleMap := args.styleMap, format := fmt } = .ok out →
      ∃ res, c20_cli args p world fuel = .ok res ∧
        res.files = [(path, utf8Encode out.value)] ∧ res.stdout = [] ∧ res.exitCode = 0) ∧
    (∀ e, apiConvert p fuel (some (c20_dirname args.path)) world id
          { styleMap := args.styleMap, format := fmt } = .error e →
      c20_cli args p world fuel = .error e) := by
  have hv : args.valid = true := by simp [CliArgs.valid, hd]
  have hc := c20_cli_nodir args p world fuel fmt hv hf hd
  constructor
  · intro out hout
    have hout' : c20_convert args p world fuel fmt .dataUri = .ok out := hout
    rw [hout'] at hc
    exact ⟨_, hc, by simp [cliRun, hv, hd, ho]⟩
  · intro e herr
    have herr' : c20_convert args p world fuel fmt .dataUri = .error e := herr
    rw [herr'] at hc
    exact hc

/-- STDERR.  In both modes without `--output-dir` (stdout or output path), either format, any style-map text:
    standard error receives the messages of THE SAME library call whose value is written — all of them, in
    order, each followed by one newline; so when no message contains a newline the lines of stderr are exactly
    the messages.  (For `--output-dir` the same is part of `C20_output_dir_images` /
    `C20_counter_only_advances_on_success`.) -/
theorem C20_stderr_is_messages (args : CliArgs) (p : Package) (world : Str → Option Bytes) (fuel : Nat)
    (fmt : Format) (hd : args.outputDir = none) (hf : c20_format args.format = some fmt) (out : ApiOut)
    (hout : apiConvert p fuel (some (c20_dirname args.path)) world id
          { styleMap := args.styleMap, format := fmt } = .ok out) :
    ∃ res, c20_cli args p world fuel = .ok res ∧
      res.stderr = out.messages ∧ res.stderrText = stderrTextOf out.messages ∧
      ((∀ m ∈ out.messages, '\n' ∉ m) → splitOnChar '\n' res.stderrText = out.messages ++ [[]]) := by
  have hv : args.valid = true := by simp [CliArgs.valid, hd]
  have hc := c20_cli_nodir args p world fuel fmt hv hf hd
  have hout' : c20_convert args p world fuel fmt .dataUri = .ok out := hout
  rw [hout'] at hc
  obtain ⟨m1, m2, m3⟩ := C20_messages_lines args out.value out.messages [] hv
  exact ⟨_, hc, m1, m2, m3⟩

/-- an unknown `--output-format` is a usage error (argparse `choices`): exit status 2, nothing written -/
theorem C20_bad_format (args : CliArgs) (p : Package) (world : Str → Option Bytes) (fuel : Nat)
    (hf : c20_format args.format = none) : c20_cli args p world fuel = .ok { exitCode := 2 } := by
  unfold c20_cli
  by_cases hv : args.valid = true
  · simp [hv, hf]
  · simp [hv]

/-- DOCUMENT ORDER.  The images handed to the image converter (`out.imageCalls`, any converter `o.imageConv`
    of the family) are, in call order, the images of the package in document order as C17 specifies it from
    the XML (`c20_docOrder`: `c17_storyImages` of the body — reading order of the XML — then the images of
    the rendered notes and comments), when the body has no vertical-merge continuation cell and the style map
    has no `!` mapping. -/
theorem C20_calls_document_order (p : Package) (v : c05_View) (hview : c05_view p = some v) (fuel : Nat)
    (base : Option Str) (world : Str → Option Bytes) (o : Options) (out : ApiOut)
    (hout : apiConvert p fuel base world id o = .ok out)
    (hvm : c01_noVMergeL v.body = true)
    (hig : c01_noIgnoreMap (c05_apiCfg p base world o (c17_embOf p o)) = true) :
    out.imageCalls = c20_docOrder (c05_apiCfg p base world o (c17_embOf p o)) v out.document :=
  c20_calls_docOrder p v hview fuel base world o out hout hvm hig

/-- `--output-dir dir`, HTML, A PACKAGE WHOSE PICTURES CAN ALL BE OPENED.  `imgs` = the images of the package in
    DOCUMENT ORDER (`c20_docOrder`, from the XML).  Hypotheses (all decidable): the package can be viewed
    (`c05_view`), the library call succeeds (`hout`), no vertical-merge continuation cell in the body, the
    style map (explicit + embedded + built-in) has no `!`, does not mention `img`, uses plain names; every image
    has a content type and can be opened.  Then the command succeeds (exit 0, nothing on stdout, stderr = the
    library's messages) and
    * it writes exactly `n + 1` files, `n = imgs.length`;
    * for k = 0 … n-1, file k is `dir/<k+1>.<subtype>` (`subtype` = what follows the first "/" of the content
      type of image k, `C20_subtype`) and holds EXACTLY the bytes `b` that opening image k yields
      (`c17_opened`; for an embedded image the bytes of its part, `C20_embedded_bytes`);
    * file n is `dir/<stem>.html` (`C20_output_name`) and holds `utf8Encode value`, where `value` is accepted
      by the strict HTML lexer, all its `img` start tags are void, there are exactly `n` of them, and the k-th
      has `src = <k+1>.<subtype>` — the name of file k — and `alt` = the alt text of image k. -/
theorem C20_output_dir_images (args : CliArgs) (p : Package) (world : Str → Option Bytes) (fuel : Nat)
    (dir : Str) (v : c05_View) (out : ApiOut)
    (hv : args.valid = true) (hd : args.outputDir = some dir) (hf : c20_format args.format = some .html)
    (hview : c05_view p = some v)
    (hout : apiConvert p fuel (some (c20_dirname args.path)) world id
          { styleMap := args.styleMap, format := .html, imageConv := c20_writerConv } = .ok out)
    (hvm : c01_noVMergeL v.body = true)
    (hig : c01_noIgnoreMap (c20_dirCfg args p world .html) = true)
    (hi : c17_noImgMap (c20_dirCfg args p world .html) = true)
    (hp : c02_plainCfg (c20_dirCfg args p world .html) = true)
    (ht : c20_allTyped (c20_docOrder (c20_dirCfg args p world .html) v out.document) = true)
    (hpr : c17_allPresent (c20_openCfg args p world)
            (c20_docOrder (c20_dirCfg args p world .html) v out.document) = true) :
    ∃ res value toks, c20_cli args p world fuel = .ok res ∧
      res.exitCode = 0 ∧ res.stdout = [] ∧ res.stderr = out.messages ∧
      res.files.length = (c20_docOrder (c20_dirCfg args p world .html) v out.document).length + 1 ∧
      res.files[(c20_docOrder (c20_dirCfg args p world .html) v out.document).length]? =
        some (posixJoin dir (cliOutputName args.path), utf8Encode value) ∧
      c02_lexHtml value = some toks ∧ c17_tokImgs toks = c17_tokVoidImgs toks ∧
      (c17_tokVoidImgs toks).length = (c20_docOrder (c20_dirCfg args p world .html) v out.document).length ∧
      ∀ k i, (c20_docOrder (c20_dirCfg args p world .html) v out.document)[k]? = some i →
        ∃ ct b, i.contentType = some ct ∧ c17_opened (c20_openCfg args p world) i.src = some b ∧
          res.files[k]? = some (posixJoin dir (natToStr (k + 1) ++ ['.'] ++ imageSubtype ct), b) ∧
          ((c17_tokVoidImgs toks)[k]?).map c17_srcAltOf =
            some (some (natToStr (k + 1) ++ ['.'] ++ imageSubtype ct), c17_altOut i) := by
  have hout' : c20_convert args p world fuel .html c20_writerConv = .ok out := hout
  have hcalls : out.imageCalls = c20_docOrder (c20_dirCfg args p world .html) v out.document :=
    c20_calls_docOrder p v hview fuel _ world _ out hout hvm hig
  rw [← hcalls] at ht hpr ⊢
  obtain ⟨res, hres, e0, e1, e2, _, efiles, _⟩ := c20_dir_run args p world fuel .html dir out hv hf hd hout' ht
  obtain ⟨toks, hl, hvoid, htoks⟩ := c20_dir_html args p world fuel dir out hout' ht hi hp
  -- every image opens: the filter keeps them all
  have hall : out.imageCalls.filter (c20_okf (c20_openCfg args p world)) = out.imageCalls := by
    rw [List.filter_eq_self]
    intro i hi'
    simp only [c17_allPresent, List.all_eq_true] at hpr
    exact hpr i hi'
  rw [hall] at htoks
  have hlen := c20_dir_files_length args p world dir out ht
  refine ⟨res, _, toks, hres, e0, e1, e2, ?_, ?_, hl, hvoid, ?_, ?_⟩
  · rw [efiles]; simp [hlen]
  · rw [efiles, List.getElem?_append_right (by omega), hlen]; simp
  · rw [htoks, List.length_map, c20_numbered_length]
  · intro k i hk
    obtain ⟨ct, hct, hfile⟩ := c20_dir_file_get args p world dir out ht k i hk
    have hb : ∃ b, c17_opened (c20_openCfg args p world) i.src = some b := by
      simp only [c17_allPresent, List.all_eq_true] at hpr
      have := hpr i (List.mem_of_getElem? hk)
      cases hop : c17_opened (c20_openCfg args p world) i.src with
      | none => rw [hop] at this; cases this
      | some b => exact ⟨b, rfl⟩
    obtain ⟨b, hb⟩ := hb
    have hcount : ((out.imageCalls.take k).filter (c20_okf (c20_openCfg args p world))).length = k := by
      have : (out.imageCalls.take k).filter (c20_okf (c20_openCfg args p world)) = out.imageCalls.take k := by
        rw [List.filter_eq_self]
        intro j hj
        simp only [c17_allPresent, List.all_eq_true] at hpr
        exact hpr j (List.mem_of_mem_take hj)
      rw [this, List.length_take]
      have : k < out.imageCalls.length := by
        by_cases h : k < out.imageCalls.length
        · exact h
        · rw [List.getElem?_eq_none (by omega)] at hk; cases hk
      omega
    obtain ⟨ct', hct', hsrc⟩ := c20_numbered_srcAlt out.imageCalls ht k i hk
    rw [hct] at hct'; cases hct'
    refine ⟨ct, b, hct, hb, ?_, ?_⟩
    · have hlt : k < (imageWriterRunO dir 1 (c20_writerInput args p world out)).1.length := by
        rw [hlen]
        by_cases h : k < out.imageCalls.length
        · exact h
        · rw [List.getElem?_eq_none (by omega)] at hk; cases hk
      rw [efiles, List.getElem?_append_left hlt, hfile, hcount, hb, Nat.add_comm 1 k]
      rfl
    · rw [htoks]; exact hsrc

/-- the bytes an embedded image opens to are the bytes of its part in the package (last entry of that name) -/
theorem C20_embedded_bytes (args : CliArgs) (p : Package) (world : Str → Option Bytes) (name : Str) :
    c17_opened (c20_openCfg args p world) (.embedded name) = lookupLast name (archiveBytes p) := rfl

/-- `--output-dir dir`, HTML, PICTURES THAT CANNOT BE OPENED (linked pictures whose file / URL cannot be read).
    `calls` = `out.imageCalls`, the images handed to the `ImageWriter` in call order (= document order,
    `C20_calls_document_order`), all with a content type; "opens" = `c17_opened … ≠ none`.  What the model says,
    exactly (the real command does the same, see the example below):
    * the command succeeds: exit status 0, stdout empty, stderr = the library's messages;
    * `calls.length + 1` files are written, the last one `dir/<stem>.html`;
    * THE COUNTER ADVANCES ONLY ON SUCCESS: the file written for the image at position k is named
      `<c+1>.<subtype>` where `c` is the number of images BEFORE it that opened; it holds the image's bytes if
      the image opens and is EMPTY if it does not (the destination is created before the source is opened) —
      the number is then used again by the next image (`C20_failed_open_keeps_number`);
    * the HTML has one void `img` per image that OPENS, none for the others: the j-th `img` has
      `src = <j+1>.<subtype>` and the alt text of the j-th image that opens;
    * every image that does not open has a warning text (`c16_openError`: it is a linked image) and this
      warning is written to stderr. -/
theorem C20_counter_only_advances_on_success (args : CliArgs) (p : Package) (world : Str → Option Bytes)
    (fuel : Nat) (dir : Str) (out : ApiOut)
    (hv : args.valid = true) (hd : args.outputDir = some dir) (hf : c20_format args.format = some .html)
    (hout : apiConvert p fuel (some (c20_dirname args.path)) world id
          { styleMap := args.styleMap, format := .html, imageConv := c20_writerConv } = .ok out)
    (hi : c17_noImgMap (c20_dirCfg args p world .html) = true)
    (hp : c02_plainCfg (c20_dirCfg args p world .html) = true)
    (ht : c20_allTyped out.imageCalls = true) :
    ∃ res value toks, c20_cli args p world fuel = .ok res ∧
      res.exitCode = 0 ∧ res.stdout = [] ∧ res.stderr = out.messages ∧
      res.files.length = out.imageCalls.length + 1 ∧
      res.files[out.imageCalls.length]? = some (posixJoin dir (cliOutputName args.path), utf8Encode value) ∧
      c02_lexHtml value = some toks ∧ c17_tokImgs toks = c17_tokVoidImgs toks ∧
      (c17_tokVoidImgs toks).length =
        (out.imageCalls.filter (c20_okf (c20_openCfg args p world))).length ∧
      (∀ k i, out.imageCalls[k]? = some i →
        ∃ ct bytes, i.contentType = some ct ∧
          res.files[k]? = some (posixJoin dir (natToStr
            (((out.imageCalls.take k).filter (c20_okf (c20_openCfg args p world))).length + 1)
              ++ ['.'] ++ imageSubtype ct), bytes) ∧
          (∀ b, c17_opened (c20_openCfg args p world) i.src = some b → bytes = b) ∧
          (c17_opened (c20_openCfg args p world) i.src = none → bytes = [])) ∧
      (∀ j i, (out.imageCalls.filter (c20_okf (c20_openCfg args p world)))[j]? = some i →
        ∃ ct, i.contentType = some ct ∧
          ((c17_tokVoidImgs toks)[j]?).map c17_srcAltOf =
            some (some (natToStr (j + 1) ++ ['.'] ++ imageSubtype ct), c17_altOut i)) ∧
      (∀ i ∈ out.imageCalls, c17_opened (c20_openCfg args p world) i.src = none →
        ∃ m, c16_openError (c20_openCfg args p world) i.src = some m ∧ m ∈ res.stderr) := by
  have hout' : c20_convert args p world fuel .html c20_writerConv = .ok out := hout
  obtain ⟨res, hres, e0, e1, e2, _, efiles, _⟩ := c20_dir_run args p world fuel .html dir out hv hf hd hout' ht
  obtain ⟨toks, hl, hvoid, htoks⟩ := c20_dir_html args p world fuel dir out hout' ht hi hp
  have hlen := c20_dir_files_length args p world dir out ht
  refine ⟨res, _, toks, hres, e0, e1, e2, ?_, ?_, hl, hvoid, ?_, ?_, ?_, ?_⟩
  · rw [efiles]; simp [hlen]
  · rw [efiles, List.getElem?_append_right (by omega), hlen]; simp
  · rw [htoks, List.length_map, c20_numbered_length]
  · intro k i hk
    obtain ⟨ct, hct, hfile⟩ := c20_dir_file_get args p world dir out ht k i hk
    have hlt : k < (imageWriterRunO dir 1 (c20_writerInput args p world out)).1.length := by
      rw [hlen]
      by_cases h : k < out.imageCalls.length
      · exact h
      · rw [List.getElem?_eq_none (by omega)] at hk; cases hk
    refine ⟨ct, (c17_opened (c20_openCfg args p world) i.src).getD [], hct, ?_, ?_, ?_⟩
    · rw [efiles, List.getElem?_append_left hlt, hfile, Nat.add_comm 1]
    · intro b hb; rw [hb]; rfl
    · intro hb; rw [hb]; rfl
  · intro j i hj
    obtain ⟨ct, hct, hsrc⟩ := c20_numbered_srcAlt _ (c20_allTyped_filter _ _ ht) j i hj
    exact ⟨ct, hct, by rw [htoks]; exact hsrc⟩
  · intro i hi' hop
    obtain ⟨m, hm, hmem⟩ := c20_dir_warned args p world fuel .html out hout' i hi' hop
    exact ⟨m, hm, by rw [e2]; exact hmem⟩

/-- a picture that does not open does not consume a number: the count of opened pictures before position
    `k + 1` is the count before position `k`, so the next picture's file and `src` carry the number the empty
    file carries -/
theorem C20_failed_open_keeps_number (cfg : Cfg) (calls : List ImageProps) (k : Nat) (i : ImageProps)
    (hk : calls[k]? = some i) (hop : c17_opened cfg i.src = none) :
    ((calls.take (k + 1)).filter (c20_okf cfg)).length = ((calls.take k).filter (c20_okf cfg)).length := by
  have hf : c20_okf cfg i = false := by simp [c20_okf, hop]
  rw [List.take_add_one, hk]
  simp [List.filter_append, hf]

/-- … and one that opens advances it by exactly one -/
theorem C20_successful_open_advances (cfg : Cfg) (calls : List ImageProps) (k : Nat) (i : ImageProps) (b : Bytes)
    (hk : calls[k]? = some i) (hop : c17_opened cfg i.src = some b) :
    ((calls.take (k + 1)).filter (c20_okf cfg)).length = ((calls.take k).filter (c20_okf cfg)).length + 1 := by
  have hf : c20_okf cfg i = true := by simp [c20_okf, hop]
  rw [List.take_add_one, hk]
  simp [List.filter_append, hf]

/-- `--output-dir dir`, EITHER FORMAT (`--output-format` absent, `html` or `markdown`), any style-map text, no
    hypothesis on the style map: when every image handed to the `ImageWriter` has a content type, the command
    succeeds; stderr = the messages of the library call, one per line, in order; the files are the image files
    — numbered and filled as in `C20_counter_only_advances_on_success`, in call order — followed by
    `dir/<stem>.html` (this name also for Markdown) holding the UTF-8 encoding of the value the library returns
    under the `ImageWriter` (`c20_dirValue`); nothing on stdout. -/
theorem C20_output_dir_files (args : CliArgs) (p : Package) (world : Str → Option Bytes)
    (fuel : Nat) (fmt : Format) (dir : Str) (out : ApiOut)
    (hv : args.valid = true) (hd : args.outputDir = some dir) (hf : c20_format args.format = some fmt)
    (hout : apiConvert p fuel (some (c20_dirname args.path)) world id
          { styleMap := args.styleMap, format := fmt, imageConv := c20_writerConv } = .ok out)
    (ht : c20_allTyped out.imageCalls = true) :
    ∃ res, c20_cli args p world fuel = .ok res ∧
      res.exitCode = 0 ∧ res.stdout = [] ∧ res.stderr = out.messages ∧
      res.stderrText = stderrTextOf out.messages ∧
      res.files.length = out.imageCalls.length + 1 ∧
      res.files[out.imageCalls.length]? = some (posixJoin dir (cliOutputName args.path),
        utf8Encode (c20_dirValue dir fmt (c20_writerInput args p world out) out)) ∧
      (∀ k i, out.imageCalls[k]? = some i →
        ∃ ct bytes, i.contentType = some ct ∧
          res.files[k]? = some (posixJoin dir (natToStr
            (((out.imageCalls.take k).filter (c20_okf (c20_openCfg args p world))).length + 1)
              ++ ['.'] ++ imageSubtype ct), bytes) ∧
          (∀ b, c17_opened (c20_openCfg args p world) i.src = some b → bytes = b) ∧
          (c17_opened (c20_openCfg args p world) i.src = none → bytes = [])) := by
  have hout' : c20_convert args p world fuel fmt c20_writerConv = .ok out := hout
  obtain ⟨res, hres, e0, e1, e2, e3, efiles, _⟩ := c20_dir_run args p world fuel fmt dir out hv hf hd hout' ht
  have hlen := c20_dir_files_length args p world dir out ht
  refine ⟨res, hres, e0, e1, e2, e3, ?_, ?_, ?_⟩
  · rw [efiles]; simp [hlen]
  · rw [efiles, List.getElem?_append_right (by omega), hlen]; simp
  · intro k i hk
    obtain ⟨ct, hct, hfile⟩ := c20_dir_file_get args p world dir out ht k i hk
    have hlt : k < (imageWriterRunO dir 1 (c20_writerInput args p world out)).1.length := by
      rw [hlen]
      by_cases h : k < out.imageCalls.length
      · exact h
      · rw [List.getElem?_eq_none (by omega)] at hk; cases hk
    refine ⟨ct, (c17_opened (c20_openCfg args p world) i.src).getD [], hct, ?_, ?_, ?_⟩
    · rw [efiles, List.getElem?_append_left hlt, hfile, Nat.add_comm 1]
    · intro b hb; rw [hb]; rfl
    · intro hb; rw [hb]; rfl

/-- `--output-dir` with an image WITHOUT content type: the composed command dies as `C20_unknown_type_crash`
    says — exit status 1, no HTML file, no message, nothing on stdout -/
theorem C20_output_dir_untyped_crash (args : CliArgs) (p : Package) (world : Str → Option Bytes)
    (fuel : Nat) (fmt : Format) (dir : Str) (out : ApiOut)
    (hv : args.valid = true) (hd : args.outputDir = some dir) (hf : c20_format args.format = some fmt)
    (hout : apiConvert p fuel (some (c20_dirname args.path)) world id
          { styleMap := args.styleMap, format := fmt, imageConv := c20_writerConv } = .ok out)
    (ht : c20_allTyped out.imageCalls = false) :
    ∃ res, c20_cli args p world fuel = .ok res ∧
      res.exitCode = 1 ∧ res.stdout = [] ∧ res.stderr = [] ∧
      res.files = (imageWriterRunO dir 1 (c20_writerInput args p world out)).1 := by
  have hout' : c20_convert args p world fuel fmt c20_writerConv = .ok out := hout
  have hty : c20_typed (c20_writerInput args p world out) = false := by
    rw [c20_writerInput_eq args p world fmt, c20_input_typed]; exact ht
  rw [c20_cli_dir args p world fuel fmt dir hv hf hd, hout']
  exact ⟨_, rfl, C20_unknown_type_crash args _ _ _ dir hd (c20_valid_output args dir hv hd) hty⟩

/-! ### examples for the end-to-end theorems (all evaluated by the kernel; the real command was run on the
  same inputs — `python -m mammoth.cli in/a.docx --output-dir=out` etc. — and wrote the same bytes)

  `c17_exPackage` (`Proofs/C17_Example.lean`): three pictures of different types — a png inline picture, a
  gif `v:imagedata` in a text box that precedes it in the XML but follows it in reading order, a jpeg in an
  anchored drawing inside a table — typed by `Default`, `Override` and the built-in extension table. -/

private def c20_exArgs : CliArgs := { path := S!"in/a.docx", outputDir := some S!"out" }

/-- the hypotheses of `C20_output_dir_images` hold for it (built-in style map included): valid arguments, the
    package is viewed, no continuation cell, the library call succeeds, the document order is the three images
    png, gif, jpeg, all typed and present; no `!`, no `img`, plain names -/
example : c20_exArgs.valid = true ∧ c20_exArgs.outputDir = some S!"out" ∧
    c20_format c20_exArgs.format = some .html ∧
    (match c05_view c17_exPackage with
      | some v => c01_noVMergeL v.body &&
          c17_okAnd (apiConvert c17_exPackage 30 (some (c20_dirname c20_exArgs.path)) (fun _ => none) id
              { styleMap := c20_exArgs.styleMap, format := .html, imageConv := c20_writerConv })
            (fun out =>
              decide (c20_docOrder (c20_dirCfg c20_exArgs c17_exPackage (fun _ => none) .html) v out.document
                = c17_exImages) &&
              c20_allTyped (c20_docOrder (c20_dirCfg c20_exArgs c17_exPackage (fun _ => none) .html) v out.document) &&
              c17_allPresent (c20_openCfg c20_exArgs c17_exPackage (fun _ => none))
                (c20_docOrder (c20_dirCfg c20_exArgs c17_exPackage (fun _ => none) .html) v out.document))
      | none => false) = true ∧
    c01_noIgnoreMap (c20_dirCfg c20_exArgs c17_exPackage (fun _ => none) .html) = true ∧
    c17_noImgMap (c20_dirCfg c20_exArgs c17_exPackage (fun _ => none) .html) = true ∧
    c02_plainCfg (c20_dirCfg c20_exArgs c17_exPackage (fun _ => none) .html) = true := by
  decide +kernel

/-- and this is everything the command writes for it: `1.png`, `2.gif`, `3.jpeg` with exactly the bytes of the
    parts `word/media/image1.png`, `word/media/image3.bin`, `word/media/image2.JPG` (document order, not part
    order), then `a.html` whose three `img`s have `src` = these names -/
example : c17_okAnd (c20_cli c20_exArgs c17_exPackage (fun _ => none) 30) (fun o => decide (o =
    { files := [(S!"out/1.png", c17_exPng), (S!"out/2.gif", c17_exGif), (S!"out/3.jpeg", c17_exJpg),
        (S!"out/a.html", utf8Encode S!"<p>see <img alt=\"first\" src=\"1.png\" /></p><img alt=\"third\" src=\"2.gif\" /><table><tr><td><p><img alt=\"second\" src=\"3.jpeg\" /></p></td></tr></table>")],
      srcs := [S!"1.png", S!"2.gif", S!"3.jpeg"] })) = true := by decide +kernel

/-- the same package in Markdown with `--output-dir`: the same image files, the Markdown in `a.html` -/
example : c17_okAnd (c20_cli { c20_exArgs with format := some S!"markdown" } c17_exPackage (fun _ => none) 30)
    (fun o => decide (o.files =
      [(S!"out/1.png", c17_exPng), (S!"out/2.gif", c17_exGif), (S!"out/3.jpeg", c17_exJpg),
       (S!"out/a.html", utf8Encode S!"see ![first](1.png)\n\n![third](2.gif)![second](3.jpeg)\n\n")])) = true := by
  decide +kernel

/-- `C20_stdout_is_value` / `C20_stderr_is_messages`: Markdown to stdout under a style-map file with a line the
    library does not understand: stdout = the library's value, the warning on stderr, no file -/
private def c20_exArgsMd : CliArgs :=
  { path := S!"in/a.docx", format := some S!"markdown", styleMap := some S!"p => h2:fresh\nwhat is this" }
example : c17_okAnd (c20_cli c20_exArgsMd c17_exPackage (fun _ => none) 30) (fun o => decide (o =
    { stdout := utf8Encode S!"## see ![first](data:image/png;base64,iVBORw==)\n\n![third](data:image/gif;base64,R0lG)## ![second](data:image/jpeg;base64,/9j/)\n\n",
      stderr := [S!"Did not understand this style mapping, so ignored it: what is this"],
      stderrText := S!"Did not understand this style mapping, so ignored it: what is this\n" })) = true := by
  decide +kernel

/-- `C20_file_is_value`: HTML to an output path, a non-ASCII style-map text -/
private def c20_exArgsFile : CliArgs :=
  { path := S!"a.docx", output := some S!"o.html", styleMap := some S!"p => p.é:fresh" }
example : c17_okAnd (c20_cli c20_exArgsFile c17_exPackage (fun _ => none) 30) (fun o =>
    decide (o.files = [(S!"o.html", utf8Encode S!"<p>see <img alt=\"first\" src=\"data:image/png;base64,iVBORw==\" /></p><img alt=\"third\" src=\"data:image/gif;base64,R0lG\" /><table><tr><td><p><img alt=\"second\" src=\"data:image/jpeg;base64,/9j/\" /></p></td></tr></table>")]) &&
    decide (o.stdout = []) &&
    decide (o.stderr = [S!"Did not understand this style mapping, so ignored it: p => p.é:fresh"])) = true := by
  decide +kernel

/-- usage errors -/
example : c17_okAnd (c20_cli { path := S!"a.docx", output := some S!"o.html", outputDir := some S!"d" }
      c17_exPackage (fun _ => none) 30) (fun o => decide (o = { exitCode := 2 })) = true ∧
    c17_okAnd (c20_cli { path := S!"a.docx", format := some S!"pdf" }
      c17_exPackage (fun _ => none) 30) (fun o => decide (o = { exitCode := 2 })) = true := by decide +kernel

/-- `os.path.dirname` -/
example : [S!"a.docx", S!"d/a.docx", S!"/a.docx", S!"//a.docx", S!"d//a.docx", S!"/x/y/a.docx", S!"///x//y"].map
    c20_dirname = [S!"", S!"d", S!"/", S!"//", S!"d", S!"/x/y", S!"///x"] := by decide

/-- `C20_counter_only_advances_on_success` on `c20_exFailPackage` (input `in2/b.docx`; next to it only
    `there.jpeg` exists): four pictures — a linked gif that cannot be opened, an embedded png, a linked jpeg that
    can, a linked png that cannot.  Hypotheses: -/
private def c20_exFailArgs : CliArgs := { path := S!"in2/b.docx", outputDir := some S!"out3" }
example : c17_noImgMap (c20_dirCfg c20_exFailArgs c20_exFailPackage c20_exWorld .html) = true ∧
    c02_plainCfg (c20_dirCfg c20_exFailArgs c20_exFailPackage c20_exWorld .html) = true ∧
    c17_okAnd (apiConvert c20_exFailPackage 30 (some (c20_dirname c20_exFailArgs.path)) c20_exWorld id
        { styleMap := c20_exFailArgs.styleMap, format := .html, imageConv := c20_writerConv })
      (fun out => c20_allTyped out.imageCalls &&
        decide (out.imageCalls.map (fun i => (i.contentType, c17_opened (c20_openCfg c20_exFailArgs c20_exFailPackage c20_exWorld) i.src))
          = [(some S!"image/gif", none), (some S!"image/png", some [7]), (some S!"image/jpeg", some [9, 8]),
             (some S!"image/png", none)])) = true := by
  decide +kernel

/-- … and what is written: an EMPTY `1.gif` (number 1 not consumed), `1.png`, `2.jpeg`, an EMPTY `3.png`; the
    HTML has two `img`s, `1.png` and `2.jpeg`; the two warnings on stderr.  (The real command writes the same
    four files and the same HTML; its two warning messages continue, after a newline, with the text of the OS
    error, which the model leaves out.) -/
example : c17_okAnd (c20_cli c20_exFailArgs c20_exFailPackage c20_exWorld 30) (fun o => decide (o =
    { files := [(S!"out3/1.gif", []), (S!"out3/1.png", [7]), (S!"out3/2.jpeg", [9, 8]), (S!"out3/3.png", []),
        (S!"out3/b.html", utf8Encode S!"<p><img alt=\"b\" src=\"1.png\" /><img alt=\"c\" src=\"2.jpeg\" /></p>")],
      srcs := [S!"1.png", S!"2.jpeg"],
      stderr := [S!"could not open external image: 'missing.gif' (document directory: 'in2')",
                 S!"could not open external image: 'gone.png' (document directory: 'in2')"],
      stderrText := S!"could not open external image: 'missing.gif' (document directory: 'in2')\ncould not open external image: 'gone.png' (document directory: 'in2')\n" }))
    = true := by decide +kernel

/-- the substitution is needed only for the converter's own `img`s: with a style mapping `p => img` (excluded by
    `c17_noImgMap`) the paragraph's `img` element has no `data-len` mark and is left alone -/
example :
    c17_imgs (c20_putSrcs [S!"1.png"] [el S!"img" [] [], el S!"img" [(S!"alt", S!"x"), (S!"data-len", S!"3")] []]).1
    = [c17_imgTag [], c17_imgTag [(S!"alt", S!"x"), (S!"src", S!"1.png")]] := by decide

/-- `C20_output_dir_untyped_crash`: the three-picture package without its `[Content_Types].xml` entries —
    `image1.png` is still typed by its extension, `image3.bin` has no content type: the command dies (exit
    status 1) after writing `1.png`; no HTML, no message (the real command: AttributeError, the same file) -/
private def c20_exUntyped : Package :=
  { parts := (S!"[Content_Types].xml", .xml (c17_x S!"content-types:Types" [])) :: c17_exPackage.parts.drop 1 }
example : c17_okAnd (c20_cli { path := S!"in/u.docx", outputDir := some S!"outu" } c20_exUntyped (fun _ => none) 30)
    (fun o => decide (o = { files := [(S!"outu/1.png", c17_exPng)], srcs := [S!"1.png"], exitCode := 1 })) = true := by
  decide +kernel

end Mammoth
