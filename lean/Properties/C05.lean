/-
  C05 — "Converting any supported document returns a result instead of raising".

  In the model every Python operation that can raise is an explicit `Err` constructor.  The theorems
  below say which of them remain possible on which inputs:

  * reader (`readElem`/`readAll`): on STATICALLY well-formed XML (`c05_static`: relationship ids resolve,
    note/comment references carry `w:id`, `w:gridSpan` is decimal, `w:sym/@w:char` is hex; everything else —
    style ids, numbering ids, image-less drawings, unknown elements, unknown break types — is unconstrained)
    the only failures are the model's own fuel and `pop()` on an empty complex-field stack (unbalanced
    `w:fldChar`, outside the domain);
  * fuel: more fuel never changes a result;
  * converter (`convertDoc`): it can only fail with a `KeyError` (unresolvable note reference,
    unresolvable comment reference under a `comment-reference` mapping, missing zip entry of an embedded
    image), and it returns normally when all of these resolve (`c05_docOk`);
  * writer: `collapse`, `stripEmpty`, `writeHtml`, `writeMarkdown` are total functions, so every error
    of `apiConvert` is an error of the embedded-style-map reader, of `readPackage` or of `convertDoc`.

  Messages are plain strings appended by `warn` (type `List Str`): a message can never be an exception —
  this is by construction of the model and needs no theorem.

  The second half of the file removes the restrictions of the first half and composes everything:

  * `w:numStyleLink` chains: `c05_noStyleLinks` is replaced by the necessary and sufficient `c05_linksAcyclic`
    (links may dangle, only cycles are excluded): `C05_findLevel_total_iff`, `C05_readElem_errors_acyclic`, …;
  * deleted paragraph marks: fuel for ALL trees (`C05_fuel_enough_all`), balanced fields measured in READING
    order (`C05_balanced_no_index`), reader totality `C05_readAll_total` (no `_partial`);
  * the API: `C05_api_total`, `C05_rawText_total` on the decidable domain `c05_inDomain`, with an example in
    the domain and, for each clause, a variant outside it on which the model fails.

  Helper definitions and lemmas: Proofs/C05_*.lean.
-/
import Proofs.C05_ReadSpec
import Proofs.C05_Fuel
import Proofs.C05_BalancedSpec
import Proofs.C05_FuelEnough
import Proofs.C05_Api
import Proofs.C05_Links
import Proofs.C05_ReadSpecG
import Proofs.C05_FuelAll
import Proofs.C05_RBalanced
import Proofs.C05_RUnbalanced
import Proofs.C05_FuelErr
import Proofs.C05_ApiTotal
import Proofs.C05_ViewNec
import Proofs.C05_Example
import Proofs.Pins
namespace Mammoth

/-! ### the reader -/

/-- On statically well-formed input (`c05_static env n`, and the deferred content of deleted paragraphs
    `st.deleted` also statically well-formed), in an environment without `w:numStyleLink`s, reading an
    element — with ANY fuel, from ANY reader state — can only fail by running out of model fuel or by
    popping the empty complex-field stack (`IndexError`, unbalanced `w:fldChar`). -/
theorem C05_readElem_errors (env : REnv) (hn : c05_noStyleLinks env = true) (fuel : Nat) (st : RState)
    (n : XmlNode) (e : Err) (hs : c05_static env n = true) (hd : c05_staticL env st.deleted = true)
    (h : readElem env fuel st n = .error e) : e = .fuel ∨ ∃ w, e = .index w :=
  (c05_readElem_spec env hn fuel st n hs hd).err e h

/-- the invariant that makes `C05_readElem_errors` inductive: the content of deleted paragraphs that is
    carried over to the next paragraph stays statically well-formed -/
theorem C05_readElem_static_preserved (env : REnv) (hn : c05_noStyleLinks env = true) (fuel : Nat) (st : RState)
    (n : XmlNode) (r : ReadResult) (st' : RState) (hs : c05_static env n = true)
    (hd : c05_staticL env st.deleted = true) (h : readElem env fuel st n = .ok (r, st')) :
    c05_staticL env st'.deleted = true :=
  (c05_readElem_spec env hn fuel st n hs hd).ok _ h

/-- the same for a list of nodes (`body_reader.read_all`) -/
theorem C05_readAll_errors (env : REnv) (hn : c05_noStyleLinks env = true) (fuel : Nat) (st : RState)
    (ns : List XmlNode) (e : Err) (hs : c05_staticL env ns = true) (hd : c05_staticL env st.deleted = true)
    (h : readAll env fuel st ns = .error e) : e = .fuel ∨ ∃ w, e = .index w :=
  (c05_readAllWith_spec env _ (c05_readElem_spec env hn fuel) ns st hs hd).err e h

/-- a body read from a fresh reader state (`{}`: empty field stack, nothing deferred), as `readPackage` does
    for the document body, the notes and the comments -/
theorem C05_readAll_fresh_errors (env : REnv) (hn : c05_noStyleLinks env = true) (fuel : Nat)
    (ns : List XmlNode) (e : Err) (hs : c05_staticL env ns = true)
    (h : readAll env fuel {} ns = .error e) : e = .fuel ∨ ∃ w, e = .index w :=
  C05_readAll_errors env hn fuel {} ns e hs rfl h

/-! ### balanced complex fields -/

/- Full statement wanted: for EVERY statically well-formed tree whose `w:fldChar` marks are balanced in
   reading order, no `.index` error.  Proved below under two extra hypotheses that make "reading order"
   = document order: nothing is deferred on entry (`st.deleted = []`) and no paragraph carries a deletion
   mark `w:pPr/w:rPr/w:del` (`c05_noDel`) — a deleted paragraph mark moves the paragraph's content into the
   next paragraph, i.e. reorders the reading, and the depth function `c05_depth` does not model that. -/

/-- BALANCED FIELDS (partial: no deleted paragraph marks).  `c05_depth fuel d n` computes the depth of the
    complex-field stack after reading `n` from depth `d` (`begin` pushes, `end` pops, `separate` replaces
    the top; `none` on underflow).  If it does not underflow — the fields are balanced — then reading a
    statically well-formed tree without deletion marks cannot fail with `IndexError` either: the only
    failure left is the model's fuel, and on success the stack has exactly the computed depth. -/
theorem C05_balanced_no_index_partial (env : REnv) (hn : c05_noStyleLinks env = true) (fuel : Nat) (st : RState)
    (n : XmlNode) (k : Nat) (hs : c05_static env n = true) (hnd : c05_noDel n = true) (hd : st.deleted = [])
    (hb : c05_depth fuel st.stack.length n = some k) :
    (∀ e, readElem env fuel st n = .error e → e = .fuel) ∧
    (∀ r st', readElem env fuel st n = .ok (r, st') → st'.stack.length = k ∧ st'.deleted = []) :=
  ⟨((c05_readElem_bal env hn fuel st n hs hnd hd).h k hb).err,
   fun r st' h => (((c05_readElem_bal env hn fuel st n hs hnd hd).h k hb).ok (r, st') h).symm⟩

/-- the same for a body (list of nodes) read from the fresh state, as `readPackage` does -/
theorem C05_balanced_no_index_readAll_partial (env : REnv) (hn : c05_noStyleLinks env = true) (fuel : Nat)
    (ns : List XmlNode) (k : Nat) (hs : c05_staticL env ns = true) (hnd : c05_noDelL ns = true)
    (hb : c05_depthAllWith (c05_depth fuel) 0 ns = some k) (e : Err)
    (h : readAll env fuel {} ns = .error e) : e = .fuel :=
  ((c05_readAllWith_bal env _ _ (c05_readElem_bal env hn fuel) ns {} hs hnd rfl).h k hb).err e h

/-! ### fuel -/

/-- more fuel never changes a result: one more unit … -/
theorem C05_fuel_mono (env : REnv) (f : Nat) (st : RState) (n : XmlNode) (r : ReadResult × RState)
    (h : readElem env f st n = .ok r) : readElem env (f+1) st n = .ok r :=
  (c05_readElem_le_succ env f st n).h r h

/-- … hence any larger amount of fuel -/
theorem C05_fuel_mono_le (env : REnv) (f f' : Nat) (hf : f ≤ f') (st : RState) (n : XmlNode)
    (r : ReadResult × RState) (h : readElem env f st n = .ok r) : readElem env f' st n = .ok r := by
  obtain ⟨k, rfl⟩ := Nat.exists_eq_add_of_le hf
  exact (c05_readElem_le_add env f k st n).h r h

/-- the same for lists of nodes -/
theorem C05_fuel_mono_readAll (env : REnv) (f f' : Nat) (hf : f ≤ f') (st : RState) (ns : List XmlNode)
    (r : ReadResult × RState) (h : readAll env f st ns = .ok r) : readAll env f' st ns = .ok r := by
  obtain ⟨k, rfl⟩ := Nat.exists_eq_add_of_le hf
  exact (c05_readAllWith_le _ _ (fun st n => c05_readElem_le_add env f k st n) ns st).h r h

/-- consequently a `.fuel` failure is never "hidden" by a success at smaller fuel: if some fuel succeeds,
    every failure at larger fuel is impossible -/
theorem C05_fuel_no_late_failure (env : REnv) (f f' : Nat) (hf : f ≤ f') (st : RState) (n : XmlNode)
    (r : ReadResult × RState) (e : Err) (h : readElem env f st n = .ok r) :
    readElem env f' st n ≠ .error e := by
  rw [C05_fuel_mono_le env f f' hf st n r h]; intro h'; cases h'

/-- FUEL IS ENOUGH (no deleted paragraph marks): with fuel at least `xmlSize n` the reader never runs out
    of fuel, whatever else happens (no static hypothesis needed).  Deleted paragraph marks are excluded
    because they make a later paragraph re-read content that is not part of its own subtree. -/
theorem C05_fuel_enough (env : REnv) (fuel : Nat) (st : RState) (n : XmlNode) (e : Err)
    (hnd : c05_noDel n = true) (hd : st.deleted = []) (hf : xmlSize n ≤ fuel)
    (h : readElem env fuel st n = .error e) : e ≠ .fuel :=
  (c05_readElem_nofuel env fuel st n hnd hd hf).err e h

/-- the same for a body read from the fresh state -/
theorem C05_fuel_enough_readAll (env : REnv) (fuel : Nat) (ns : List XmlNode) (e : Err)
    (hnd : c05_noDelL ns = true) (hf : xmlSizeL ns ≤ fuel)
    (h : readAll env fuel {} ns = .error e) : e ≠ .fuel :=
  (c05_readAllWith_nofuel _ fuel (c05_readElem_nofuel env fuel) ns {} hnd rfl hf).err e h

/-- READER TOTALITY on the domain (partial: no deleted paragraph marks, no `w:numStyleLink`): a body that
    is statically well-formed, has balanced complex fields and no deletion marks is read WITHOUT ANY ERROR
    as soon as the fuel is at least its size. -/
theorem C05_readAll_total_partial (env : REnv) (hn : c05_noStyleLinks env = true) (fuel : Nat)
    (ns : List XmlNode) (k : Nat) (hs : c05_staticL env ns = true) (hnd : c05_noDelL ns = true)
    (hb : c05_depthAllWith (c05_depth fuel) 0 ns = some k) (hf : xmlSizeL ns ≤ fuel) :
    ∃ r, readAll env fuel {} ns = .ok r := by
  cases h : readAll env fuel {} ns with
  | ok r => exact ⟨r, rfl⟩
  | error e =>
    exact absurd (C05_balanced_no_index_readAll_partial env hn fuel ns k hs hnd hb e h)
      (C05_fuel_enough_readAll env fuel ns e hnd hf h)

/-! ### the converter -/

/-- `convertDoc` can only fail with a `KeyError`: an unresolvable note reference, an unresolvable comment
    reference under a `comment-reference` mapping, or a missing zip entry for an embedded image — for ALL
    documents and configurations. -/
theorem C05_convert_errors (cfg : Cfg) (d : Document) (e : Err) (h : convertDoc cfg d = .error e) :
    ∃ w, e = .key w :=
  c05_convertDoc_err cfg d e h

/-- If every `.noteRef` in the body and in the note/comment bodies resolves in `d.notes`, every `.commentRef`
    id is in `d.comments` or there is no `comment-reference` mapping, and every embedded image path is in
    `cfg.archive` or the image converter does not open images (all of this is the decidable `c05_docOk`),
    then `convertDoc` returns normally. -/
theorem C05_convert_total (cfg : Cfg) (d : Document) (h : c05_docOk cfg d = true) :
    ∃ r, convertDoc cfg d = .ok r :=
  c05_convertDoc_ok cfg d h

/-- in particular a document without note references, comment references and embedded images always converts -/
theorem C05_convert_total_linked_only (cfg : Cfg) (uri : Str) (alt ct : Option Str) :
    ∃ r, convertDoc cfg { children := [.paragraph {} [.run {} [.image ⟨alt, ct, .linked uri⟩]]] } = .ok r :=
  c05_convertDoc_ok cfg _ rfl

/-! ### the writer stage and the API -/

/-- The writer stage cannot fail: `stripEmpty`, `collapse`, `writeHtml`, `writeMarkdown` are total functions
    (`List Node → List Node`, `List Node → Str`), so an error of `apiConvert` is an error of reading the
    embedded style map, of the reader `readPackage`, or of the converter `convertDoc` on the document read. -/
theorem C05_value_total (p : Package) (fuel : Nat) (base : Option Str) (world : Str → Option Bytes)
    (transform : Document → Document) (o : Options) (e : Err)
    (h : apiConvert p fuel base world transform o = .error e) :
    (o.includeEmbedded = true ∧ readEmbeddedStyleMap p = .error e) ∨
    readPackage p fuel = .error e ∨
    ∃ emb doc msgs, readPackage p fuel = .ok (doc, msgs) ∧
      convertDoc (c05_apiCfg p base world o emb) (transform doc) = .error e :=
  c05_apiConvert_err p fuel base world transform o e h

/-- hence: once the package has been read, `apiConvert` can only fail with a `KeyError` of the converter -/
theorem C05_api_errors_after_reading (p : Package) (fuel : Nat) (base : Option Str) (world : Str → Option Bytes)
    (transform : Document → Document) (o : Options) (e : Err) (dm : Document × List Str)
    (hr : readPackage p fuel = .ok dm)
    (hs : o.includeEmbedded = false ∨ ∃ s, readEmbeddedStyleMap p = .ok s)
    (h : apiConvert p fuel base world transform o = .error e) : ∃ w, e = .key w := by
  rcases C05_value_total p fuel base world transform o e h with ⟨h1, h2⟩ | h2 | ⟨emb, doc, msgs, _, h3⟩
  · rcases hs with hs | ⟨s, hs⟩
    · rw [hs] at h1; cases h1
    · rw [hs] at h2; cases h2
  · rw [hr] at h2; cases h2
  · exact C05_convert_errors _ _ e h3

/-! ### examples -/

/-- a paragraph with a dangling style id, an unknown element, an unknown break type, a drawing without
    image and a hex symbol is statically well-formed … -/
def c05_exampleNode : XmlNode :=
  .elem S!"w:p" [] [
    .elem S!"w:pPr" [] [.elem S!"w:pStyle" [(S!"w:val", S!"NoSuchStyle")] [],
                        .elem S!"w:numPr" [] [.elem S!"w:numId" [(S!"w:val", S!"77")] [],
                                              .elem S!"w:ilvl" [(S!"w:val", S!"0")] []]],
    .elem S!"w:r" [] [.elem S!"w:t" [] [.text S!"hi"], .elem S!"w:br" [(S!"w:type", S!"weird")] [],
                      .elem S!"w:unknown" [] [], .elem S!"w:sym" [(S!"w:font", S!"Wingdings"), (S!"w:char", S!"F04A")] [],
                      .elem S!"w:drawing" [] [.elem S!"wp:inline" [] []]],
    .elem S!"w:hyperlink" [(S!"r:id", S!"rId1")] [.elem S!"w:r" [] [.elem S!"w:t" [] [.text S!"x"]]]]

def c05_exampleEnv : REnv := { rels := [⟨S!"rId1", S!"http://example.com", S!"hyperlink"⟩] }

example : c05_static c05_exampleEnv c05_exampleNode = true := by decide
example : c05_noStyleLinks c05_exampleEnv = true := by decide
/-- … and is read without error -/
example : (readElem c05_exampleEnv 10 {} c05_exampleNode).toBool = true := by decide +kernel
/-- with a dangling relationship id it is not static, and the reader raises `KeyError` -/
example : c05_static {} c05_exampleNode = false := by decide
example : (readElem {} 10 {} c05_exampleNode).toBool = false := by decide +kernel
/-- an unbalanced `w:fldChar` is statically fine but pops the empty stack -/
example : c05_static {} (.elem S!"w:fldChar" [(S!"w:fldCharType", S!"end")] []) = true := by decide
example : (readElem {} 3 {} (.elem S!"w:fldChar" [(S!"w:fldCharType", S!"end")] [])) = .error (.index S!"pop from empty list") := by
  rfl
/-- non-numeric gridSpan / non-hex symbol are not static -/
example : c05_static {} (.elem S!"w:tc" [] [.elem S!"w:tcPr" [] [.elem S!"w:gridSpan" [(S!"w:val", S!"2x")] []]]) = false := by decide
example : c05_static {} (.elem S!"w:sym" [(S!"w:char", S!"zz")] []) = false := by decide

/-- a balanced complex field (begin … separate … end) has depth 0 again; an `end` alone underflows -/
example : c05_depth 5 0 (.elem S!"w:p" [] [
    .elem S!"w:r" [] [.elem S!"w:fldChar" [(S!"w:fldCharType", S!"begin")] []],
    .elem S!"w:r" [] [.elem S!"w:instrText" [] [.text S!" HYPERLINK \"http://x\" "]],
    .elem S!"w:r" [] [.elem S!"w:fldChar" [(S!"w:fldCharType", S!"separate")] []],
    .elem S!"w:r" [] [.elem S!"w:t" [] [.text S!"x"]],
    .elem S!"w:r" [] [.elem S!"w:fldChar" [(S!"w:fldCharType", S!"end")] []]]) = some 0 := by decide +kernel
example : c05_depth 5 0 (.elem S!"w:fldChar" [(S!"w:fldCharType", S!"end")] []) = none := by decide +kernel
example : c05_noDel c05_exampleNode = true := by decide +kernel

/-- the converter hypothesis on a document with a resolvable note reference and an embedded image present
    in the archive -/
example : c05_docOk { archive := [(S!"word/media/a.png", [1, 2])] }
    { children := [.paragraph {} [.run {} [.noteRef S!"footnote" S!"1", .image ⟨none, none, .embedded S!"word/media/a.png"⟩]]],
      notes := [⟨S!"footnote", S!"1", []⟩] } = true := by decide
/-- … and violated by a dangling note reference -/
example : c05_docOk {} { children := [.noteRef S!"footnote" S!"9"] } = false := by decide

/-! ## The reader, in full: `w:numStyleLink` chains and deleted paragraph marks

The theorems above exclude `w:numStyleLink` (`c05_noStyleLinks`) and deleted paragraph marks (`c05_noDel`,
`st.deleted = []`).  The theorems below remove both restrictions:

* `c05_noStyleLinks` is replaced by `c05_linksAcyclic` (Proofs/C05_Links.lean): every `w:numStyleLink` chain
  starting at a defined numId ends — links may DANGLE anywhere, only cycles are excluded.  This is necessary
  and sufficient for `find_level` to return (`C05_findLevel_total_iff`); a cycle is a `RecursionError` whatever
  the fuel (`C05_findLevel_cycle_fails`).
* fuel: `xmlSize n + xmlSizeL st.deleted ≤ fuel` is enough for EVERY tree (`C05_fuel_enough_all`).
* balanced fields are measured IN READING ORDER (`c05_rdepth`, Proofs/C05_RDepth.lean), which follows the
  deferred content of deleted paragraphs into the paragraph that reads it (`C05_balanced_no_index`).
* `C05_readAll_total`: statically well-formed + balanced in reading order + fuel ≥ size ⟹ the body is read.
-/

/-! ### numbering-style links -/

/-- `find_level` (with the fuel the reader gives it) returns normally for every numId and level a
    paragraph may carry IF AND ONLY IF the `w:numStyleLink` chains of the environment are acyclic. -/
theorem C05_findLevel_total_iff (env : REnv) :
    c05_linksAcyclic env = true ↔
    ∀ numId lvl : Str, ∃ r, findLevel env.numbering (c05_linkFuel env) (some numId) lvl = .ok r :=
  c05_linksAcyclic_iff env

/-- when the links are not acyclic, some numId makes `find_level` fail with `RecursionError` for EVERY fuel:
    the failure is a cycle in the document, not an artefact of the model's fuel -/
theorem C05_findLevel_cycle_fails (env : REnv) (hl : c05_linksAcyclic env = false) :
    ∃ numId : Str, ∀ (f : Nat) (lvl : Str), findLevel env.numbering f (some numId) lvl = .error .recursion :=
  c05_cyclic_fails env hl

/-- the old hypothesis implies the new one -/
theorem C05_noStyleLinks_acyclic (env : REnv) (hn : c05_noStyleLinks env = true) : c05_linksAcyclic env = true :=
  c05_linksAcyclic_of_noStyleLinks env hn

/-- `C05_readElem_errors` with "no `w:numStyleLink`" weakened to "acyclic `w:numStyleLink` chains": on
    statically well-formed input (and statically well-formed deferred content) reading an element — with ANY
    fuel, from ANY reader state — can only fail by running out of model fuel or by popping the empty
    complex-field stack. -/
theorem C05_readElem_errors_acyclic (env : REnv) (hl : c05_linksAcyclic env = true) (fuel : Nat) (st : RState)
    (n : XmlNode) (e : Err) (hs : c05_static env n = true) (hd : c05_staticL env st.deleted = true)
    (h : readElem env fuel st n = .error e) : e = .fuel ∨ ∃ w, e = .index w :=
  (c05_readElem_specG env (c05_numOk_of_acyclic env hl) fuel st n hs hd).err e h

/-- the deferred content stays statically well-formed (acyclic version of `C05_readElem_static_preserved`) -/
theorem C05_readElem_static_preserved_acyclic (env : REnv) (hl : c05_linksAcyclic env = true) (fuel : Nat)
    (st : RState) (n : XmlNode) (r : ReadResult) (st' : RState) (hs : c05_static env n = true)
    (hd : c05_staticL env st.deleted = true) (h : readElem env fuel st n = .ok (r, st')) :
    c05_staticL env st'.deleted = true :=
  (c05_readElem_specG env (c05_numOk_of_acyclic env hl) fuel st n hs hd).ok _ h

/-- the same for a list of nodes (`body_reader.read_all`) -/
theorem C05_readAll_errors_acyclic (env : REnv) (hl : c05_linksAcyclic env = true) (fuel : Nat) (st : RState)
    (ns : List XmlNode) (e : Err) (hs : c05_staticL env ns = true) (hd : c05_staticL env st.deleted = true)
    (h : readAll env fuel st ns = .error e) : e = .fuel ∨ ∃ w, e = .index w :=
  (c05_readAllWith_spec env _ (c05_readElem_specG env (c05_numOk_of_acyclic env hl) fuel) ns st hs hd).err e h

/-- … and from the fresh reader state -/
theorem C05_readAll_fresh_errors_acyclic (env : REnv) (hl : c05_linksAcyclic env = true) (fuel : Nat)
    (ns : List XmlNode) (e : Err) (hs : c05_staticL env ns = true)
    (h : readAll env fuel {} ns = .error e) : e = .fuel ∨ ∃ w, e = .index w :=
  C05_readAll_errors_acyclic env hl fuel {} ns e hs rfl h

/-! ### fuel, for all trees -/

/-- FUEL IS ENOUGH, for EVERY tree and EVERY reader state (no hypothesis on deleted paragraph marks, none on
    well-formedness): with fuel at least the size of the node plus the size of the deferred content, the
    reader never runs out of fuel. -/
theorem C05_fuel_enough_all (env : REnv) (fuel : Nat) (st : RState) (n : XmlNode) (e : Err)
    (hf : xmlSize n + xmlSizeL st.deleted ≤ fuel) (h : readElem env fuel st n = .error e) : e ≠ .fuel :=
  (c05_readElem_nofuelA env fuel st n hf).err e h

/-- … and what is deferred afterwards is bounded by the same sum (the invariant that makes the bound
    inductive along a list of siblings) -/
theorem C05_fuel_enough_all_deferred (env : REnv) (fuel : Nat) (st st' : RState) (n : XmlNode) (r : ReadResult)
    (hf : xmlSize n + xmlSizeL st.deleted ≤ fuel) (h : readElem env fuel st n = .ok (r, st')) :
    xmlSizeL st'.deleted ≤ xmlSize n + xmlSizeL st.deleted :=
  (c05_readElem_nofuelA env fuel st n hf).ok _ h

/-- the same for a list of nodes from any state … -/
theorem C05_fuel_enough_readAll_all (env : REnv) (fuel : Nat) (st : RState) (ns : List XmlNode) (e : Err)
    (hf : xmlSizeL ns + xmlSizeL st.deleted ≤ fuel) (h : readAll env fuel st ns = .error e) : e ≠ .fuel :=
  (c05_readAllWith_nofuelA _ fuel (c05_readElem_nofuelA env fuel) ns st hf).err e h

/-- … in particular for a body read from the fresh state -/
theorem C05_fuel_enough_readAll_fresh (env : REnv) (fuel : Nat) (ns : List XmlNode) (e : Err)
    (hf : xmlSizeL ns ≤ fuel) (h : readAll env fuel {} ns = .error e) : e ≠ .fuel :=
  C05_fuel_enough_readAll_all env fuel {} ns e (by simpa [xmlSizeL] using hf) h

/-! ### balanced complex fields, in reading order -/

/-- BALANCED FIELDS.  `c05_rdepth fuel (d, deferred) n` computes, IN READING ORDER (the children of a
    paragraph with a deleted paragraph mark are deferred to the next paragraph without one), the pair (depth of
    the complex-field stack, deferred nodes) after reading `n`; `none` = a `w:fldChar` end/separate meets the
    empty stack.  For EVERY statically well-formed tree, from EVERY state whose deferred content is
    statically well-formed: if it does not underflow, reading cannot fail with `IndexError` — the only
    failure left is the model's fuel — and on success the stack depth and the deferred nodes are exactly the
    computed ones. -/
theorem C05_balanced_no_index (env : REnv) (hl : c05_linksAcyclic env = true) (fuel : Nat) (st : RState)
    (n : XmlNode) (s' : c05_DS) (hs : c05_static env n = true) (hd : c05_staticL env st.deleted = true)
    (hb : c05_rdepth fuel (st.stack.length, st.deleted) n = some s') :
    (∀ e, readElem env fuel st n = .error e → e = .fuel) ∧
    (∀ r st', readElem env fuel st n = .ok (r, st') → st'.stack.length = s'.1 ∧ st'.deleted = s'.2) :=
  ⟨((c05_readElem_rbal env (c05_numOk_of_acyclic env hl) fuel st n hs hd).h s' hb).err,
   fun r st' h => ((c05_readElem_rbal env (c05_numOk_of_acyclic env hl) fuel st n hs hd).h s' hb).ok (r, st') h⟩

/-- the same for a list of nodes, from any state -/
theorem C05_balanced_no_index_readAll (env : REnv) (hl : c05_linksAcyclic env = true) (fuel : Nat) (st : RState)
    (ns : List XmlNode) (s' : c05_DS) (hs : c05_staticL env ns = true) (hd : c05_staticL env st.deleted = true)
    (hb : c05_rdepthL fuel (st.stack.length, st.deleted) ns = some s') :
    (∀ e, readAll env fuel st ns = .error e → e = .fuel) ∧
    (∀ r st', readAll env fuel st ns = .ok (r, st') → st'.stack.length = s'.1 ∧ st'.deleted = s'.2) :=
  have hn := c05_numOk_of_acyclic env hl
  have key := (c05_readAllWith_rbal env _ _ (c05_readElem_rbal env hn fuel) (c05_readElem_specG env hn fuel)
    ns st hs hd).h s' hb
  ⟨key.err, fun r st' h => key.ok (r, st') h⟩

/-! ### reader totality -/

/-- READER TOTALITY from any state: statically well-formed nodes and deferred content, balanced in reading
    order from the state's stack depth, fuel at least the size of the nodes plus the deferred content ⟹ the
    nodes are read WITHOUT ANY ERROR, and the final stack depth / deferred nodes are the computed ones. -/
theorem C05_readAll_total_from (env : REnv) (hl : c05_linksAcyclic env = true) (fuel : Nat) (st : RState)
    (ns : List XmlNode) (s' : c05_DS) (hs : c05_staticL env ns = true) (hd : c05_staticL env st.deleted = true)
    (hb : c05_rdepthL fuel (st.stack.length, st.deleted) ns = some s')
    (hf : xmlSizeL ns + xmlSizeL st.deleted ≤ fuel) :
    ∃ r st', readAll env fuel st ns = .ok (r, st') ∧ st'.stack.length = s'.1 ∧ st'.deleted = s'.2 := by
  obtain ⟨herr, hok⟩ := C05_balanced_no_index_readAll env hl fuel st ns s' hs hd hb
  cases h : readAll env fuel st ns with
  | ok r => exact ⟨r.1, r.2, rfl, hok r.1 r.2 h⟩
  | error e => exact absurd (herr e h) (C05_fuel_enough_readAll_all env fuel st ns e hf h)

/-- READER TOTALITY on the domain: a body (as `readPackage` reads the document body, the notes and the
    comments: from the fresh state) that is statically well-formed (`c05_staticL`) and whose complex fields
    are balanced in reading order (`c05_balanced`), in an environment with acyclic `w:numStyleLink` chains, is
    read WITHOUT ANY ERROR with every fuel ≥ its size.  Deleted paragraph marks, `w:numStyleLink`s, dangling
    style / numbering references, unknown elements are all allowed. -/
theorem C05_readAll_total (env : REnv) (hl : c05_linksAcyclic env = true) (fuel : Nat)
    (ns : List XmlNode) (hs : c05_staticL env ns = true) (hb : c05_balanced ns = true)
    (hf : xmlSizeL ns ≤ fuel) : ∃ r, readAll env fuel {} ns = .ok r := by
  unfold c05_balanced at hb
  cases hb' : c05_rdepthL (xmlSizeL ns) (0, []) ns with
  | none => rw [hb'] at hb; cases hb
  | some s' =>
    obtain ⟨r, st', h, _⟩ := C05_readAll_total_from env hl (xmlSizeL ns) {} ns s' hs rfl hb'
      (by simp [xmlSizeL])
    exact ⟨(r, st'), C05_fuel_mono_readAll env _ fuel hf {} ns _ h⟩

/-! ### exactness: balanced in reading order is also NECESSARY -/

/-- more fuel changes no definite outcome: a normal result, and also every error other than `.fuel`, is the
    same at every larger fuel (strengthens `C05_fuel_mono_readAll`) -/
theorem C05_fuel_mono_outcome (env : REnv) (f f' : Nat) (hf : f ≤ f') (st : RState) (ns : List XmlNode) :
    (∀ r, readAll env f st ns = .ok r → readAll env f' st ns = .ok r) ∧
    (∀ e, readAll env f st ns = .error e → e ≠ .fuel → readAll env f' st ns = .error e) :=
  ⟨(c05_readAll_le2 env f f' hf st ns).ok, (c05_readAll_le2 env f f' hf st ns).err⟩

/-- UNBALANCED ⟹ `IndexError`: statically well-formed nodes and deferred content, enough fuel, and the
    reading-order depth function underflows ⟹ the reader fails with `pop()` on the empty field stack -/
theorem C05_unbalanced_fails (env : REnv) (hl : c05_linksAcyclic env = true) (fuel : Nat) (st : RState)
    (ns : List XmlNode) (hs : c05_staticL env ns = true) (hd : c05_staticL env st.deleted = true)
    (hb : c05_rdepthL fuel (st.stack.length, st.deleted) ns = none)
    (hf : xmlSizeL ns + xmlSizeL st.deleted ≤ fuel) : ∃ w, readAll env fuel st ns = .error (.index w) :=
  c05_readAll_unbalanced env hl fuel st ns hs hd hb hf

/-- READER TOTALITY, EXACTLY: a statically well-formed body, in an environment with acyclic links, is read
    from the fresh state (with any fuel ≥ its size) IF AND ONLY IF its complex fields are balanced in reading
    order — `c05_balanced` is not stronger than necessary. -/
theorem C05_readAll_total_iff (env : REnv) (hl : c05_linksAcyclic env = true) (fuel : Nat)
    (ns : List XmlNode) (hs : c05_staticL env ns = true) (hf : xmlSizeL ns ≤ fuel) :
    (∃ r, readAll env fuel {} ns = .ok r) ↔ c05_balanced ns = true := by
  constructor
  · intro ⟨r, hr⟩
    cases hb : c05_balanced ns with
    | true => rfl
    | false =>
      have hnone : c05_rdepthL (xmlSizeL ns) (0, []) ns = none := by
        unfold c05_balanced at hb
        cases h : c05_rdepthL (xmlSizeL ns) (0, []) ns with
        | none => rfl
        | some s => rw [h] at hb; cases hb
      obtain ⟨w, hw⟩ := c05_readAll_unbalanced env hl (xmlSizeL ns) {} ns hs rfl hnone (by simp [xmlSizeL])
      have := (c05_readAll_le2 env _ fuel hf {} ns).err _ hw (by intro h; cases h)
      rw [this] at hr; cases hr
  · intro hb
    exact C05_readAll_total env hl fuel ns hs hb hf

/-! ### examples for the full reader theorems -/

/-- a numbering part with a `w:numStyleLink` chain that resolves (numId 2 → abstractNum 1 → style "ListStyle"
    → numId 1 → abstractNum 0 → level 0), one that dangles (numId 3 → abstractNum 2 → style "Nope") and a
    num without abstractNum (numId 4) -/
def c05_exampleNumbering : Numbering :=
  { abstractNums := [(some S!"0", { levels := [(S!"0", ⟨S!"0", true, none⟩)], numStyleLink := none }),
                     (some S!"1", { levels := [], numStyleLink := some S!"ListStyle" }),
                     (some S!"2", { levels := [], numStyleLink := some S!"Nope" })],
    nums := [(some S!"1", S!"0"), (some S!"2", S!"1"), (some S!"3", S!"2"), (some S!"4", S!"9")],
    styles := { numbering := [(some S!"ListStyle", some S!"1")] } }

def c05_exampleEnv2 : REnv :=
  { numbering := c05_exampleNumbering, rels := [⟨S!"rId1", S!"http://example.com", S!"hyperlink"⟩] }

/-- the same with the style pointing back to numId 2: a cycle -/
def c05_exampleEnvCyclic : REnv :=
  { numbering := { c05_exampleNumbering with styles := { numbering := [(some S!"ListStyle", some S!"2")] } } }

example : c05_linksAcyclic c05_exampleEnv2 = true := by decide
example : c05_noStyleLinks c05_exampleEnv2 = false := by decide
example : findLevel c05_exampleNumbering (c05_linkFuel c05_exampleEnv2) (some S!"2") S!"0" = .ok (some ⟨S!"0", true⟩) := by
  c05_kernel_rfl
example : findLevel c05_exampleNumbering (c05_linkFuel c05_exampleEnv2) (some S!"3") S!"0" = .ok none := by c05_kernel_rfl
example : c05_linksAcyclic c05_exampleEnvCyclic = false := by decide
example : findLevel c05_exampleEnvCyclic.numbering (c05_linkFuel c05_exampleEnvCyclic) (some S!"2") S!"0" = .error .recursion := by
  c05_kernel_rfl

def c05_fld (ty : Str) : XmlNode := .elem S!"w:r" [] [.elem S!"w:fldChar" [(S!"w:fldCharType", ty)] []]
def c05_delMark : XmlNode := .elem S!"w:pPr" [] [.elem S!"w:rPr" [] [.elem S!"w:del" [] []]]

/-- a body with a DELETED PARAGRAPH MARK: the first paragraph (field `begin` + instruction) is deferred into
    the second one (linked numbering 2/0, `separate` … `end`, a hyperlink) -/
def c05_exampleBody : List XmlNode :=
  [ .elem S!"w:p" [] [c05_delMark, c05_fld S!"begin",
                      .elem S!"w:r" [] [.elem S!"w:instrText" [] [.text S!" HYPERLINK \"http://x\" "]]],
    .elem S!"w:p" [] [
      .elem S!"w:pPr" [] [.elem S!"w:numPr" [] [.elem S!"w:numId" [(S!"w:val", S!"2")] [],
                                                .elem S!"w:ilvl" [(S!"w:val", S!"0")] []]],
      c05_fld S!"separate", .elem S!"w:r" [] [.elem S!"w:t" [] [.text S!"x"]], c05_fld S!"end",
      .elem S!"w:hyperlink" [(S!"r:id", S!"rId1")] [.elem S!"w:r" [] [.elem S!"w:t" [] [.text S!"y"]]]] ]

example : c05_noDelL c05_exampleBody = false := by decide +kernel
example : c05_staticL c05_exampleEnv2 c05_exampleBody = true := by decide
example : c05_balanced c05_exampleBody = true := by decide +kernel
example : xmlSizeL c05_exampleBody = 25 := by decide
/-- … so `C05_readAll_total` applies; indeed: -/
example : (readAll c05_exampleEnv2 25 {} c05_exampleBody).toBool = true := by decide +kernel
/-- the hypotheses of `C05_readAll_total_from` / `C05_balanced_no_index_readAll` / `C05_fuel_enough_readAll_all`
    from a state with one open field and a deferred run -/
example : c05_rdepthL 10 (1, [c05_fld S!"separate"]) [.elem S!"w:p" [] [c05_fld S!"end"]] = some (0, []) := by
  c05_kernel_rfl

/-- the hypotheses of the single-node theorems (`C05_readElem_errors_acyclic`, `C05_fuel_enough_all`,
    `C05_balanced_no_index`) on a non-trivial node and state: one field open, a `separate` run deferred -/
def c05_exampleState : RState := { stack := [.begin []], deleted := [c05_fld S!"separate"] }

example : c05_static c05_exampleEnv2 c05_exampleNode = true := by decide
example : c05_staticL c05_exampleEnv2 c05_exampleState.deleted = true := by decide
example : xmlSize c05_exampleNode + xmlSizeL c05_exampleState.deleted ≤ 30 := by decide
example : c05_rdepth 30 (c05_exampleState.stack.length, c05_exampleState.deleted) c05_exampleNode = some (1, []) := by
  c05_kernel_rfl
example : (readElem c05_exampleEnv2 30 c05_exampleState c05_exampleNode).toBool = true := by decide +kernel

/-- READING ORDER IS NOT DOCUMENT ORDER.  `begin` in a deleted paragraph, then `end` in a run outside any
    paragraph: balanced in document order (`c05_depth … = some 0`), but the reader meets `end` first and pops
    the empty stack.  The reading-order function sees it. -/
def c05_exampleReorder : List XmlNode :=
  [.elem S!"w:p" [] [c05_delMark, c05_fld S!"begin"], c05_fld S!"end", .elem S!"w:p" [] []]

example : c05_depthAllWith (c05_depth 9) 0 c05_exampleReorder = some 0 := by decide +kernel
example : c05_balanced c05_exampleReorder = false := by decide +kernel
example : readAll {} 9 {} c05_exampleReorder = .error (.index S!"pop from empty list") := by c05_kernel_rfl
/-- (these are the hypotheses of `C05_unbalanced_fails`: static, underflow, enough fuel) -/
example : c05_staticL {} c05_exampleReorder = true := by decide
example : (c05_rdepthL 9 (0, []) c05_exampleReorder).isNone = true := by decide +kernel
example : xmlSizeL c05_exampleReorder + 0 ≤ 9 := by decide
/-- conversely `end` in a deleted paragraph before the `begin`: unbalanced in document order, balanced in
    reading order, and read without error -/
def c05_exampleReorder2 : List XmlNode :=
  [.elem S!"w:p" [] [c05_delMark, c05_fld S!"end"], c05_fld S!"begin", .elem S!"w:p" [] []]

example : c05_depthAllWith (c05_depth 9) 0 c05_exampleReorder2 = none := by decide +kernel
example : c05_balanced c05_exampleReorder2 = true := by decide +kernel
example : (readAll {} 9 {} c05_exampleReorder2).toBool = true := by decide +kernel
/-- with a cyclic `w:numStyleLink` chain the example body is NOT read, whatever the fuel bound says -/
example : (readAll { c05_exampleEnv2 with numbering := c05_exampleEnvCyclic.numbering } 25 {} c05_exampleBody)
    = .error .recursion := by c05_kernel_rfl
/-- less fuel than the bound can fail: the bound is not vacuous -/
example : readAll c05_exampleEnv2 3 {} c05_exampleBody = .error .fuel := by c05_kernel_rfl


/-! ## The whole API on its domain

`c05_inDomain p` (Proofs/C05_ApiTotal.lean) is a decidable predicate on the package; it is the conjunction
of the clauses listed by `c05_clauses p` (`C05_inDomain_clauses`):

1. every part that is PRESENT parses (`c05_view p ≠ none`; package and part relationships, content types,
   styles, numbering, footnotes, endnotes, comments are optional, the main document with its `w:body` is not);
2. the `w:numStyleLink` chains are acyclic (`c05_linksAcyclic`) — links may dangle;
3. for the footnotes, the endnotes and the comments part: every note / comment element has a `w:id`, and
   the children of all of them IN SEQUENCE (one body reader reads them all: fields and deferred paragraphs
   carry over from one note to the next) are statically well-formed (`c05_staticL`) and balanced in reading
   order (`c05_balanced`); the same for the children of `w:body`;
4. every note reference, comment reference and embedded-image relationship anywhere in those four node lists
   resolves: to a note / comment the package defines, resp. to a non-XML zip entry (`c05_xrefsL`);
5. the embedded style map `mammoth/style-map`, if present, is UTF-8 text.

Dangling style ids, numbering ids, numbering-style links, image-less drawings, unknown elements, unknown break
types, absent optional parts, `w:val`-less toggles, absent property blocks, absent `mc:Fallback` are all
INSIDE the domain (none of the clauses mentions them).  `c05_fuelBound p` is the size of the largest of the
four node lists.  The result value is a `Str` and the messages are `List Str` (warnings) by construction. -/

/-- `docx.read` returns a document for every readable package (clauses 1–3) and enough fuel -/
theorem C05_readPackage_total (p : Package) (fuel : Nat) (h : c05_readable p = true)
    (hf : c05_fuelBound p ≤ fuel) : ∃ dm, readPackage p fuel = .ok dm :=
  c05_readPackage_total p fuel h hf

/-- clause 1 is necessary: if some present part does not parse (or the main document / its body is missing),
    `docx.read` fails whatever the fuel -/
theorem C05_parts_must_parse (p : Package) (fuel : Nat) (h : c05_view p = none) :
    ∃ e, readPackage p fuel = .error e :=
  c05_view_none_fails p fuel h

/-- when every present part parses, `docx.read` is the body reader run on the four node lists of the view -/
theorem C05_readPackage_eq_view (p : Package) (v : c05_View) (fuel : Nat) (h : c05_view p = some v) :
    readPackage p fuel = c05_readView v fuel :=
  c05_readPackage_view p v fuel h

/-- the reader does not invent references: on a package whose references resolve in the XML (clause 4), every
    document `docx.read` returns satisfies the converter's precondition `c05_docOk` — for EVERY converter
    configuration that uses the package's own archive (every style map, id prefix, image converter, …) -/
theorem C05_read_document_refs (p : Package) (fuel : Nat) (doc : Document) (msgs : List Str) (cfg : Cfg)
    (harch : cfg.archive = archiveBytes p) (h : c05_refsResolve p = true)
    (hr : readPackage p fuel = .ok (doc, msgs)) : c05_docOk cfg doc = true :=
  c05_readPackage_docOk p fuel doc msgs cfg harch h hr

/-- THE API IS TOTAL ON ITS DOMAIN: for every package in the domain, every fuel ≥ the bound, and EVERY
    combination of options `o` (custom style map, include default / embedded style map, id prefix,
    ignore-empty-paragraphs, image converter, output format HTML or markdown), every base directory and
    outside world, `convert_to_html` / `convert_to_markdown` (no `transform_document`) return normally. -/
theorem C05_api_total (p : Package) (fuel : Nat) (base : Option Str) (world : Str → Option Bytes)
    (o : Options) (h : c05_inDomain p = true) (hf : c05_fuelBound p ≤ fuel) :
    ∃ out, apiConvert p fuel base world id o = .ok out :=
  c05_apiConvert_total p fuel base world o h hf

/-- in particular for both output formats -/
theorem C05_api_total_html_markdown (p : Package) (fuel : Nat) (base : Option Str) (world : Str → Option Bytes)
    (o : Options) (h : c05_inDomain p = true) (hf : c05_fuelBound p ≤ fuel) :
    (∃ out, apiConvert p fuel base world id { o with format := .html } = .ok out) ∧
    (∃ out, apiConvert p fuel base world id { o with format := .markdown } = .ok out) :=
  ⟨c05_apiConvert_total p fuel base world _ h hf, c05_apiConvert_total p fuel base world _ h hf⟩

/-- with a `transform_document` function: the API returns normally whenever the package was read, its
    embedded style map is fine, and the references of the TRANSFORMED document resolve within that document
    and the package's zip entries (`c05_docSelfOk`; an arbitrary transformation can of course introduce
    dangling references, so some hypothesis on its result is needed) -/
theorem C05_api_total_transform (p : Package) (fuel : Nat) (base : Option Str) (world : Str → Option Bytes)
    (transform : Document → Document) (o : Options) (doc : Document) (msgs : List Str)
    (hs : c05_styleMapOk p = true) (hr : readPackage p fuel = .ok (doc, msgs))
    (hd : c05_docSelfOk ((archiveBytes p).map (·.1)) (transform doc) = true) :
    ∃ out, apiConvert p fuel base world transform o = .ok out :=
  c05_apiConvert_total_transform p fuel base world transform o doc msgs hs hr hd

/-- `extract_raw_text` returns normally on every readable package (clauses 1–3 suffice: the raw-text
    extractor follows no references and does not read the embedded style map) -/
theorem C05_rawText_total (p : Package) (fuel : Nat) (h : c05_readable p = true)
    (hf : c05_fuelBound p ≤ fuel) : ∃ out, apiRawText p fuel = .ok out :=
  c05_apiRawText_total p fuel h hf

/-- the domain is exactly the conjunction of the clauses listed by `c05_clauses` -/
theorem C05_inDomain_clauses (p : Package) : c05_inDomain p = (c05_clauses p).all id :=
  c05_inDomain_eq_clauses p

/-! ### examples for the API theorems -/

/-- the example package (Proofs/C05_Example.lean: deleted paragraph mark with a complex field running into
    the next paragraph, `w:numStyleLink`, dangling paragraph style, footnote, comment, embedded image,
    hyperlink, no content-types and no endnotes part) is in the domain, its fuel bound is 40 … -/
example : c05_inDomain c05_exPackage = true := by decide +kernel
example : c05_fuelBound c05_exPackage = 40 := by decide +kernel
example : c05_clauses c05_exPackage =
    [true, true, true, true, true, true, true, true, true, true, true, true, true, true, true, true, true, true] := by
  decide +kernel
/-- … and indeed HTML, markdown and raw text are produced (with a `comment-reference` mapping in force) -/
example : (apiConvert c05_exPackage 40 none (fun _ => none) id c05_exOptions).toBool = true := by decide +kernel
example : (apiConvert c05_exPackage 40 none (fun _ => none) id { c05_exOptions with format := .markdown }).toBool
    = true := by decide +kernel
example : (apiRawText c05_exPackage 40).toBool = true := by decide +kernel

/-- the hypotheses of `C05_readPackage_total` / `C05_rawText_total`, `C05_readPackage_eq_view`,
    `C05_read_document_refs` on the example; of `C05_parts_must_parse` on the variant with an unparsable part -/
example : c05_readable c05_exPackage = true := by decide +kernel
example : (c05_view c05_exPackage).isSome = true := by decide +kernel
example : c05_refsResolve c05_exPackage = true ∧ (readPackage c05_exPackage 40).toBool = true := by decide +kernel
example : (c05_view c05_exBadParse).isNone = true := by decide +kernel

/-- the hypotheses of `C05_api_total_transform`, with a transformation that appends a paragraph -/
def c05_exTransform (d : Document) : Document :=
  { d with children := d.children ++ [.paragraph {} [.run {} [.text S!"appended", .noteRef S!"footnote" S!"1"]]] }

example : c05_styleMapOk c05_exPackage = true := by decide +kernel
example : (match readPackage c05_exPackage 40 with
    | .ok (doc, _) => c05_docSelfOk ((archiveBytes c05_exPackage).map (·.1)) (c05_exTransform doc)
    | .error _ => false) = true := by decide +kernel
example : (apiConvert c05_exPackage 40 none (fun _ => none) c05_exTransform c05_exOptions).toBool = true := by
  decide +kernel

/-! Each clause is needed: a variant of the example that violates ONE clause (see `c05_clauses` for which)
    makes the model fail. -/

/-- 1. a present part that does not parse (the main document's relationships part is not XML) -/
example : c05_clauses c05_exBadParse = [false] := by decide +kernel
example : (readPackage c05_exBadParse 40).toBool = false := by decide +kernel
/-- 2. cyclic `w:numStyleLink` chain: `RecursionError` -/
example : c05_clauses c05_exCyclic =
    [true, false, true, true, true, true, true, true, true, true, true, true, true, true, true, true, true, true] := by
  decide +kernel
example : readPackage c05_exCyclic 40 = .error .recursion := by c05_kernel_rfl
/-- 3a. a note element without `w:id`: `KeyError` (the reference to it then dangles as well) -/
example : c05_clauses c05_exNoteNoId =
    [true, true, false, true, true, true, true, true, true, true, true, true, true, true, true, true, false, true] := by
  decide +kernel
example : readPackage c05_exNoteNoId 40 = .error (.key S!"w:id") := by c05_kernel_rfl
/-- 3b. not statically well-formed (undefined relationship id on an `a:blip`): `KeyError` -/
example : c05_clauses c05_exNotStatic =
    [true, true, true, true, true, true, true, true, true, true, true, false, true, true, true, true, true, true] := by
  decide +kernel
example : readPackage c05_exNotStatic 40 = .error (.key S!"rId99") := by c05_kernel_rfl
/-- 3c. unbalanced complex field (here: in the footnotes part): `IndexError` -/
example : c05_clauses c05_exUnbalanced =
    [true, true, true, true, false, true, true, true, true, true, true, true, true, true, true, true, true, true] := by
  decide +kernel
example : readPackage c05_exUnbalanced 40 = .error (.index S!"pop from empty list") := by c05_kernel_rfl
/-- 4a. dangling footnote reference: the package is read, the converter raises `KeyError` -/
example : c05_clauses c05_exDanglingNote =
    [true, true, true, true, true, true, true, true, true, true, true, true, true, true, true, true, false, true] := by
  decide +kernel
example : (readPackage c05_exDanglingNote 40).toBool = true ∧
    (apiConvert c05_exDanglingNote 40 none (fun _ => none) id c05_exOptions).toBool = false := by decide +kernel
/-- 4b. dangling comment reference (with a `comment-reference` mapping) -/
example : c05_clauses c05_exDanglingComment =
    [true, true, true, true, true, true, true, true, true, true, true, true, true, true, true, true, false, true] := by
  decide +kernel
example : (readPackage c05_exDanglingComment 40).toBool = true ∧
    (apiConvert c05_exDanglingComment 40 none (fun _ => none) id c05_exOptions).toBool = false := by decide +kernel
/-- 4c. embedded image whose zip entry is missing (with the default image converter) -/
example : c05_clauses c05_exMissingImage =
    [true, true, true, true, true, true, true, true, true, true, true, true, true, true, true, true, false, true] := by
  decide +kernel
example : (readPackage c05_exMissingImage 40).toBool = true ∧
    (apiConvert c05_exMissingImage 40 none (fun _ => none) id c05_exOptions).toBool = false := by decide +kernel
/-- 5. embedded style map that is not UTF-8: `UnicodeDecodeError` -/
example : c05_clauses c05_exBadStyleMap =
    [true, true, true, true, true, true, true, true, true, true, true, true, true, true, true, true, true, false] := by
  decide +kernel
example : (apiConvert c05_exBadStyleMap 40 none (fun _ => none) id c05_exOptions).toBool = false := by decide +kernel


/-- The tables of the library that this property's theorems consume (regenerated from /repo's source on this run) still have the
    content the model was validated against: the reader's dispatch table; the set of deliberately ignored elements; the dingbat table (entries and checksums).  An edit of one of them in the library changes model and code
    alike; it is this theorem that then no longer checks (`Proofs/Pins.lean`). -/
theorem C05_tables_as_validated :
    (Generated.handlers = pin_handlers) ∧
    (sameSet Generated.ignored pin_ignored = true) ∧
    (dingbatSums Generated.dingbats = (1061, 217117, 77998056)) :=
  ⟨pins_handlers, pins_ignored, pins_dingbats⟩

end Mammoth
