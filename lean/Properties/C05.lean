/-
  C05 — "Converting any supported document returns a result instead of raising".

  In the model every Python operation that can raise is an explicit `Err` constructor.  The theorems
  below say which of them remain possible on which inputs:

  * reader (`readElem`/`readAll`): on STATICALLY well-formed XML (`c05_static`: relationship ids resolve,
    note/comment references carry `w:id`, `w:gridSpan` is decimal, `w:sym/@w:char` is hex; everything else —
    style ids, numbering ids, image-less drawings, unknown elements, unknown break types — is unconstrained)
    the only failures are the model's own fuel and `pop()` on an empty complex-field stack (unbalanced
    `w:fldChar`, outside the domain);
  * fuel: more fuel never changes a result;
  * converter (`convertDoc`): it can only fail with a `KeyError` (unresolvable note reference,
    unresolvable comment reference under a `comment-reference` mapping, missing zip entry of an embedded
    image), and it returns normally when all of these resolve (`c05_docOk`);
  * writer: `collapse`, `stripEmpty`, `writeHtml`, `writeMarkdown` are total functions, so every error
    of `apiConvert` is an error of the embedded-style-map reader, of `readPackage` or of `convertDoc`.

  Messages are plain strings appended by `warn` (type `List Str`): a message can never be an exception —
  this is by construction of the model and needs no theorem.

  Helper definitions and lemmas: Proofs/C05_*.lean.
-/
import Proofs.C05_ReadSpec
import Proofs.C05_Fuel
import Proofs.C05_BalancedSpec
import Proofs.C05_FuelEnough
import Proofs.C05_Api
namespace Mammoth

/-! ### the reader -/

/-- On statically well-formed input (`c05_static env n`, and the deferred content of deleted paragraphs
    `st.deleted` also statically well-formed), in an environment without `w:numStyleLink`s, reading an
    element — with ANY fuel, from ANY reader state — can only fail by running out of model fuel or by
    popping the empty complex-field stack (`IndexError`, unbalanced `w:fldChar`). -/
theorem C05_readElem_errors (env : REnv) (hn : c05_noStyleLinks env = true) (fuel : Nat) (st : RState)
    (n : XmlNode) (e : Err) (hs : c05_static env n = true) (hd : c05_staticL env st.deleted = true)
    (h : readElem env fuel st n = .error e) : e = .fuel ∨ ∃ w, e = .index w :=
  (c05_readElem_spec env hn fuel st n hs hd).err e h

/-- the invariant that makes `C05_readElem_errors` inductive: the content of deleted paragraphs that is
    carried over to the next paragraph stays statically well-formed -/
theorem C05_readElem_static_preserved (env : REnv) (hn : c05_noStyleLinks env = true) (fuel : Nat) (st : RState)
    (n : XmlNode) (r : ReadResult) (st' : RState) (hs : c05_static env n = true)
    (hd : c05_staticL env st.deleted = true) (h : readElem env fuel st n = .ok (r, st')) :
    c05_staticL env st'.deleted = true :=
  (c05_readElem_spec env hn fuel st n hs hd).ok _ h

/-- the same for a list of nodes (`body_reader.read_all`) -/
theorem C05_readAll_errors (env : REnv) (hn : c05_noStyleLinks env = true) (fuel : Nat) (st : RState)
    (ns : List XmlNode) (e : Err) (hs : c05_staticL env ns = true) (hd : c05_staticL env st.deleted = true)
    (h : readAll env fuel st ns = .error e) : e = .fuel ∨ ∃ w, e = .index w :=
  (c05_readAllWith_spec env _ (c05_readElem_spec env hn fuel) ns st hs hd).err e h

/-- a body read from a fresh reader state (`{}`: empty field stack, nothing deferred), as `readPackage` does
    for the document body, the notes and the comments -/
theorem C05_readAll_fresh_errors (env : REnv) (hn : c05_noStyleLinks env = true) (fuel : Nat)
    (ns : List XmlNode) (e : Err) (hs : c05_staticL env ns = true)
    (h : readAll env fuel {} ns = .error e) : e = .fuel ∨ ∃ w, e = .index w :=
  C05_readAll_errors env hn fuel {} ns e hs rfl h

/-! ### balanced complex fields -/

/- Full statement wanted: for EVERY statically well-formed tree whose `w:fldChar` marks are balanced in
   reading order, no `.index` error.  Proved below under two extra hypotheses that make "reading order"
   = document order: nothing is deferred on entry (`st.deleted = []`) and no paragraph carries a deletion
   mark `w:pPr/w:rPr/w:del` (`c05_noDel`) — a deleted paragraph mark moves the paragraph's content into the
   next paragraph, i.e. reorders the reading, and the depth function `c05_depth` does not model that. -/

/-- BALANCED FIELDS (partial: no deleted paragraph marks).  `c05_depth fuel d n` computes the depth of the
    complex-field stack after reading `n` from depth `d` (`begin` pushes, `end` pops, `separate` replaces
    the top; `none` on underflow).  If it does not underflow — the fields are balanced — then reading a
    statically well-formed tree without deletion marks cannot fail with `IndexError` either: the only
    failure left is the model's fuel, and on success the stack has exactly the computed depth. -/
theorem C05_balanced_no_index_partial (env : REnv) (hn : c05_noStyleLinks env = true) (fuel : Nat) (st : RState)
    (n : XmlNode) (k : Nat) (hs : c05_static env n = true) (hnd : c05_noDel n = true) (hd : st.deleted = [])
    (hb : c05_depth fuel st.stack.length n = some k) :
    (∀ e, readElem env fuel st n = .error e → e = .fuel) ∧
    (∀ r st', readElem env fuel st n = .ok (r, st') → st'.stack.length = k ∧ st'.deleted = []) :=
  ⟨((c05_readElem_bal env hn fuel st n hs hnd hd).h k hb).err,
   fun r st' h => (((c05_readElem_bal env hn fuel st n hs hnd hd).h k hb).ok (r, st') h).symm⟩

/-- the same for a body (list of nodes) read from the fresh state, as `readPackage` does -/
theorem C05_balanced_no_index_readAll_partial (env : REnv) (hn : c05_noStyleLinks env = true) (fuel : Nat)
    (ns : List XmlNode) (k : Nat) (hs : c05_staticL env ns = true) (hnd : c05_noDelL ns = true)
    (hb : c05_depthAllWith (c05_depth fuel) 0 ns = some k) (e : Err)
    (h : readAll env fuel {} ns = .error e) : e = .fuel :=
  ((c05_readAllWith_bal env _ _ (c05_readElem_bal env hn fuel) ns {} hs hnd rfl).h k hb).err e h

/-! ### fuel -/

/-- more fuel never changes a result: one more unit … -/
theorem C05_fuel_mono (env : REnv) (f : Nat) (st : RState) (n : XmlNode) (r : ReadResult × RState)
    (h : readElem env f st n = .ok r) : readElem env (f+1) st n = .ok r :=
  (c05_readElem_le_succ env f st n).h r h

/-- … hence any larger amount of fuel -/
theorem C05_fuel_mono_le (env : REnv) (f f' : Nat) (hf : f ≤ f') (st : RState) (n : XmlNode)
    (r : ReadResult × RState) (h : readElem env f st n = .ok r) : readElem env f' st n = .ok r := by
  obtain ⟨k, rfl⟩ := Nat.exists_eq_add_of_le hf
  exact (c05_readElem_le_add env f k st n).h r h

/-- the same for lists of nodes -/
theorem C05_fuel_mono_readAll (env : REnv) (f f' : Nat) (hf : f ≤ f') (st : RState) (ns : List XmlNode)
    (r : ReadResult × RState) (h : readAll env f st ns = .ok r) : readAll env f' st ns = .ok r := by
  obtain ⟨k, rfl⟩ := Nat.exists_eq_add_of_le hf
  exact (c05_readAllWith_le _ _ (fun st n => c05_readElem_le_add env f k st n) ns st).h r h

/-- consequently a `.fuel` failure is never "hidden" by a success at smaller fuel: if some fuel succeeds,
    every failure at larger fuel is impossible -/
theorem C05_fuel_no_late_failure (env : REnv) (f f' : Nat) (hf : f ≤ f') (st : RState) (n : XmlNode)
    (r : ReadResult × RState) (e : Err) (h : readElem env f st n = .ok r) :
    readElem env f' st n ≠ .error e := by
  rw [C05_fuel_mono_le env f f' hf st n r h]; intro h'; cases h'

/-- FUEL IS ENOUGH (no deleted paragraph marks): with fuel at least `xmlSize n` the reader never runs out
    of fuel, whatever else happens (no static hypothesis needed).  Deleted paragraph marks are excluded
    because they make a later paragraph re-read content that is not part of its own subtree. -/
theorem C05_fuel_enough (env : REnv) (fuel : Nat) (st : RState) (n : XmlNode) (e : Err)
    (hnd : c05_noDel n = true) (hd : st.deleted = []) (hf : xmlSize n ≤ fuel)
    (h : readElem env fuel st n = .error e) : e ≠ .fuel :=
  (c05_readElem_nofuel env fuel st n hnd hd hf).err e h

/-- the same for a body read from the fresh state -/
theorem C05_fuel_enough_readAll (env : REnv) (fuel : Nat) (ns : List XmlNode) (e : Err)
    (hnd : c05_noDelL ns = true) (hf : xmlSizeL ns ≤ fuel)
    (h : readAll env fuel {} ns = .error e) : e ≠ .fuel :=
  (c05_readAllWith_nofuel _ fuel (c05_readElem_nofuel env fuel) ns {} hnd rfl hf).err e h

/-- READER TOTALITY on the domain (partial: no deleted paragraph marks, no `w:numStyleLink`): a body that
    is statically well-formed, has balanced complex fields and no deletion marks is read WITHOUT ANY ERROR
    as soon as the fuel is at least its size. -/
theorem C05_readAll_total_partial (env : REnv) (hn : c05_noStyleLinks env = true) (fuel : Nat)
    (ns : List XmlNode) (k : Nat) (hs : c05_staticL env ns = true) (hnd : c05_noDelL ns = true)
    (hb : c05_depthAllWith (c05_depth fuel) 0 ns = some k) (hf : xmlSizeL ns ≤ fuel) :
    ∃ r, readAll env fuel {} ns = .ok r := by
  cases h : readAll env fuel {} ns with
  | ok r => exact ⟨r, rfl⟩
  | error e =>
    exact absurd (C05_balanced_no_index_readAll_partial env hn fuel ns k hs hnd hb e h)
      (C05_fuel_enough_readAll env fuel ns e hnd hf h)

/-! ### the converter -/

/-- `convertDoc` can only fail with a `KeyError`: an unresolvable note reference, an unresolvable comment
    reference under a `comment-reference` mapping, or a missing zip entry for an embedded image — for ALL
    documents and configurations. -/
theorem C05_convert_errors (cfg : Cfg) (d : Document) (e : Err) (h : convertDoc cfg d = .error e) :
    ∃ w, e = .key w :=
  c05_convertDoc_err cfg d e h

/-- If every `.noteRef` in the body and in the note/comment bodies resolves in `d.notes`, every `.commentRef`
    id is in `d.comments` or there is no `comment-reference` mapping, and every embedded image path is in
    `cfg.archive` or the image converter does not open images (all of this is the decidable `c05_docOk`),
    then `convertDoc` returns normally. -/
theorem C05_convert_total (cfg : Cfg) (d : Document) (h : c05_docOk cfg d = true) :
    ∃ r, convertDoc cfg d = .ok r :=
  c05_convertDoc_ok cfg d h

/-- in particular a document without note references, comment references and embedded images always converts -/
theorem C05_convert_total_linked_only (cfg : Cfg) (uri : Str) (alt ct : Option Str) :
    ∃ r, convertDoc cfg { children := [.paragraph {} [.run {} [.image ⟨alt, ct, .linked uri⟩]]] } = .ok r :=
  c05_convertDoc_ok cfg _ rfl

/-! ### the writer stage and the API -/

/-- The writer stage cannot fail: `stripEmpty`, `collapse`, `writeHtml`, `writeMarkdown` are total functions
    (`List Node → List Node`, `List Node → Str`), so an error of `apiConvert` is an error of reading the
    embedded style map, of the reader `readPackage`, or of the converter `convertDoc` on the document read. -/
theorem C05_value_total (p : Package) (fuel : Nat) (base : Option Str) (world : Str → Option Bytes)
    (transform : Document → Document) (o : Options) (e : Err)
    (h : apiConvert p fuel base world transform o = .error e) :
    (o.includeEmbedded = true ∧ readEmbeddedStyleMap p = .error e) ∨
    readPackage p fuel = .error e ∨
    ∃ emb doc msgs, readPackage p fuel = .ok (doc, msgs) ∧
      convertDoc (c05_apiCfg p base world o emb) (transform doc) = .error e :=
  c05_apiConvert_err p fuel base world transform o e h

/-- hence: once the package has been read, `apiConvert` can only fail with a `KeyError` of the converter -/
theorem C05_api_errors_after_reading (p : Package) (fuel : Nat) (base : Option Str) (world : Str → Option Bytes)
    (transform : Document → Document) (o : Options) (e : Err) (dm : Document × List Str)
    (hr : readPackage p fuel = .ok dm)
    (hs : o.includeEmbedded = false ∨ ∃ s, readEmbeddedStyleMap p = .ok s)
    (h : apiConvert p fuel base world transform o = .error e) : ∃ w, e = .key w := by
  rcases C05_value_total p fuel base world transform o e h with ⟨h1, h2⟩ | h2 | ⟨emb, doc, msgs, _, h3⟩
  · rcases hs with hs | ⟨s, hs⟩
    · rw [hs] at h1; cases h1
    · rw [hs] at h2; cases h2
  · rw [hr] at h2; cases h2
  · exact C05_convert_errors _ _ e h3

/-! ### examples -/

/-- a paragraph with a dangling style id, an unknown element, an unknown break type, a drawing without
    image and a hex symbol is statically well-formed … -/
def c05_exampleNode : XmlNode :=
  .elem S!"w:p" [] [
    .elem S!"w:pPr" [] [.elem S!"w:pStyle" [(S!"w:val", S!"NoSuchStyle")] [],
                        .elem S!"w:numPr" [] [.elem S!"w:numId" [(S!"w:val", S!"77")] [],
                                              .elem S!"w:ilvl" [(S!"w:val", S!"0")] []]],
    .elem S!"w:r" [] [.elem S!"w:t" [] [.text S!"hi"], .elem S!"w:br" [(S!"w:type", S!"weird")] [],
                      .elem S!"w:unknown" [] [], .elem S!"w:sym" [(S!"w:font", S!"Wingdings"), (S!"w:char", S!"F04A")] [],
                      .elem S!"w:drawing" [] [.elem S!"wp:inline" [] []]],
    .elem S!"w:hyperlink" [(S!"r:id", S!"rId1")] [.elem S!"w:r" [] [.elem S!"w:t" [] [.text S!"x"]]]]

def c05_exampleEnv : REnv := { rels := [⟨S!"rId1", S!"http://example.com", S!"hyperlink"⟩] }

example : c05_static c05_exampleEnv c05_exampleNode = true := by decide
example : c05_noStyleLinks c05_exampleEnv = true := by decide
/-- … and is read without error -/
example : (readElem c05_exampleEnv 10 {} c05_exampleNode).toBool = true := by decide +kernel
/-- with a dangling relationship id it is not static, and the reader raises `KeyError` -/
example : c05_static {} c05_exampleNode = false := by decide
example : (readElem {} 10 {} c05_exampleNode).toBool = false := by decide +kernel
/-- an unbalanced `w:fldChar` is statically fine but pops the empty stack -/
example : c05_static {} (.elem S!"w:fldChar" [(S!"w:fldCharType", S!"end")] []) = true := by decide
example : (readElem {} 3 {} (.elem S!"w:fldChar" [(S!"w:fldCharType", S!"end")] [])) = .error (.index S!"pop from empty list") := by
  rfl
/-- non-numeric gridSpan / non-hex symbol are not static -/
example : c05_static {} (.elem S!"w:tc" [] [.elem S!"w:tcPr" [] [.elem S!"w:gridSpan" [(S!"w:val", S!"2x")] []]]) = false := by decide
example : c05_static {} (.elem S!"w:sym" [(S!"w:char", S!"zz")] []) = false := by decide

/-- a balanced complex field (begin … separate … end) has depth 0 again; an `end` alone underflows -/
example : c05_depth 5 0 (.elem S!"w:p" [] [
    .elem S!"w:r" [] [.elem S!"w:fldChar" [(S!"w:fldCharType", S!"begin")] []],
    .elem S!"w:r" [] [.elem S!"w:instrText" [] [.text S!" HYPERLINK \"http://x\" "]],
    .elem S!"w:r" [] [.elem S!"w:fldChar" [(S!"w:fldCharType", S!"separate")] []],
    .elem S!"w:r" [] [.elem S!"w:t" [] [.text S!"x"]],
    .elem S!"w:r" [] [.elem S!"w:fldChar" [(S!"w:fldCharType", S!"end")] []]]) = some 0 := by decide +kernel
example : c05_depth 5 0 (.elem S!"w:fldChar" [(S!"w:fldCharType", S!"end")] []) = none := by decide +kernel
example : c05_noDel c05_exampleNode = true := by decide +kernel

/-- the converter hypothesis on a document with a resolvable note reference and an embedded image present
    in the archive -/
example : c05_docOk { archive := [(S!"word/media/a.png", [1, 2])] }
    { children := [.paragraph {} [.run {} [.noteRef S!"footnote" S!"1", .image ⟨none, none, .embedded S!"word/media/a.png"⟩]]],
      notes := [⟨S!"footnote", S!"1", []⟩] } = true := by decide
/-- … and violated by a dangling note reference -/
example : c05_docOk {} { children := [.noteRef S!"footnote" S!"9"] } = false := by decide

end Mammoth
