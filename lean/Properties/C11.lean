/-
  C11 — run formatting becomes exactly the corresponding inline elements.
  Property theorems only; helper lemmas live in Proofs/C11_Lemmas.lean.
-/
import Proofs.C11_Lemmas
import Proofs.C04_Chains
import Proofs.C11_Xml
import Proofs.C11_XmlNoField
import Proofs.C11_Ext7
namespace Mammoth

/-! ### reading the formatting of a run -/

/-- an on/off property (`w:b`, `w:i`, `w:strike`, `w:caps`, `w:smallCaps`) is on iff its element
    is present and its `w:val` is neither `false` nor `0` (a missing `w:val` counts as on) -/
theorem C11_toggle_read (name : Str) (props : List XmlNode) :
    readBoolElem name props = true ↔
      ∃ as cs, findChild name props = some (as, cs) ∧
        attr? S!"w:val" as ≠ some S!"false" ∧ attr? S!"w:val" as ≠ some S!"0" := by
  unfold readBoolElem
  cases h : findChild name props with
  | none => simp
  | some r =>
    obtain ⟨as, cs⟩ := r
    simp [readBoolAttr]

/-- underline is on iff `w:u` is present WITH a value, and that value is not `false`, `0`, `none` -/
theorem C11_underline_read (props : List XmlNode) :
    readUnderline props = true ↔
      ∃ as cs v, findChild S!"w:u" props = some (as, cs) ∧ attr? S!"w:val" as = some v ∧
        v ≠ S!"false" ∧ v ≠ S!"0" ∧ v ≠ S!"none" := by
  unfold readUnderline
  cases h : findChild S!"w:u" props with
  | none => simp
  | some r =>
    obtain ⟨as, cs⟩ := r
    cases hv : attr? S!"w:val" as with
    | none => simp [hv]
    | some v => simp [hv, and_assoc]

/-- a highlight colour is kept iff it is given, non-empty and not `none` -/
theorem C11_highlight_read (v : Option Str) (c : Str) :
    readHighlight v = some c ↔ v = some c ∧ c ≠ [] ∧ c ≠ S!"none" := by
  unfold readHighlight
  cases v with
  | none => simp
  | some s =>
    by_cases h : (s.isEmpty || s == S!"none") = true
    · simp only [h, if_true, Option.some.injEq]
      constructor
      · intro h'; cases h'
      · rintro ⟨rfl, h1, h2⟩
        simp [List.isEmpty_iff, h1, h2] at h
    · simp only [Bool.not_eq_true] at h
      simp only [h, Bool.false_eq_true, if_false, Option.some.injEq]
      constructor
      · rintro rfl
        simp at h
        exact ⟨rfl, h.1, h.2⟩
      · rintro ⟨rfl, _, _⟩; rfl

/-- absent, empty and `none` highlight values all mean: not highlighted -/
theorem C11_highlight_off :
    readHighlight none = none ∧ readHighlight (some []) = none ∧ readHighlight (some S!"none") = none := by
  decide

/-- the run properties are read field by field with the readers above -/
theorem C11_readRunProps_fields (props : List XmlNode) (style : Option Str × Option Str) :
    (readRunProps props style).bold = readBoolElem S!"w:b" props ∧
    (readRunProps props style).italic = readBoolElem S!"w:i" props ∧
    (readRunProps props style).strike = readBoolElem S!"w:strike" props ∧
    (readRunProps props style).allCaps = readBoolElem S!"w:caps" props ∧
    (readRunProps props style).smallCaps = readBoolElem S!"w:smallCaps" props ∧
    (readRunProps props style).underline = readUnderline props ∧
    (readRunProps props style).vertAlign = childAttr S!"w:vertAlign" S!"w:val" props ∧
    (readRunProps props style).highlight = readHighlight (childAttr S!"w:highlight" S!"w:val" props) :=
  ⟨rfl, rfl, rfl, rfl, rfl, rfl, rfl, rfl⟩

/-! ### the formatting paths of a run -/

/-- THE PATH LIST of a run, innermost first: highlight (only if a mapping matches the colour),
    small caps, all caps (mapped path, else no element), strikethrough (mapped, else `s`),
    underline (mapped, else no element), `sub` / `sup`, italic (mapped, else `em`), bold
    (mapped, else `strong`); properties that are off contribute nothing -/
theorem C11_runPropPaths_spec (cfg : Cfg) (r : RunProps) :
    runPropPaths cfg r =
      c11_highlightSpec cfg r.highlight ++
      c11_propSpec cfg r.smallCaps .smallCaps none ++
      c11_propSpec cfg r.allCaps .allCaps none ++
      c11_propSpec cfg r.strike .strikethrough (some S!"s") ++
      c11_propSpec cfg r.underline .underline none ++
      c11_vertSpec r.vertAlign ++
      c11_propSpec cfg r.italic .italic (some S!"em") ++
      c11_propSpec cfg r.bold .bold (some S!"strong") := by
  unfold runPropPaths
  simp only [c11_prop_eq]
  simp only [List.append_assoc]
  rw [← List.append_assoc (if (r.vertAlign == some S!"subscript") = true then _ else _), c11_vert_eq]
  congr 1
  exact c11_highlight_eq cfg r.highlight

/-- a run without any formatting has no formatting path -/
theorem C11_runPropPaths_off (cfg : Cfg) (r : RunProps)
    (hb : r.bold = false) (hi : r.italic = false) (hu : r.underline = false) (hs : r.strike = false)
    (hc : r.allCaps = false) (hsc : r.smallCaps = false)
    (hsub : r.vertAlign ≠ some S!"subscript") (hsup : r.vertAlign ≠ some S!"superscript")
    (hh : ∀ c, r.highlight = some c → findStyle cfg.upper cfg.styleMap (.highlight c) = none) :
    runPropPaths cfg r = [] := by
  rw [C11_runPropPaths_spec]
  have h1 : c11_highlightSpec cfg r.highlight = [] := by
    unfold c11_highlightSpec
    cases h : r.highlight with
    | none => rfl
    | some c => simp [hh c h]
  simp [h1, c11_propSpec, c11_vertSpec, hb, hi, hu, hs, hc, hsc, hsub, hsup]

/-- `wrapAll` nests: the LAST path of the list is the outermost element -/
theorem C11_wrapAll_elements (ps : List HtmlPath) (es : List Tag) (ns : List Node) :
    wrapAll (ps ++ [.elements es]) ns = wrapElems es (wrapAll ps ns) := by
  rw [c03_wrapAll_append]; rfl

/-- …and a `!` anywhere throws away everything inside it -/
theorem C11_wrapAll_ignore (ps qs : List HtmlPath) (ns : List Node) :
    wrapAll (ps ++ .ignore :: qs) ns = wrapAll qs [] := by
  rw [c03_wrapAll_append]; rfl

/-- the general shape of a converted run (no `!` involved): the children's nodes wrapped by the
    formatting paths and then by the run-style path -/
theorem C11_visit_run (cfg : Cfg) (hdr : Bool) (r : RunProps) (cs : List Elem) (st : ConvState)
    (hno : (runPropPaths cfg r ++
             [(findPath cfg (.run r.styleId r.styleName)).getD (.elements [])]).any HtmlPath.isIgnore = false) :
    (visit cfg hdr (.run r cs)).run st =
      match (visitAll cfg hdr cs).run
              (c03_warnState cfg (.run r.styleId r.styleName) S!"run" r.styleId r.styleName st) with
      | .ok (ns, st') =>
        .ok (wrapAll (runPropPaths cfg r ++
                        [(findPath cfg (.run r.styleId r.styleName)).getD (.elements [])]) ns, st')
      | .error e => .error e := by
  rw [visit, c03_bind_run, c03_findPathWarn_run]
  simp only [hno, Bool.false_eq_true, if_false, c03_bind_run]
  cases (visitAll cfg hdr cs).run _ with
  | error e => rfl
  | ok r => rfl

/-- a plain run (everything off, no sub/superscript, highlight absent or unmapped, no matching run
    style) yields exactly its children's nodes -/
theorem C11_plain_run_adds_nothing (cfg : Cfg) (hdr : Bool) (r : RunProps) (cs : List Elem)
    (st : ConvState)
    (hb : r.bold = false) (hi : r.italic = false) (hu : r.underline = false) (hs : r.strike = false)
    (hc : r.allCaps = false) (hsc : r.smallCaps = false)
    (hsub : r.vertAlign ≠ some S!"subscript") (hsup : r.vertAlign ≠ some S!"superscript")
    (hh : ∀ c, r.highlight = some c → findStyle cfg.upper cfg.styleMap (.highlight c) = none)
    (hstyle : findStyle cfg.upper cfg.styleMap (.run r.styleId r.styleName) = none) :
    (visit cfg hdr (.run r cs)).run st =
      (visitAll cfg hdr cs).run
        (c03_warnState cfg (.run r.styleId r.styleName) S!"run" r.styleId r.styleName st) := by
  have hp : findPath cfg (.run r.styleId r.styleName) = none := by simp [findPath, hstyle]
  have h0 := C11_runPropPaths_off cfg r hb hi hu hs hc hsc hsub hsup hh
  rw [C11_visit_run cfg hdr r cs st (by simp [h0, hp, HtmlPath.isIgnore]), h0, hp]
  cases (visitAll cfg hdr cs).run _ with
  | error e => rfl
  | ok r => rfl

/-- WITHOUT ANY STYLE MAPPING the run's text is enclosed in `strong`, `em`, `sup`, `sub`, `s`
    (outermost first) exactly when the run is bold, italic, superscript, subscript, struck
    through; underline, all caps, small caps and highlight add nothing -/
theorem C11_visit_run_nomap (cfg : Cfg) (hdr : Bool) (r : RunProps) (cs : List Elem)
    (st : ConvState) (hmap : cfg.styleMap = []) :
    (visit cfg hdr (.run r cs)).run st =
      match (visitAll cfg hdr cs).run
              (c03_warnState cfg (.run r.styleId r.styleName) S!"run" r.styleId r.styleName st) with
      | .ok (ns, st') =>
        .ok (c11_wrapIf r.bold (c11_tag S!"strong")
              (c11_wrapIf r.italic (c11_tag S!"em")
                (c11_wrapIf (r.vertAlign == some S!"superscript") (c11_tag S!"sup")
                  (c11_wrapIf (r.vertAlign == some S!"subscript") (c11_tag S!"sub")
                    (c11_wrapIf r.strike (c11_tag S!"s") ns)))), st')
      | .error e => .error e := by
  have hf : ∀ t, findPath cfg t = none := fun t => c11_findPath_nil cfg t hmap
  have hpaths : ∀ ns, wrapAll (runPropPaths cfg r ++ [HtmlPath.elements []]) ns =
      c11_wrapIf r.bold (c11_tag S!"strong")
        (c11_wrapIf r.italic (c11_tag S!"em")
          (c11_wrapIf (r.vertAlign == some S!"superscript") (c11_tag S!"sup")
            (c11_wrapIf (r.vertAlign == some S!"subscript") (c11_tag S!"sub")
              (c11_wrapIf r.strike (c11_tag S!"s") ns)))) := by
    intro ns
    unfold runPropPaths propPath
    simp only [hf, c03_wrapAll_append, c11_pathElem, c11_wrapAll_if, c11_wrapAll_if_empty]
    cases r.highlight <;> rfl
  have hno : (runPropPaths cfg r ++ [HtmlPath.elements []]).any HtmlPath.isIgnore = false := by
    unfold runPropPaths propPath
    simp only [hf, List.any_append, c11_any_if, Bool.or_false]
    cases r.highlight <;> rfl
  have := C11_visit_run cfg hdr r cs st (by rw [hf]; exact hno)
  rw [this, hf]
  simp only [Option.getD_none, hpaths]

/-! ### examples -/

/-- bold + italic, no mappings: `<strong><em>x</em></strong>` -/
example :
    ((visit {} false (.run { bold := true, italic := true } [.text S!"x"])).run {}).toOption.map (·.1) =
      some [.elem (c11_tag S!"strong") [.elem (c11_tag S!"em") [.text S!"x"]]] := by rfl

/-- underline without a mapping adds no element; with `u => em` it adds `em` -/
example :
    ((visit {} false (.run { underline := true } [.text S!"x"])).run {}).toOption.map (·.1) =
      some [.text S!"x"] := by rfl
example :
    ((visit { styleMap := [⟨.underline, .elements [c11_tag S!"em"]⟩] } false
        (.run { underline := true } [.text S!"x"])).run {}).toOption.map (·.1) =
      some [.elem (c11_tag S!"em") [.text S!"x"]] := by rfl

/-- `<w:b w:val="0"/>` is off, `<w:b/>` is on, `<w:u/>` (no value) is off -/
example : readBoolElem S!"w:b" [.elem S!"w:b" [(S!"w:val", S!"0")] []] = false := by decide
example : readBoolElem S!"w:b" [.elem S!"w:b" [] []] = true := by decide
example : readUnderline [.elem S!"w:u" [] []] = false := by decide
example : readUnderline [.elem S!"w:u" [(S!"w:val", S!"single")] []] = true := by decide

/-! ### the formatting of one run never extends over the text of another run

Stated on the HTML forest `ns` that the conversion produces (each run's nodes wrapped in that run's own inline
elements, `C11_visit_run`) and the forest `collapse (stripEmpty ns)` that is written out (`render`).
`leaves`: the text nodes / force-write markers in order, each with the tags of its enclosing elements,
outermost first (Proofs/C04_Chains.lean). -/

/-- FORMATTING IS LOCAL.  The leaves of the written forest are exactly the contentful leaves of `ns` (non-empty
    text, force-write markers), in order and unchanged, plus separator text leaves (`SepIn`: the `:separator`
    of a non-fresh tag of `ns`; inline formatting elements have none).  The chain of elements around each
    leaf has the SAME LENGTH as in `ns` and, position by position, the output element has the attributes of
    the leaf's own wrapper at that depth and — when the tag names of `ns` are linked transitively
    (`namesTrans`, e.g. no `|` alternatives among the tags) — its name is that wrapper's name or one of its
    alternatives.  So the wrappers around a run's text in the output are that run's own wrappers, whatever
    its neighbours are: a neighbour's `strong`/`em`/… never encloses it, and none of its own is lost. -/
theorem C11_formatting_local (ns : List Node) (h : namesTrans (tagsOfL ns) = true) :
    LeafEmb tagStep (SepIn ns) ((leaves ns).filter leafKept) (leaves (collapse (stripEmpty ns))) := by
  rw [← leaves_stripEmpty]
  exact leaves_collapse_step ns (stripEmpty ns)
    (by rw [stripEmpty, stripList_eq]; exact allTagsL_prune ns (allTagsL_tagsOfL ns)) h

/-- the same for EVERY forest, each position related by finitely many merge steps (`TagReach`; attributes are
    always identical, `TagReach.attrs`) -/
theorem C11_formatting_local_reach (ns : List Node) :
    LeafEmb TagReach (SepIn ns) ((leaves ns).filter leafKept) (leaves (collapse (stripEmpty ns))) := by
  rw [← leaves_stripEmpty]
  exact leaves_collapse_reach ns (stripEmpty ns)
    (by rw [stripEmpty, stripList_eq]; exact allTagsL_prune ns (allTagsL_tagsOfL ns))

/-- leaf by leaf: a text leaf of the written forest that is not a separator is a text leaf of `ns`, and the
    elements around it correspond one to one to its own wrappers in `ns`; conversely every non-empty text leaf
    of `ns` is written under such a chain -/
theorem C11_formatting_local_leaf (ns : List Node) (h : namesTrans (tagsOfL ns) = true) :
    (∀ c' s, (c', Node.text s) ∈ leaves (collapse (stripEmpty ns)) →
      SepIn ns (.text s) ∨ ∃ c, (c, Node.text s) ∈ leaves ns ∧ chainRel c c') ∧
    (∀ c s, s ≠ [] → (c, Node.text s) ∈ leaves ns →
      ∃ c', (c', Node.text s) ∈ leaves (collapse (stripEmpty ns)) ∧ chainRel c c') := by
  have H := C11_formatting_local ns h
  constructor
  · intro c' s hm
    rcases H.mem_right _ hm with hs | ⟨a, ha, hc, he⟩
    · exact Or.inl hs
    · obtain ⟨c, n⟩ := a
      have hn : n = Node.text s := he
      subst hn
      exact Or.inr ⟨c, (List.mem_filter.mp ha).1, hc⟩
  · intro c s hs hm
    have hk : leafKept (c, Node.text s) = true := by
      simp [leafKept, hasContent, hs]
    obtain ⟨b, hb, hc, he⟩ := H.mem_left _ (List.mem_filter.mpr ⟨hm, hk⟩)
    obtain ⟨c', n⟩ := b
    have hn : Node.text s = n := he
    subst hn
    exact ⟨c', hb, hc⟩

/-! non-vacuity: a bold run between two plain runs, and two bold runs that are merged -/
private def strongT : Tag := { name := S!"strong", collapsible := true }
private def emT : Tag := { name := S!"em", collapsible := true }
private def c11_forest : List Node :=
  [.text S!"a", .elem strongT [.text S!"b"], .elem strongT [.elem emT [.text S!"c"]], .elem emT [.text []],
   .text S!"d"]
example : namesTrans (tagsOfL c11_forest) = true := by decide
example : (leaves c11_forest).filter leafKept =
    [([], .text S!"a"), ([strongT], .text S!"b"), ([strongT, emT], .text S!"c"), ([], .text S!"d")] := by rfl
example : leaves (collapse (stripEmpty c11_forest)) =
    [([], .text S!"a"), ([strongT], .text S!"b"), ([strongT, emT], .text S!"c"), ([], .text S!"d")] := by rfl
example : collapse (stripEmpty c11_forest) =
    [.text S!"a", .elem strongT [.text S!"b", .elem emT [.text S!"c"]], .text S!"d"] := by rfl

/-! ### END TO END: from the XML of a run to its HTML

`c11x_rPr cs`: the children of the first `w:rPr` child of the run (nothing if there is none);
`c11x_paths env cfg props = c11x_formatPaths cfg props ++ [c11x_stylePath env cfg props]`: the path list specified
directly on the XML property list `props` (Proofs/C11_Xml.lean): `w:b` / `w:i` / `w:strike` / `w:caps` /
`w:smallCaps` count iff the element is present and its `w:val` is neither `false` nor `0`; `w:u` iff present with a
value other than `false`, `0`, `none`; `w:vertAlign` iff its value is `subscript` / `superscript`; `w:highlight` iff
its value is non-empty, not `none`, and a highlight mapping matches it; the run style `w:rStyle` (named through the
character styles of `env`) contributes the path of the first matching run mapping. -/

/-- the specification looks at the XML the way the reader's helper functions do -/
theorem C11_xml_spec_reads (env : REnv) (name : Str) (props : List XmlNode) :
    readBoolElem name props = c11x_toggle name props ∧
    readUnderline props = c11x_underline props ∧
    readHighlight (childAttr S!"w:highlight" S!"w:val" props) = c11x_highlight props ∧
    childAttr S!"w:vertAlign" S!"w:val" props = c11x_vertAlign props ∧
    readStyle props S!"w:rStyle" S!"Run" env.styles.character =
      ((c11x_styleId props, c11x_styleName env props), c11x_styleMsgs env props) :=
  ⟨c11x_readBoolElem name props, c11x_readUnderline props, c11x_readHighlight props,
   c11x_childAttr _ props, c11x_readStyle env props⟩

/-- READER HALF: a `w:r` element (any attributes `as`, any children `cs`) whose children are read as `r`, ending in a
    state `st1` with no open hyperlink field, is read as ONE run element with the run properties specified by
    its `w:rPr`, containing the children's elements; its only own message is the undefined-style warning -/
theorem C11_xml_read_run (env : REnv) (f : Nat) (st st1 : RState) (as : Attrs) (cs : List XmlNode)
    (r : ReadResult)
    (hcs : readAllWith (readElem env f) st cs = .ok (r, st1))
    (hfld : currentHyperlink st1.stack = none) :
    readElem env (f+1) st (.elem S!"w:r" as cs) =
      .ok ({ elements := [.run (c11x_runProps env (c11x_rPr cs)) r.elements], extra := r.extra,
             messages := c11x_styleMsgs env (c11x_rPr cs) ++ r.messages }, st1) :=
  c11x_read_run env f st st1 as cs r hcs hfld

/-- FROM THE XML TO THE WRAPPERS.  Hypotheses (all on the XML, the reader state and the style map):
    `hcs` — the children `cs` of the `w:r` are read (by the same reader, fuel `f`) as `r`, ending in state `st1`;
    `hfld` — no hyperlink complex field is open in `st1`;
    `hno` — none of the paths specified by the run's `w:rPr` is `!`.
    Then the element is read as one run, and converting THAT run yields the nodes of the children's elements
    `r.elements` wrapped by `c11x_paths` — the paths specified directly on the `w:rPr` XML, innermost first, bold
    outermost but for the run style.  The converter state passes through as for any run (`c03_warnState`: one
    warning iff the run has a style id that no mapping matches). -/
theorem C11_xml_run_wrappers (env : REnv) (cfg : Cfg) (hdr : Bool) (f : Nat) (st st1 : RState) (as : Attrs)
    (cs : List XmlNode) (r : ReadResult) (cst : ConvState)
    (hcs : readAllWith (readElem env f) st cs = .ok (r, st1))
    (hfld : currentHyperlink st1.stack = none)
    (hno : (c11x_paths env cfg (c11x_rPr cs)).any HtmlPath.isIgnore = false) :
    readElem env (f+1) st (.elem S!"w:r" as cs) =
      .ok ({ elements := [.run (c11x_runProps env (c11x_rPr cs)) r.elements], extra := r.extra,
             messages := c11x_styleMsgs env (c11x_rPr cs) ++ r.messages }, st1) ∧
    (visit cfg hdr (.run (c11x_runProps env (c11x_rPr cs)) r.elements)).run cst =
      match (visitAll cfg hdr r.elements).run
              (c03_warnState cfg (.run (c11x_styleId (c11x_rPr cs)) (c11x_styleName env (c11x_rPr cs))) S!"run"
                (c11x_styleId (c11x_rPr cs)) (c11x_styleName env (c11x_rPr cs)) cst) with
      | .ok (ns, cst') => .ok (wrapAll (c11x_paths env cfg (c11x_rPr cs)) ns, cst')
      | .error e => .error e := by
  refine ⟨c11x_read_run env f st st1 as cs r hcs hfld, ?_⟩
  have hno' : (runPropPaths cfg (c11x_runProps env (c11x_rPr cs)) ++
      [(findPath cfg (.run (c11x_runProps env (c11x_rPr cs)).styleId
          (c11x_runProps env (c11x_rPr cs)).styleName)).getD (.elements [])]).any HtmlPath.isIgnore = false := by
    rw [c11x_runPropPaths, c11x_stylePath_eq]; exact hno
  rw [C11_visit_run cfg hdr _ _ cst hno', c11x_runPropPaths, c11x_stylePath_eq]
  rfl

/-- …and if one of the specified paths IS `!`, the children are not converted at all: the nodes are the specified
    paths around nothing (the paths outside the `!` still wrap the empty content) -/
theorem C11_xml_run_ignored (env : REnv) (cfg : Cfg) (hdr : Bool) (f : Nat) (st st1 : RState) (as : Attrs)
    (cs : List XmlNode) (r : ReadResult) (cst : ConvState)
    (hcs : readAllWith (readElem env f) st cs = .ok (r, st1))
    (hfld : currentHyperlink st1.stack = none)
    (hig : (c11x_paths env cfg (c11x_rPr cs)).any HtmlPath.isIgnore = true) :
    readElem env (f+1) st (.elem S!"w:r" as cs) =
      .ok ({ elements := [.run (c11x_runProps env (c11x_rPr cs)) r.elements], extra := r.extra,
             messages := c11x_styleMsgs env (c11x_rPr cs) ++ r.messages }, st1) ∧
    (visit cfg hdr (.run (c11x_runProps env (c11x_rPr cs)) r.elements)).run cst =
      .ok (wrapAll (c11x_paths env cfg (c11x_rPr cs)) [],
           c03_warnState cfg (.run (c11x_styleId (c11x_rPr cs)) (c11x_styleName env (c11x_rPr cs))) S!"run"
             (c11x_styleId (c11x_rPr cs)) (c11x_styleName env (c11x_rPr cs)) cst) := by
  refine ⟨c11x_read_run env f st st1 as cs r hcs hfld, ?_⟩
  rw [visit, c03_bind_run, c03_findPathWarn_run]
  simp only [c11x_runPropPaths, c11x_stylePath_eq]
  have hig' : (c11x_formatPaths cfg (c11x_rPr cs) ++ [c11x_stylePath env cfg (c11x_rPr cs)]).any
      HtmlPath.isIgnore = true := hig
  simp only [hig', if_true]
  rfl

/-- A RUN WITHOUT FORMATTING, FROM THE XML: if in the run's `w:rPr` (possibly absent) every on/off property and
    underline is absent or switched off (`w:val` `false` / `0`; `w:u` also without a value or `none`), there is no
    sub/superscript, the highlight is absent, empty, `none` or unmapped and no run-style mapping applies
    (`c11x_plain`), then converting the run that is read yields exactly the nodes of its children's elements -/
theorem C11_xml_plain_run (env : REnv) (cfg : Cfg) (hdr : Bool) (f : Nat) (st st1 : RState) (as : Attrs)
    (cs : List XmlNode) (r : ReadResult) (cst : ConvState)
    (hcs : readAllWith (readElem env f) st cs = .ok (r, st1))
    (hfld : currentHyperlink st1.stack = none)
    (hplain : c11x_plain env cfg (c11x_rPr cs) = true) :
    readElem env (f+1) st (.elem S!"w:r" as cs) =
      .ok ({ elements := [.run (c11x_runProps env (c11x_rPr cs)) r.elements], extra := r.extra,
             messages := c11x_styleMsgs env (c11x_rPr cs) ++ r.messages }, st1) ∧
    (visit cfg hdr (.run (c11x_runProps env (c11x_rPr cs)) r.elements)).run cst =
      (visitAll cfg hdr r.elements).run
        (c03_warnState cfg (.run (c11x_styleId (c11x_rPr cs)) (c11x_styleName env (c11x_rPr cs))) S!"run"
          (c11x_styleId (c11x_rPr cs)) (c11x_styleName env (c11x_rPr cs)) cst) := by
  have hp := c11x_plain_paths env cfg _ hplain
  obtain ⟨h1, h2⟩ := C11_xml_run_wrappers env cfg hdr f st st1 as cs r cst hcs hfld (by rw [hp]; rfl)
  refine ⟨h1, ?_⟩
  rw [h2, hp]
  cases (visitAll cfg hdr r.elements).run _ with
  | error e => rfl
  | ok p => rfl

/-- THE SAME WITH EVERY HYPOTHESIS ON THE XML AND ON THE STATE BEFORE THE RUN: the run is outside every hyperlink
    complex field (`currentHyperlink st.stack = none`), and neither its children nor the nodes deferred from
    deleted paragraphs contain a `w:fldChar` (`c11x_noFldL`) — then no hyperlink field is open after the children
    either, and `C11_xml_run_wrappers` applies -/
theorem C11_xml_run_wrappers_nofield (env : REnv) (cfg : Cfg) (hdr : Bool) (f : Nat) (st st1 : RState) (as : Attrs)
    (cs : List XmlNode) (r : ReadResult) (cst : ConvState)
    (hcs : readAllWith (readElem env f) st cs = .ok (r, st1))
    (hfld : currentHyperlink st.stack = none)
    (hnf : c11x_noFldL cs = true) (hdel : c11x_noFldL st.deleted = true)
    (hno : (c11x_paths env cfg (c11x_rPr cs)).any HtmlPath.isIgnore = false) :
    readElem env (f+1) st (.elem S!"w:r" as cs) =
      .ok ({ elements := [.run (c11x_runProps env (c11x_rPr cs)) r.elements], extra := r.extra,
             messages := c11x_styleMsgs env (c11x_rPr cs) ++ r.messages }, st1) ∧
    (visit cfg hdr (.run (c11x_runProps env (c11x_rPr cs)) r.elements)).run cst =
      match (visitAll cfg hdr r.elements).run
              (c03_warnState cfg (.run (c11x_styleId (c11x_rPr cs)) (c11x_styleName env (c11x_rPr cs))) S!"run"
                (c11x_styleId (c11x_rPr cs)) (c11x_styleName env (c11x_rPr cs)) cst) with
      | .ok (ns, cst') => .ok (wrapAll (c11x_paths env cfg (c11x_rPr cs)) ns, cst')
      | .error e => .error e :=
  C11_xml_run_wrappers env cfg hdr f st st1 as cs r cst hcs
    (by rw [c11x_readAll_stack env f st st1 cs r hnf hdel hcs]; exact hfld) hno

/-- a run without `w:rPr`, or with an empty one, is plain under every style map without a catch-all run mapping -/
theorem C11_xml_no_rPr_plain (env : REnv) (cfg : Cfg)
    (hst : findStyle cfg.upper cfg.styleMap (.run none none) = none) :
    c11x_plain env cfg [] = true := by
  simp [c11x_plain, c11x_toggle, c11x_underline, c11x_vertAlign, c11x_highlight, c11x_propVal, c11x_named,
    c11x_styleId, c11x_styleName, hst]

/-! examples: `<w:r><w:rPr><w:b/><w:i w:val="0"/><w:u w:val="single"/><w:strike w:val="true"/>
    <w:vertAlign w:val="superscript"/><w:highlight w:val="yellow"/></w:rPr><w:t>x</w:t><w:tab/></w:r>`
    under the style map `u => em`, `highlight[color='yellow'] => mark` -/
private def c11x_exProps : List XmlNode :=
  [.elem S!"w:b" [] [], .elem S!"w:i" [(S!"w:val", S!"0")] [], .elem S!"w:u" [(S!"w:val", S!"single")] [],
   .elem S!"w:strike" [(S!"w:val", S!"true")] [], .elem S!"w:vertAlign" [(S!"w:val", S!"superscript")] [],
   .elem S!"w:highlight" [(S!"w:val", S!"yellow")] [], .elem S!"w:b" [(S!"w:val", S!"false")] []]
private def c11x_exContent : List XmlNode :=
  [.elem S!"w:rPr" [] c11x_exProps, .elem S!"w:t" [] [.text S!"x"], .elem S!"w:tab" [] []]
private def c11x_exCfg : Cfg :=
  { styleMap := [⟨.underline, .elements [c11_tag S!"em"]⟩, ⟨.highlight (some S!"yellow"), .elements [c11_tag S!"mark"]⟩] }

/-- the hypotheses of `C11_xml_run_wrappers` hold for it -/
example : ∃ r st1, readAllWith (readElem {} 2) {} c11x_exContent = .ok (r, st1) ∧
    currentHyperlink st1.stack = none ∧
    (c11x_paths {} c11x_exCfg (c11x_rPr c11x_exContent)).any HtmlPath.isIgnore = false ∧
    r.elements = [.text S!"x", .tab] :=
  ⟨_, _, rfl, rfl, by decide +kernel, rfl⟩
/-- its specified paths, innermost first: mark, s, em (underline, mapped), sup, strong — italic is switched off,
    the second `w:b` does not count -/
example : c11x_paths {} c11x_exCfg (c11x_rPr c11x_exContent) =
    [.elements [c11_tag S!"mark"], .elements [c11_tag S!"s"], .elements [c11_tag S!"em"],
     .elements [c11_tag S!"sup"], .elements [c11_tag S!"strong"], .elements []] := by decide +kernel
/-- read and converted: `<strong><sup><em><s><mark>x TAB</mark></s></em></sup></strong>` -/
example :
    (match readElem {} 3 {} (.elem S!"w:r" [] c11x_exContent) with
      | .ok (rr, _) => ((visitAll c11x_exCfg false rr.elements).run {}).toOption.map (·.1)
      | .error _ => none) =
    some [.elem (c11_tag S!"strong") [.elem (c11_tag S!"sup") [.elem (c11_tag S!"em") [.elem (c11_tag S!"s")
            [.elem (c11_tag S!"mark") [.text S!"x", .text ['\t']]]]]]] := by rfl

/-- everything switched off: `<w:rPr><w:b w:val="false"/><w:i w:val="0"/><w:u/><w:u w:val="single"/>
    <w:strike w:val="0"/><w:highlight w:val="none"/><w:vertAlign w:val="baseline"/></w:rPr>` is plain -/
private def c11x_exOff : List XmlNode :=
  [.elem S!"w:rPr" []
    [.elem S!"w:b" [(S!"w:val", S!"false")] [], .elem S!"w:i" [(S!"w:val", S!"0")] [], .elem S!"w:u" [] [],
     .elem S!"w:u" [(S!"w:val", S!"single")] [], .elem S!"w:strike" [(S!"w:val", S!"0")] [],
     .elem S!"w:highlight" [(S!"w:val", S!"none")] [], .elem S!"w:vertAlign" [(S!"w:val", S!"baseline")] []],
   .elem S!"w:t" [] [.text S!"plain"]]
example : c11x_plain {} c11x_exCfg (c11x_rPr c11x_exOff) = true := by decide +kernel
example : c11x_noFldL c11x_exContent = true ∧ c11x_noFldL c11x_exOff = true := by decide
example : ∃ r st1, readAllWith (readElem {} 2) {} c11x_exOff = .ok (r, st1) ∧
    currentHyperlink st1.stack = none ∧ r.elements = [.text S!"plain"] := ⟨_, _, rfl, rfl, rfl⟩
example :
    (match readElem {} 3 {} (.elem S!"w:r" [] c11x_exOff) with
      | .ok (rr, _) => ((visitAll c11x_exCfg false rr.elements).run {}).toOption.map (·.1)
      | .error _ => none) = some [.text S!"plain"] := by rfl
/-- a `!` mapping for bold: nothing of the run is written -/
example :
    (match readElem {} 3 {} (.elem S!"w:r" [] c11x_exContent) with
      | .ok (rr, _) => ((visitAll { styleMap := [⟨.bold, .ignore⟩] } false rr.elements).run {}).toOption.map (·.1)
      | .error _ => none) = some [] := by rfl

/-! ### round 7: first occurrence of a toggle, unmapped properties under arbitrary other mappings, adjacent runs -/

/-- THE FIRST OCCURRENCE DECIDES: for every property list `pre ++ <name as…> :: rest` in which no element of `pre`
    has the name (`c11e_noChild`; text nodes are skipped), the toggle is read from the `w:val` of THAT element —
    later duplicates in `rest` (any spelling) are irrelevant; and a list without such an element reads as off -/
theorem C11_toggle_first_decides (name : Str) (pre : List XmlNode) (as : Attrs) (cs rest : List XmlNode)
    (h : c11e_noChild name pre = true) :
    readBoolElem name (pre ++ .elem name as cs :: rest) = readBoolAttr (attr? S!"w:val" as) ∧
    readBoolElem name pre = false := by
  simp only [readBoolElem, c11e_findChild_first name pre as cs rest h, c11e_findChild_none name pre h, and_self]

example : c11e_noChild S!"w:b" [.text S!" ", .elem S!"w:i" [] []] = true := by decide
example : readBoolElem S!"w:b" ([.text S!" ", .elem S!"w:i" [] []] ++
    .elem S!"w:b" [(S!"w:val", S!"0")] [] :: [.elem S!"w:b" [] []]) = false := by decide

/-- UNDERLINE, ALL CAPS, SMALL CAPS AND HIGHLIGHT ADD NOTHING WITHOUT A MAPPING OF THEIR OWN, whatever ELSE the style
    map overrides (bold, italic, strikethrough, run styles, …): if no mapping matches underline, all caps, small
    caps and the run's highlight colour, the run's formatting paths wrap any content exactly as those of the same run
    with these four properties cleared (`c11e_clear`) -/
theorem C11_unmapped_add_nothing (cfg : Cfg) (r : RunProps) (ns : List Node)
    (hu : findStyle cfg.upper cfg.styleMap .underline = none)
    (hc : findStyle cfg.upper cfg.styleMap .allCaps = none)
    (hsc : findStyle cfg.upper cfg.styleMap .smallCaps = none)
    (hh : c11_highlightSpec cfg r.highlight = []) :
    wrapAll (runPropPaths cfg r) ns = wrapAll (runPropPaths cfg (c11e_clear r)) ns :=
  c11e_unmapped cfg r hu hc hsc hh ns

private def c11e_exCfg : Cfg := { styleMap := [⟨.bold, .elements [c11_tag S!"b"]⟩] }
private def c11e_exRun : RunProps :=
  { bold := true, underline := true, allCaps := true, smallCaps := true, highlight := some S!"yellow" }
example : findStyle c11e_exCfg.upper c11e_exCfg.styleMap .underline = none ∧
    findStyle c11e_exCfg.upper c11e_exCfg.styleMap .allCaps = none ∧
    findStyle c11e_exCfg.upper c11e_exCfg.styleMap .smallCaps = none ∧
    c11_highlightSpec c11e_exCfg c11e_exRun.highlight = [] := by decide
example : wrapAll (runPropPaths c11e_exCfg c11e_exRun) [.text S!"x"] = [.elem (c11_tag S!"b") [.text S!"x"]] := by
  rfl

/-- ADJACENT RUNS ARE WRAPPED ONE BY ONE: for EVERY list of text runs (any formatting, equal or different from run to
    run) and EVERY style map (including `!` mappings), the converted nodes are the concatenation, in order, of each
    run's own nodes — its text inside its own paths (`c11e_runNodes`: formatting paths, then the run-style path) —
    so no run's wrapper contains another run's text; the state only collects the unrecognised-style warnings, in
    order -/
theorem C11_adjacent_runs_separate (cfg : Cfg) (hdr : Bool) (rs : List (RunProps × Str)) (st : ConvState) :
    (visitAll cfg hdr (rs.map fun p => Elem.run p.1 [.text p.2])).run st =
      .ok (rs.flatMap (c11e_runNodes cfg), rs.foldl (c11e_runWarn cfg) st) :=
  c11e_visit_textRuns cfg hdr rs st

example : [(({ bold := true } : RunProps), S!"a"), ({ bold := true }, S!"b"), ({ italic := true }, S!"c")].flatMap
      (c11e_runNodes {}) =
    [.elem (c11_tag S!"strong") [.text S!"a"], .elem (c11_tag S!"strong") [.text S!"b"],
     .elem (c11_tag S!"em") [.text S!"c"]] := by rfl

#print axioms C11_toggle_first_decides
#print axioms C11_unmapped_add_nothing
#print axioms C11_adjacent_runs_separate

end Mammoth
