/-
  C03 — style mappings resolve by first match, with user > embedded > default precedence.
  Property theorems only; helper lemmas live in Proofs/C03_Lemmas.lean.
-/
import Proofs.C03_Lemmas
namespace Mammoth

/-! ### precedence of the three sources -/

/-- the style map handed to the converter is: the explicit mappings (top to bottom), then the
    embedded ones (the caller passes `none` when they are disabled), then the built-in defaults
    unless these are disabled -/
theorem C03_styleMap_order (custom embedded : Option Str) (incl : Bool) :
    (readOptions custom embedded incl).1 =
      (readStyleMap (custom.getD [])).1 ++ (readStyleMap (embedded.getD [])).1 ++
        (if incl then defaultStyleMap else []) := rfl

/-- FIRST MATCH.  `findStyle` returns `s` iff the map splits as `pre ++ s :: post` where `s`
    matches and nothing in `pre` does. -/
theorem C03_findStyle_first (up : Str → Str) (sm : List Style) (t : Target) (s : Style) :
    findStyle up sm t = some s ↔
      ∃ pre post, sm = pre ++ s :: post ∧ matcherMatches up s.matcher t = true ∧
        ∀ x ∈ pre, ¬ matcherMatches up x.matcher t = true := by
  unfold findStyle
  rw [List.find?_eq_some_iff_append]
  constructor
  · rintro ⟨hs, pre, post, rfl, hpre⟩
    exact ⟨pre, post, rfl, hs, fun x hx => by simpa using hpre x hx⟩
  · rintro ⟨pre, post, rfl, hs, hpre⟩
    exact ⟨hs, pre, post, rfl, fun x hx => by simpa using hpre x hx⟩

/-- nothing is found iff no mapping matches -/
theorem C03_findStyle_none (up : Str → Str) (sm : List Style) (t : Target) :
    findStyle up sm t = none ↔ ∀ x ∈ sm, ¬ matcherMatches up x.matcher t = true := by
  simp [findStyle]

/-- USER OVERRIDES.  As soon as one mapping of the first list matches, the later lists
    (embedded, defaults) are irrelevant. -/
theorem C03_user_overrides (up : Str → Str) (a b c : List Style) (t : Target)
    (h : ∃ x ∈ a, matcherMatches up x.matcher t = true) :
    findStyle up (a ++ b ++ c) t = findStyle up a t := by
  obtain ⟨x, hx, hm⟩ := h
  unfold findStyle
  rw [List.append_assoc, List.find?_append]
  cases hf : a.find? (fun s => matcherMatches up s.matcher t) with
  | some s => rfl
  | none =>
    rw [List.find?_eq_none] at hf
    exact absurd hm (hf x hx)

/-- …and when nothing of an earlier list matches, the search continues in the next one -/
theorem C03_fallthrough (up : Str → Str) (a b : List Style) (t : Target)
    (h : ∀ x ∈ a, ¬ matcherMatches up x.matcher t = true) :
    findStyle up (a ++ b) t = findStyle up b t := by
  unfold findStyle
  rw [List.find?_append]
  have : a.find? (fun s => matcherMatches up s.matcher t) = none := by
    rw [List.find?_eq_none]; exact h
  rw [this]; rfl

/-! ### when does a mapping match -/

/-- style-name equality is equality after upper-casing both sides -/
theorem C03_name_equal_iff (up : Str → Str) (v n : Str) :
    (StrMatch.equalTo v).matches up n = true ↔ up v = up n := by
  simp [StrMatch.matches]

/-- `^=` : the upper-cased name starts with the upper-cased prefix -/
theorem C03_name_prefix_iff (up : Str → Str) (v n : Str) :
    (StrMatch.startsWith v).matches up n = true ↔ ∃ rest, up n = up v ++ rest := by
  simp [StrMatch.matches, c03_startsWith_iff]

/-- a paragraph matcher matches a paragraph iff the style id (if given) is exactly the
    paragraph's, the style name (if given) matches the paragraph's (which must exist), and the
    list level with its orderedness (if given) is exactly the paragraph's -/
theorem C03_matches_paragraph_iff (up : Str → Str) (sid : Option Str) (sname : Option StrMatch)
    (num : Option NumLevel) (p : ParaProps) :
    matcherMatches up (.paragraph sid sname num) (.paragraph p) = true ↔
      (∀ v, sid = some v → p.styleId = some v) ∧
      (∀ m, sname = some m → ∃ n, p.styleName = some n ∧ m.matches up n = true) ∧
      (∀ l, num = some l → p.numbering = some l) := by
  simp only [matcherMatches, Bool.and_eq_true, c03_optEqOrNone_iff, c03_nameMatches_iff, and_assoc]
  cases num <;> simp

theorem C03_matches_run_iff (up : Str → Str) (sid : Option Str) (sname : Option StrMatch)
    (esid esname : Option Str) :
    matcherMatches up (.run sid sname) (.run esid esname) = true ↔
      (∀ v, sid = some v → esid = some v) ∧
      (∀ m, sname = some m → ∃ n, esname = some n ∧ m.matches up n = true) := by
  simp only [matcherMatches, Bool.and_eq_true, c03_optEqOrNone_iff, c03_nameMatches_iff]

theorem C03_matches_table_iff (up : Str → Str) (sid : Option Str) (sname : Option StrMatch)
    (esid esname : Option Str) :
    matcherMatches up (.table sid sname) (.table esid esname) = true ↔
      (∀ v, sid = some v → esid = some v) ∧
      (∀ m, sname = some m → ∃ n, esname = some n ∧ m.matches up n = true) := by
  simp only [matcherMatches, Bool.and_eq_true, c03_optEqOrNone_iff, c03_nameMatches_iff]

/-- a highlight matcher without colour matches every highlight, one with a colour only that colour -/
theorem C03_matches_highlight_iff (up : Str → Str) (c : Option Str) (ec : Str) :
    matcherMatches up (.highlight c) (.highlight ec) = true ↔ ∀ v, c = some v → v = ec := by
  cases c <;> simp [matcherMatches]

theorem C03_matches_break_iff (up : Str → Str) (ty ety : Str) :
    matcherMatches up (.brk ty) (.brk ety) = true ↔ ty = ety := by
  simp [matcherMatches]

/-- the property matchers (bold, italic, …, comment reference) match their own kind unconditionally -/
theorem C03_matches_property (up : Str → Str) :
    matcherMatches up .bold .bold = true ∧ matcherMatches up .italic .italic = true ∧
    matcherMatches up .underline .underline = true ∧
    matcherMatches up .strikethrough .strikethrough = true ∧
    matcherMatches up .allCaps .allCaps = true ∧ matcherMatches up .smallCaps .smallCaps = true ∧
    matcherMatches up .commentReference .commentReference = true := by
  simp [matcherMatches]

/-- a matcher of one kind never matches a target of another kind -/
theorem C03_kind_mismatch (up : Str → Str) (m : Matcher) (t : Target)
    (h : c03_matcherKind m ≠ c03_targetKind t) : matcherMatches up m t = false := by
  cases m <;> cases t <;> first | rfl | exact absurd rfl h

/-! ### the first matching mapping decides the rendering -/

/-- a paragraph is rendered inside the path of the first mapping that matches it (no warning) -/
theorem C03_mapped_paragraph (cfg : Cfg) (hdr : Bool) (p : ParaProps) (cs : List Elem)
    (st : ConvState) (s : Style) (es : List Tag)
    (h : findStyle cfg.upper cfg.styleMap (.paragraph p) = some s) (hp : s.path = .elements es) :
    (visit cfg hdr (.paragraph p cs)).run st =
      match (visitAll cfg hdr cs).run st with
      | .ok (content, st') =>
        .ok (wrapElems es (if cfg.ignoreEmpty then content else .forceWrite :: content), st')
      | .error e => .error e := by
  have hf : findPath cfg (.paragraph p) = some (.elements es) := by simp [findPath, h, hp]
  rw [visit, c03_bind_run, c03_findPathWarn_run, hf, c03_warnState_matched _ _ _ _ _ _ _ hf]
  simp only [Option.getD_some, c03_bind_run]
  cases (visitAll cfg hdr cs).run st with
  | error e => rfl
  | ok r => rfl

/-- a table is rendered inside the path of the first mapping that matches it -/
theorem C03_mapped_table (cfg : Cfg) (hdr : Bool) (sid sname : Option Str) (rows : List Elem)
    (st : ConvState) (s : Style) (es : List Tag)
    (h : findStyle cfg.upper cfg.styleMap (.table sid sname) = some s) (hp : s.path = .elements es) :
    (visit cfg hdr (.table sid sname rows)).run st =
      match (visitRows cfg true rows).run st with
      | .ok ((head, body), st') =>
        .ok (wrapElems es
              (.forceWrite :: (if bodyIndex rows == 0 then body
                               else [el S!"thead" [] head, el S!"tbody" [] body])), st')
      | .error e => .error e := by
  have hf : findPath cfg (.table sid sname) = some (.elements es) := by simp [findPath, h, hp]
  rw [visit, hf]
  simp only [Option.getD_some, c03_bind_run]
  cases (visitRows cfg true rows).run st with
  | error e => rfl
  | ok r => rfl

/-- a break is rendered as the (empty) path of the first mapping that matches its type -/
theorem C03_mapped_break (cfg : Cfg) (hdr : Bool) (ty : Str) (st : ConvState) (s : Style)
    (es : List Tag)
    (h : findStyle cfg.upper cfg.styleMap (.brk ty) = some s) (hp : s.path = .elements es) :
    (visit cfg hdr (.brk ty)).run st = .ok (wrapElems es [], st) := by
  have hf : findPath cfg (.brk ty) = some (.elements es) := by simp [findPath, h, hp]
  rw [visit, hf]
  rfl

/-- a run is wrapped (outermost) in the path of the first run mapping that matches it, around its
    formatting paths (which are themselves first-match lookups: see `C11_runPropPaths_spec`) -/
theorem C03_mapped_run (cfg : Cfg) (hdr : Bool) (r : RunProps) (cs : List Elem)
    (st : ConvState) (s : Style) (es : List Tag)
    (h : findStyle cfg.upper cfg.styleMap (.run r.styleId r.styleName) = some s)
    (hp : s.path = .elements es)
    (hno : (runPropPaths cfg r).any HtmlPath.isIgnore = false) :
    (visit cfg hdr (.run r cs)).run st =
      match (visitAll cfg hdr cs).run st with
      | .ok (ns, st') => .ok (wrapElems es (wrapAll (runPropPaths cfg r) ns), st')
      | .error e => .error e := by
  have hf : findPath cfg (.run r.styleId r.styleName) = some (.elements es) := by
    simp [findPath, h, hp]
  rw [visit, c03_bind_run, c03_findPathWarn_run, hf, c03_warnState_matched _ _ _ _ _ _ _ hf]
  simp only [Option.getD_some, List.any_append, hno, List.any_cons, List.any_nil, HtmlPath.isIgnore,
    Bool.or_false, Bool.false_eq_true, if_false, c03_bind_run, c03_wrapAll_append]
  cases (visitAll cfg hdr cs).run st with
  | error e => rfl
  | ok r => rfl

/-! ### fallbacks when nothing matches -/

/-- an unmatched paragraph becomes a fresh `p` around its converted children (a warning is
    recorded first iff it has a style id) -/
theorem C03_fallbacks_paragraph (cfg : Cfg) (hdr : Bool) (p : ParaProps) (cs : List Elem)
    (st : ConvState) (h : findStyle cfg.upper cfg.styleMap (.paragraph p) = none) :
    (visit cfg hdr (.paragraph p cs)).run st =
      match (visitAll cfg hdr cs).run
              (c03_warnState cfg (.paragraph p) S!"paragraph" p.styleId p.styleName st) with
      | .ok (content, st') =>
        .ok ([.elem { name := S!"p", collapsible := false }
                (if cfg.ignoreEmpty then content else .forceWrite :: content)], st')
      | .error e => .error e := by
  have hp : findPath cfg (.paragraph p) = none := by simp [findPath, h]
  rw [visit, c03_bind_run, c03_findPathWarn_run, hp]
  simp only [Option.getD_none, c03_bind_run]
  cases (visitAll cfg hdr cs).run _ with
  | error e => rfl
  | ok r => rfl

/-- an unmatched table becomes a fresh `table` -/
theorem C03_fallbacks_table (cfg : Cfg) (hdr : Bool) (sid sname : Option Str) (rows : List Elem)
    (st : ConvState) (h : findStyle cfg.upper cfg.styleMap (.table sid sname) = none) :
    (visit cfg hdr (.table sid sname rows)).run st =
      match (visitRows cfg true rows).run st with
      | .ok ((head, body), st') =>
        .ok ([.elem { name := S!"table", collapsible := false }
                (.forceWrite :: (if bodyIndex rows == 0 then body
                                 else [el S!"thead" [] head, el S!"tbody" [] body]))], st')
      | .error e => .error e := by
  have hp : findPath cfg (.table sid sname) = none := by simp [findPath, h]
  rw [visit, hp]
  simp only [Option.getD_none, c03_bind_run]
  cases (visitRows cfg true rows).run st with
  | error e => rfl
  | ok r => rfl

/-- an unmatched run contributes no element of its own: only the property paths wrap the children -/
theorem C03_fallbacks_run (cfg : Cfg) (hdr : Bool) (r : RunProps) (cs : List Elem)
    (st : ConvState) (h : findStyle cfg.upper cfg.styleMap (.run r.styleId r.styleName) = none)
    (hno : (runPropPaths cfg r).any HtmlPath.isIgnore = false) :
    (visit cfg hdr (.run r cs)).run st =
      match (visitAll cfg hdr cs).run
              (c03_warnState cfg (.run r.styleId r.styleName) S!"run" r.styleId r.styleName st) with
      | .ok (ns, st') => .ok (wrapAll (runPropPaths cfg r) ns, st')
      | .error e => .error e := by
  have hp : findPath cfg (.run r.styleId r.styleName) = none := by simp [findPath, h]
  rw [visit, c03_bind_run, c03_findPathWarn_run, hp]
  simp only [Option.getD_none, List.any_append, hno, List.any_cons, List.any_nil, HtmlPath.isIgnore,
    Bool.or_false, Bool.false_eq_true, if_false, c03_bind_run, c03_wrapAll_snoc_empty]
  cases (visitAll cfg hdr cs).run _ with
  | error e => rfl
  | ok r => rfl

/-- an unmatched break: a line break is `<br>`, any other break nothing -/
theorem C03_fallbacks_break (cfg : Cfg) (hdr : Bool) (ty : Str) (st : ConvState)
    (h : findStyle cfg.upper cfg.styleMap (.brk ty) = none) :
    (visit cfg hdr (.brk ty)).run st =
      .ok (if ty = S!"line" then [.elem { name := S!"br", collapsible := false } []] else [], st) := by
  have hp : findPath cfg (.brk ty) = none := by simp [findPath, h]
  rw [visit, hp]
  by_cases hl : ty = S!"line" <;> simp [hl] <;> rfl

/-! ### `!` drops the element with its contents -/

/-- a paragraph whose first matching mapping has path `!` yields nothing and leaves the state
    untouched: the children are not visited (no note reference recorded, no image opened, no
    warning) -/
theorem C03_ignore_drops_paragraph (cfg : Cfg) (hdr : Bool) (p : ParaProps) (cs : List Elem)
    (st : ConvState) (s : Style)
    (h : findStyle cfg.upper cfg.styleMap (.paragraph p) = some s) (hi : s.path = .ignore) :
    (visit cfg hdr (.paragraph p cs)).run st = .ok ([], st) := by
  have hp : findPath cfg (.paragraph p) = some .ignore := by simp [findPath, h, hi]
  rw [visit, c03_bind_run, c03_findPathWarn_run, hp, c03_warnState_matched _ _ _ _ _ _ _ hp]
  rfl

theorem C03_ignore_drops_table (cfg : Cfg) (hdr : Bool) (sid sname : Option Str) (rows : List Elem)
    (st : ConvState) (s : Style)
    (h : findStyle cfg.upper cfg.styleMap (.table sid sname) = some s) (hi : s.path = .ignore) :
    (visit cfg hdr (.table sid sname rows)).run st = .ok ([], st) := by
  have hp : findPath cfg (.table sid sname) = some .ignore := by simp [findPath, h, hi]
  rw [visit, hp]
  rfl

/-- a run any of whose paths (formatting paths or run-style path) is `!`: the children are not
    visited; what is outside the `!` still wraps the empty content; the state only gains the
    possible "Unrecognised run style" warning -/
theorem C03_ignore_drops_run (cfg : Cfg) (hdr : Bool) (r : RunProps) (cs : List Elem) (st : ConvState)
    (h : (runPropPaths cfg r ++
            [(findPath cfg (.run r.styleId r.styleName)).getD (.elements [])]).any HtmlPath.isIgnore = true) :
    (visit cfg hdr (.run r cs)).run st =
      .ok (wrapAll (runPropPaths cfg r ++
                      [(findPath cfg (.run r.styleId r.styleName)).getD (.elements [])]) [],
           c03_warnState cfg (.run r.styleId r.styleName) S!"run" r.styleId r.styleName st) := by
  rw [visit, c03_bind_run, c03_findPathWarn_run]
  simp only [h, if_true]
  rfl

/-- in particular a run whose style mapping is `!` produces nothing at all when its formatting
    paths contain no `!` … it produces `wrapAll [] = []` around nothing: no node, state unchanged -/
theorem C03_ignore_drops_run_style (cfg : Cfg) (hdr : Bool) (r : RunProps) (cs : List Elem)
    (st : ConvState) (s : Style)
    (h : findStyle cfg.upper cfg.styleMap (.run r.styleId r.styleName) = some s)
    (hi : s.path = .ignore) :
    (visit cfg hdr (.run r cs)).run st = .ok ([], st) := by
  have hp : findPath cfg (.run r.styleId r.styleName) = some .ignore := by simp [findPath, h, hi]
  have := C03_ignore_drops_run cfg hdr r cs st (by simp [hp, HtmlPath.isIgnore])
  rw [this, c03_warnState_matched _ _ _ _ _ _ _ hp, hp, c03_wrapAll_append]
  rfl

/-- an ignored break -/
theorem C03_ignore_drops_break (cfg : Cfg) (hdr : Bool) (ty : Str) (st : ConvState) (s : Style)
    (h : findStyle cfg.upper cfg.styleMap (.brk ty) = some s) (hi : s.path = .ignore) :
    (visit cfg hdr (.brk ty)).run st = .ok ([], st) := by
  have hp : findPath cfg (.brk ty) = some .ignore := by simp [findPath, h, hi]
  rw [visit, hp]
  rfl

/-! ### the three statements of the task, bundled -/

/-- FALLBACKS: unmatched paragraph ↦ fresh `p`, unmatched table ↦ fresh `table`, unmatched run ↦
    no element of its own -/
theorem C03_fallbacks (cfg : Cfg) (hdr : Bool) (st : ConvState) :
    (∀ p cs, findStyle cfg.upper cfg.styleMap (.paragraph p) = none →
      (visit cfg hdr (.paragraph p cs)).run st =
        match (visitAll cfg hdr cs).run
                (c03_warnState cfg (.paragraph p) S!"paragraph" p.styleId p.styleName st) with
        | .ok (content, st') =>
          .ok ([.elem { name := S!"p", collapsible := false }
                  (if cfg.ignoreEmpty then content else .forceWrite :: content)], st')
        | .error e => .error e) ∧
    (∀ sid sname rows, findStyle cfg.upper cfg.styleMap (.table sid sname) = none →
      (visit cfg hdr (.table sid sname rows)).run st =
        match (visitRows cfg true rows).run st with
        | .ok ((head, body), st') =>
          .ok ([.elem { name := S!"table", collapsible := false }
                  (.forceWrite :: (if bodyIndex rows == 0 then body
                                   else [el S!"thead" [] head, el S!"tbody" [] body]))], st')
        | .error e => .error e) ∧
    (∀ r cs, findStyle cfg.upper cfg.styleMap (.run r.styleId r.styleName) = none →
      (runPropPaths cfg r).any HtmlPath.isIgnore = false →
      (visit cfg hdr (.run r cs)).run st =
        match (visitAll cfg hdr cs).run
                (c03_warnState cfg (.run r.styleId r.styleName) S!"run" r.styleId r.styleName st) with
        | .ok (ns, st') => .ok (wrapAll (runPropPaths cfg r) ns, st')
        | .error e => .error e) :=
  ⟨fun p cs h => C03_fallbacks_paragraph cfg hdr p cs st h,
   fun sid sname rows h => C03_fallbacks_table cfg hdr sid sname rows st h,
   fun r cs h hno => C03_fallbacks_run cfg hdr r cs st h hno⟩

/-- `!` DROPS the matched paragraph / table / run together with its contents: the children are
    never visited, the state is untouched (for a run whose formatting path is `!` see
    `C03_ignore_drops_run`) -/
theorem C03_ignore_drops (cfg : Cfg) (hdr : Bool) (st : ConvState) (s : Style) (hi : s.path = .ignore) :
    (∀ p cs, findStyle cfg.upper cfg.styleMap (.paragraph p) = some s →
      (visit cfg hdr (.paragraph p cs)).run st = .ok ([], st)) ∧
    (∀ sid sname rows, findStyle cfg.upper cfg.styleMap (.table sid sname) = some s →
      (visit cfg hdr (.table sid sname rows)).run st = .ok ([], st)) ∧
    (∀ r cs, findStyle cfg.upper cfg.styleMap (.run r.styleId r.styleName) = some s →
      (visit cfg hdr (.run r cs)).run st = .ok ([], st)) ∧
    (∀ ty, findStyle cfg.upper cfg.styleMap (.brk ty) = some s →
      (visit cfg hdr (.brk ty)).run st = .ok ([], st)) :=
  ⟨fun p cs h => C03_ignore_drops_paragraph cfg hdr p cs st s h hi,
   fun sid sname rows h => C03_ignore_drops_table cfg hdr sid sname rows st s h hi,
   fun r cs h => C03_ignore_drops_run_style cfg hdr r cs st s h hi,
   fun ty h => C03_ignore_drops_break cfg hdr ty st s h hi⟩

/-! ### examples -/

/-- explicit mappings come first, then the embedded ones, then the defaults -/
example :
    (readOptions (some S!"p.Heading1 => h2:fresh\nr.X => !") (some S!"p.Heading1 => h3") true).1.take 3 =
      [⟨.paragraph (some S!"Heading1") none none, .elements [pathElem S!"h2" true]⟩,
       ⟨.run (some S!"X") none, .ignore⟩,
       ⟨.paragraph (some S!"Heading1") none none, .elements [pathElem S!"h3" false]⟩] := by rfl

/-- …so a user mapping for `Heading1` beats the built-in `p.Heading1 => h1:fresh` -/
example :
    (findStyle upperAscii (readOptions (some S!"p.Heading1 => h2:fresh") none true).1
        (.paragraph { styleId := some S!"Heading1" })).map (·.path) =
      some (.elements [pathElem S!"h2" true]) := by rfl
set_option maxRecDepth 20000 in
/-- …and without user mappings the built-in default applies -/
example :
    (findStyle upperAscii (readOptions none none true).1
        (.paragraph { styleId := some S!"Heading1" })).map (·.path) =
      some (.elements [pathElem S!"h1" true]) := by rfl

/-- first match wins inside one list -/
example :
    findStyle upperAscii
      [⟨.paragraph (some S!"H1") none none, .elements [pathElem S!"h1" true]⟩,
       ⟨.paragraph none none none, .elements [pathElem S!"div" true]⟩,
       ⟨.paragraph (some S!"H1") none none, .ignore⟩]
      (.paragraph { styleId := some S!"H1" }) =
      some ⟨.paragraph (some S!"H1") none none, .elements [pathElem S!"h1" true]⟩ := by decide

/-- style names compare case-insensitively, style ids exactly -/
example : matcherMatches upperAscii (.paragraph none (some (.equalTo S!"heading 1")) none)
            (.paragraph { styleName := some S!"Heading 1" }) = true := by decide
example : matcherMatches upperAscii (.paragraph (some S!"heading1") none none)
            (.paragraph { styleId := some S!"Heading1" }) = false := by decide
example : matcherMatches upperAscii (.run none (some (.startsWith S!"Head")) )
            (.run none (some S!"HEADING char")) = true := by decide
/-- list level and orderedness must agree -/
example : matcherMatches upperAscii (.paragraph none none (some ⟨S!"0", true⟩))
            (.paragraph { numbering := some ⟨S!"0", false⟩ }) = false := by decide
/-- an ignored paragraph does not even record the footnote reference inside it -/
example :
    (((visit { styleMap := [⟨.paragraph (some S!"Hidden") none none, .ignore⟩] } false
        (.paragraph { styleId := some S!"Hidden" } [.noteRef S!"footnote" S!"1"])).run {}).toOption.map
      (fun r => (r.1.length, r.2.noteRefs.length))) = some (0, 0) := by rfl

end Mammoth
