/-
  C14 — empty content is dropped by default and kept on request, never the reverse.
-/
import Proofs.Strip
import Proofs.Stable
import Proofs.C04_Chains
import Proofs.C01_NoSep
import Proofs.C14_Collapse
import Proofs.C14_Para
import Proofs.C14_Table
import Proofs.C14_Doc
import Proofs.Pins
namespace Mammoth

/-- `strip_empty` removes exactly the nodes without content (recursively): a node survives iff it
    `hasContent`, i.e. non-empty text, a force-write marker, a childless void element, or an element
    with a contentful descendant chain — so an element disappears iff it has no content, together
    with the ancestors it leaves empty, and nothing contentful is removed. -/
theorem C14_strip_is_prune (ns : List Node) : stripEmpty ns = prune ns := stripList_eq ns

/-- after stripping, every remaining element at every depth has content -/
theorem C14_no_empty_element (ns : List Node) : allContentL (stripEmpty ns) = true := by
  rw [C14_strip_is_prune]; exact allContentL_prune ns

/-- a contentful top-level node is kept (as its pruned self), in place -/
theorem C14_contentful_kept (n : Node) (h : hasContent n = true) : stripEmpty [n] = [pruneNode n] := by
  simp [stripEmpty, stripList, stripNode_eq, h]

/-- a content-free node vanishes -/
theorem C14_empty_dropped (n : Node) (h : hasContent n = false) : stripEmpty [n] = [] := by
  simp [stripEmpty, stripList, stripNode_eq, h]

/-- stripping loses no text -/
theorem C14_text_kept (ns : List Node) : textOfL (stripEmpty ns) = textOfL ns := text_stripEmpty ns

/-- the force-write marker keeps its element: this is what `ignore_empty_paragraphs=False`, bookmarks,
    tables, rows and cells rely on -/
theorem C14_force_write_keeps (t : Tag) (cs : List Node) :
    hasContent (.elem t (.forceWrite :: cs)) = true := by
  simp [hasContent, anyContent]

/-! non-vacuity -/
private def pT : Tag := { name := S!"p" }
private def brT : Tag := { name := S!"br" }
example : stripEmpty [.elem pT [.elem pT [.text []]], .elem pT [.elem brT []], .elem brT [.text []]]
    = [.elem pT [.elem brT []]] := by rfl
example : hasContent (.elem pT [.elem pT [.text []]]) = false := by rfl

/-- CHAINS ARE KEPT.  `leaves` lists the text nodes and force-write markers of a forest in order, each with the
    tags of its enclosing elements (outermost first).  Stripping keeps exactly the leaves with content
    (`leafKept`: non-empty text, force-write marker), in order, each under EXACTLY its own chain of tags:
    no contentful leaf is dropped or moved, no tag above it is removed or changed, and only empty text leaves
    disappear — for every forest. -/
theorem C14_chains_kept (ns : List Node) : leaves (stripEmpty ns) = (leaves ns).filter leafKept :=
  leaves_stripEmpty ns

/-- …and stripping followed by merging (what `render` writes): the contentful leaves of `ns`, in order and
    unchanged, with separator leaves inserted; each chain keeps its length and changes position by position
    by merge steps only (identical attributes; name linked through `|` alternatives, see
    `C04_never_joins_different`) -/
theorem C14_chains_rendered (ns : List Node) :
    LeafEmb TagReach (SepIn ns) ((leaves ns).filter leafKept) (leaves (collapse (stripEmpty ns))) := by
  rw [← C14_chains_kept]
  exact leaves_collapse_reach ns (stripEmpty ns)
    (by rw [C14_strip_is_prune]; exact allTagsL_prune ns (allTagsL_tagsOfL ns))

/-! non-vacuity -/
example : leaves [.elem pT [.text [], .elem brT [], .elem pT [.text S!"a"]], .elem pT [.text []], .forceWrite]
    = [([pT], .text []), ([pT, pT], .text S!"a"), ([pT], .text []), ([], .forceWrite)] := by rfl
example : leaves (stripEmpty
      [.elem pT [.text [], .elem brT [], .elem pT [.text S!"a"]], .elem pT [.text []], .forceWrite])
    = [([pT, pT], .text S!"a"), ([], .forceWrite)] := by rfl
/-! ## C14 through `collapse` (the rendered forest is `collapse (stripEmpty nodes)`) -/

/-- No empty element in the rendered forest: after `strip_empty` and `collapse`, every element at every
    depth is a childless void element or has a child with content (merging only appends children to an
    element that is kept, separators are non-empty text).  All forests. -/
theorem C14_rendered_no_empty_element (ns : List Node) :
    allContentL (collapse (stripEmpty ns)) = true :=
  allContentL_collapse _ (C14_no_empty_element ns)

/-- `collapse` alone never creates an empty element in a forest that has none. -/
theorem C14_collapse_no_empty_element (ns : List Node) (h : allContentL ns = true) :
    allContentL (collapse ns) = true := allContentL_collapse ns h

/-- The rendered forest is empty exactly when the input forest has no content at all. -/
theorem C14_rendered_empty_iff (ns : List Node) :
    collapse (stripEmpty ns) = [] ↔ anyContent ns = false := by
  rw [collapse_eq_nil_iff]
  have h := stripList_isEmpty ns
  constructor
  · intro h0; simp only [stripEmpty] at h0; rw [h0] at h; simpa using h
  · intro ha; rw [ha] at h; exact List.isEmpty_iff.mp (by simpa [stripEmpty] using h)

/-- Neither `strip_empty` nor `collapse` loses (or duplicates) a force-write marker: the rendered forest
    contains as many as the input forest.  All forests. -/
theorem C14_rendered_force_writes_kept (ns : List Node) :
    fwCountL (collapse (stripEmpty ns)) = fwCountL ns := by
  rw [fwCount_collapse, stripEmpty, stripList_eq, fwCount_prune]

/-- All text survives rendering, provided no tag carries a separator (a separator *adds* text). -/
theorem C14_rendered_text_kept (ns : List Node) (h : noSepL ns = true) :
    textOfL (collapse (stripEmpty ns)) = textOfL ns := by
  have h' : noSepL (stripEmpty ns) = true := c01_noSepL_stripList ns h
  rw [text_collapse _ h', text_stripEmpty]

/-! non-vacuity, and a CAVEAT -/
private def pC : Tag := { name := S!"p", collapsible := true, separator := some S!"\n" }
private def brC : Tag := { name := S!"br", collapsible := true }
example : allContentL [.elem pC [.text S!"a"], .elem pC [.text S!"b"]] = true := by decide
example : collapse (stripEmpty [.elem pC [.text S!"a"], .elem pT [.text []], .elem pC [.text S!"b"]])
    = [.elem pC [.text S!"a", .text S!"\n", .text S!"b"]] := by rfl
example : noSepL [.elem pT [.text S!"a"], .elem brT []] = true := by decide
/-- CAVEAT: a void element is content for `strip_empty`, but `collapse` merges two adjacent *non-fresh*
    void elements with the same tag into one — so "nothing contentful is removed" holds for text and
    force-write markers (theorems above), not for the number of void elements: with the style mapping
    `br[type='line'] => br` two consecutive line breaks are rendered as a single `<br />` (the library
    does the same: `<p>a<br />b</p>`; with `br:fresh`, or without a mapping, both are written). -/
example : collapse (stripEmpty [.elem brC [], .elem brC []]) = [.elem brC []] := by rfl
example : collapse (stripEmpty [.elem brT [], .elem brT []]) = [.elem brT [], .elem brT []] := by rfl

/-! ## The converter: which elements are written

  `c14_weight cfg e` (Proofs/C14_Weight.lean) is the specification, by recursion on the *document*
  element: `none` — nothing is emitted; `hollow` — something is emitted that `strip_empty` removes
  completely; `full` — something survives.  Text is `full` iff non-empty; tab, note reference, checkbox,
  bookmark, row, cell are `full`; a table, a comment reference, a break, an image are `full` or `none`
  depending on the style map / the readability of the image; a hyperlink is `full` iff something inside
  is, else `hollow`; a run passes the weight of its children through its paths; a paragraph likewise
  under the default setting and is `full` under `ignore_empty_paragraphs=False` (unless mapped to `!`). -/

/-- Whatever a successful visit of ANY document element returns has the specified weight. -/
theorem C14_visit_weight (cfg : Cfg) (hdr : Bool) (e : Elem) (st st' : ConvState) (nodes : List Node)
    (h : visit cfg hdr e st = .ok (nodes, st')) : weightOf nodes = c14_weight cfg e :=
  c14_weight_visit cfg hdr e st nodes st' h

/-- … hence `strip_empty` removes the nodes of an element completely iff its weight is not `full`
    (any element, any configuration, any converter state). -/
theorem C14_dropped_iff (cfg : Cfg) (hdr : Bool) (e : Elem) (st st' : ConvState) (nodes : List Node)
    (h : visit cfg hdr e st = .ok (nodes, st')) :
    (stripEmpty nodes).isEmpty = !(c14_weight cfg e).isFull :=
  c14_dropped_iff cfg hdr e st st' nodes h

/-- the same for a sequence of elements (the children of a paragraph, run, cell, …) -/
theorem C14_dropped_iff_all (cfg : Cfg) (hdr : Bool) (es : List Elem) (st st' : ConvState)
    (nodes : List Node) (h : visitAll cfg hdr es st = .ok (nodes, st')) :
    (stripEmpty nodes).isEmpty = !(c14_weightL cfg es).isFull :=
  c14_dropped_iff_all cfg hdr es st st' nodes h

/-! examples: a bold, italic run with only empty text inside a hyperlink inside a paragraph vanishes with
    all its ancestors; a bookmark, a tab or a line break next to it keeps them -/
private def c14_emptyRun : Elem := .run { bold := true, italic := true } [.text []]
example : ∃ st', visit {} false (.paragraph {} [.hyperlink { href := some S!"x" } [c14_emptyRun]]) {} =
    .ok ([.elem (pathElem S!"p" true) [cel S!"a" [(S!"href", S!"x")]
      [.elem (pathElem S!"strong" false) [.elem (pathElem S!"em" false) [.text []]]]]], st') := ⟨_, rfl⟩
example : c14_weight {} (.paragraph {} [.hyperlink { href := some S!"x" } [c14_emptyRun]]) = .hollow := by
  decide
example : c14_weight {} (.paragraph {} [.hyperlink {} [c14_emptyRun, .bookmark (some S!"b")]]) = .full := by
  decide
example : c14_weight {} (.paragraph {} [.run {} [.brk S!"line"]]) = .full := by decide
example : c14_weight {} (.paragraph {} [.run {} [.brk S!"page"]]) = .hollow := by decide

/-! ### force-write sites and void elements -/

/-- A bookmark always yields exactly one `a` element carrying its (prefixed) id whose only child is the
    force-write marker, and `strip_empty` keeps it unchanged.  All configurations and states. -/
theorem C14_bookmark_kept (cfg : Cfg) (hdr : Bool) (name : Option Str) (st : ConvState) :
    ∃ nodes, visit cfg hdr (.bookmark name) st = .ok (nodes, st) ∧
      nodes = [.elem { name := S!"a", attrs := [(S!"id", cfg.idPrefix ++ pyOpt name)], collapsible := true }
                [.forceWrite]] ∧
      stripEmpty nodes = nodes :=
  c14_bookmark_stripped cfg hdr name st

/-- A row is always written: `strip_empty` of its nodes is one `tr` with the marker and the stripped
    nodes of its cells. -/
theorem C14_row_kept (cfg : Cfg) (hdr hh : Bool) (cells : List Elem) (st st' : ConvState)
    (nodes : List Node) (h : visit cfg hdr (.row hh cells) st = .ok (nodes, st')) :
    ∃ ns, visitAll cfg hdr cells st = .ok (ns, st') ∧
      stripEmpty nodes = [el S!"tr" [] (.forceWrite :: stripEmpty ns)] :=
  c14_row_stripped cfg hdr hh cells st st' nodes h

/-- A cell is always written: one `th`/`td` with the marker and the stripped nodes of its content. -/
theorem C14_cell_kept (cfg : Cfg) (hdr : Bool) (c r : Nat) (vm : Bool) (cs : List Elem)
    (st st' : ConvState) (nodes : List Node) (h : visit cfg hdr (.cell c r vm cs) st = .ok (nodes, st')) :
    ∃ ns, visitAll cfg hdr cs st = .ok (ns, st') ∧
      stripEmpty nodes =
        [el (if hdr then S!"th" else S!"td") (cellAttrs c r) (.forceWrite :: stripEmpty ns)] :=
  c14_cell_stripped cfg hdr c r vm cs st st' nodes h

/-- Table structure survives `strip_empty`.  For a table (children: rows of cells) not mapped to `!`
    whose conversion succeeds, the stripped nodes are the whole table path around: the force-write marker,
    then the `tr`s (no leading header row), or `thead` with the `tr`s of the leading header rows followed —
    only if there is a non-header row — by `tbody` with the other `tr`s; one `tr` per row, one `th`/`td`
    per cell, in order (`c09_rowRel`, `c09_cellRel`), whether or not anything has content. -/
theorem C14_table_structure_kept (cfg : Cfg) (hdr : Bool) (sid sname : Option Str) (rows : List Elem)
    (es : List Tag) (s s' : ConvState) (nodes : List Node)
    (hrows : rows.all (fun r => isRow r && (rowCells r).all isCell) = true)
    (hpath : c01_path cfg (.table sid sname) (.elements [pathElem S!"table" true]) = .elements es)
    (hrun : visit cfg hdr (.table sid sname rows) s = .ok (nodes, s')) :
    ∃ headNs bodyNs,
      stripEmpty nodes = wrapElems es (.forceWrite ::
        (if bodyIndex rows = 0 then bodyNs
         else el S!"thead" [] headNs ::
           (if (rows.drop (bodyIndex rows)).isEmpty then [] else [el S!"tbody" [] bodyNs]))) ∧
      c09_Forall2 (c09_rowRel true) (rows.take (bodyIndex rows)) headNs ∧
      c09_Forall2 (c09_rowRel false) (rows.drop (bodyIndex rows)) bodyNs :=
  c14_table_structure_kept cfg hdr sid sname rows es s s' nodes hrows hpath hrun

example : ∃ st', visit {} false (.row false [.cell 1 1 false []]) {} =
    .ok ([el S!"tr" [] [.forceWrite, el S!"td" [] [.forceWrite]]], st') := ⟨_, rfl⟩
example : ∃ st', visit {} true (.cell 2 1 false [.paragraph {} []]) {} =
    .ok ([el S!"th" [(S!"colspan", S!"2")] [.forceWrite, .elem (pathElem S!"p" true) []]], st') := ⟨_, rfl⟩
example : ((visit {} true (.cell 2 1 false [.paragraph {} []]) {}).toOption.map fun r => stripEmpty r.1) =
    some [el S!"th" [(S!"colspan", S!"2")] [.forceWrite]] := by rfl

private def c14_tbl : List Elem := [.row true [.cell 1 1 false []], .row false [.cell 1 1 false [], .cell 2 1 false []]]
example : c14_tbl.all (fun r => isRow r && (rowCells r).all isCell) = true := by decide
example : c01_path {} (.table none none) (.elements [pathElem S!"table" true])
    = .elements [pathElem S!"table" true] := by rfl
example : ∃ st', visit {} false (.table none none c14_tbl) {} = .ok ([el S!"table" [] [.forceWrite,
    el S!"thead" [] [el S!"tr" [] [.forceWrite, el S!"th" [] [.forceWrite]]],
    el S!"tbody" [] [el S!"tr" [] [.forceWrite, el S!"td" [] [.forceWrite],
      el S!"td" [(S!"colspan", S!"2")] [.forceWrite]]]]], st') := ⟨_, rfl⟩
/-- a table of header rows only: the empty `tbody` is the one thing that goes (library: the same,
    `<table><thead><tr><th></th></tr></thead></table>`) -/
example : ((visit {} false (.table none none [.row true [.cell 1 1 false []]]) {}).toOption.map
      fun r => stripEmpty r.1) =
    some [el S!"table" [] [.forceWrite, el S!"thead" [] [el S!"tr" [] [.forceWrite, el S!"th" [] [.forceWrite]]]]] := by
  rfl

/-- A checkbox yields one void `input` element, kept unchanged. -/
theorem C14_checkbox_kept (cfg : Cfg) (hdr : Bool) (c : Bool) (st : ConvState) :
    ∃ nodes, visit cfg hdr (.checkbox c) st = .ok (nodes, st) ∧
      nodes = [el S!"input" ([(S!"type", S!"checkbox")] ++ (if c then [(S!"checked", S!"checked")] else [])) []] ∧
      stripEmpty nodes = nodes :=
  c14_checkbox_stripped cfg hdr c st

/-- A line break without a `br` mapping yields one fresh void `br`, kept unchanged. -/
theorem C14_line_break_kept (cfg : Cfg) (hdr : Bool) (st : ConvState)
    (hf : findPath cfg (.brk S!"line") = none) :
    visit cfg hdr (.brk S!"line") st = .ok ([.elem (pathElem S!"br" true) []], st) ∧
    stripEmpty [.elem (pathElem S!"br" true) []] = [.elem (pathElem S!"br" true) []] :=
  c14_line_break_stripped cfg hdr st hf
example : findPath {} (.brk S!"line") = none := by rfl

/-- A break mapped to a path yields that path around nothing; it is written iff the innermost element of
    the path is void (`br[type='page'] => hr` works, `br[type='page'] => div.page` writes nothing — the
    library agrees on both). -/
theorem C14_mapped_break (cfg : Cfg) (hdr : Bool) (ty : Str) (es : List Tag) (st : ConvState)
    (hf : findPath cfg (.brk ty) = some (.elements es)) :
    visit cfg hdr (.brk ty) st = .ok (wrapElems es [], st) ∧
    stripEmpty (wrapElems es []) = if endsVoid es = true then wrapElems es [] else [] :=
  c14_mapped_break_stripped cfg hdr ty es st hf
private def c14_cfgBrk : Cfg := { styleMap := [{ matcher := .brk S!"page", path := .elements [pathElem S!"hr" false] },
  { matcher := .brk S!"column", path := .elements [{ name := S!"div", attrs := [(S!"class", S!"c")], collapsible := true }] }] }
example : findPath c14_cfgBrk (.brk S!"page") = some (.elements [pathElem S!"hr" false]) := by rfl
example : endsVoid [pathElem S!"hr" false] = true := by decide
example : c14_weight c14_cfgBrk (.brk S!"page") = .full ∧ c14_weight c14_cfgBrk (.brk S!"column") = .hollow := by
  decide

/-- An image yields nothing (unreadable linked image: a warning) or exactly one `img`
    (`c14_imageShown`), and `strip_empty` keeps whatever it yields. -/
theorem C14_image_kept (cfg : Cfg) (hdr : Bool) (i : ImageProps) (st st' : ConvState) (nodes : List Node)
    (h : visit cfg hdr (.image i) st = .ok (nodes, st')) :
    stripEmpty nodes = nodes ∧ nodes.length = if c14_imageShown cfg i then 1 else 0 :=
  c14_image_stripped cfg hdr i st st' nodes h
private def c14_cfgImg : Cfg := { archive := [(S!"word/media/i.png", [1, 2])] }
set_option maxRecDepth 4000 in
example : ∃ st', visit c14_cfgImg false (.image { src := .embedded S!"word/media/i.png", contentType := some S!"image/png" }) {} =
    .ok ([el S!"img" [(S!"src", S!"data:image/png;base64,AQI=")] []], st') := ⟨_, rfl⟩
example : ∃ st', visit c14_cfgImg false (.image { src := .linked S!"x.png" }) {} = .ok ([], st') := ⟨_, rfl⟩

/-! ### paragraphs -/

/-- The stripped nodes of a paragraph not mapped to `!` (path `es`: the first matching mapping, or the
    fresh `p`), in terms of the nodes `content` of its children.  Default setting: the whole path around
    the stripped content if the content has content (or there is no content at all and the innermost
    element of the path is void), otherwise nothing.  `ignore_empty_paragraphs=False`: always the whole
    path around the marker and the stripped content. -/
theorem C14_paragraph_stripped (cfg : Cfg) (hdr : Bool) (p : ParaProps) (cs : List Elem) (es : List Tag)
    (st st' : ConvState) (nodes : List Node)
    (hp : c01_path cfg (.paragraph p) (.elements [pathElem S!"p" true]) = .elements es)
    (h : visit cfg hdr (.paragraph p cs) st = .ok (nodes, st')) :
    ∃ content,
      visitAll cfg hdr cs (c01_warnState cfg (.paragraph p) S!"paragraph" p.styleId p.styleName st)
        = .ok (content, st') ∧
      stripEmpty nodes =
        if cfg.ignoreEmpty then
          (if (anyContent content || (content.isEmpty && endsVoid es)) = true
           then wrapElems es (stripEmpty content) else [])
        else wrapElems es (.forceWrite :: stripEmpty content) :=
  c14_paragraph_stripped cfg hdr p cs es st st' nodes hp h

/-- With `ignore_empty_paragraphs=False` every paragraph that no `!` mapping drops — empty or not —
    yields its whole path (before `collapse`): `strip_empty` leaves `es` wrapped around the marker and the
    stripped content of the children. -/
theorem C14_keep_all_paragraphs (cfg : Cfg) (hdr : Bool) (p : ParaProps) (cs : List Elem) (es : List Tag)
    (st st' : ConvState) (nodes : List Node) (hi : cfg.ignoreEmpty = false)
    (hp : c01_path cfg (.paragraph p) (.elements [pathElem S!"p" true]) = .elements es)
    (h : visit cfg hdr (.paragraph p cs) st = .ok (nodes, st')) :
    ∃ content,
      visitAll cfg hdr cs (c01_warnState cfg (.paragraph p) S!"paragraph" p.styleId p.styleName st)
        = .ok (content, st') ∧
      stripEmpty nodes = wrapElems es (.forceWrite :: stripEmpty content) :=
  c14_keep_all_paragraphs cfg hdr p cs es st st' nodes hi hp h

/-- … in particular, for a non-empty path `t :: ts`, the stripped nodes are exactly one element, with the
    block tag `t`. -/
theorem C14_keep_all_paragraphs_block (cfg : Cfg) (hdr : Bool) (p : ParaProps) (cs : List Elem)
    (t : Tag) (ts : List Tag) (st st' : ConvState) (nodes : List Node) (hi : cfg.ignoreEmpty = false)
    (hp : c01_path cfg (.paragraph p) (.elements [pathElem S!"p" true]) = .elements (t :: ts))
    (h : visit cfg hdr (.paragraph p cs) st = .ok (nodes, st')) :
    ∃ kids, stripEmpty nodes = [.elem t kids] :=
  c14_keep_all_paragraphs_head cfg hdr p cs t ts st st' nodes hi hp h

/-- Default setting: a paragraph whose children leave nothing with content disappears with its whole
    path — except when the children yield no node at all and the innermost element of the path is void
    (`p[style-name='S'] => hr` turns an empty paragraph into `<hr />`; the library does the same). -/
theorem C14_empty_paragraph_dropped (cfg : Cfg) (hdr : Bool) (p : ParaProps) (cs : List Elem) (es : List Tag)
    (st st' : ConvState) (nodes content : List Node) (hi : cfg.ignoreEmpty = true)
    (hp : c01_path cfg (.paragraph p) (.elements [pathElem S!"p" true]) = .elements es)
    (h : visit cfg hdr (.paragraph p cs) st = .ok (nodes, st'))
    (hc : visitAll cfg hdr cs (c01_warnState cfg (.paragraph p) S!"paragraph" p.styleId p.styleName st)
        = .ok (content, st'))
    (hempty : anyContent content = false) (hvoid : (content.isEmpty && endsVoid es) = false) :
    stripEmpty nodes = [] :=
  c14_empty_paragraph_dropped cfg hdr p cs es st st' nodes content hi hp h hc hempty hvoid

/-- Both settings: a paragraph with content below is written with its whole path around the stripped
    content (preceded by the marker under `ignore_empty_paragraphs=False`). -/
theorem C14_contentful_paragraph_kept (cfg : Cfg) (hdr : Bool) (p : ParaProps) (cs : List Elem)
    (es : List Tag) (st st' : ConvState) (nodes content : List Node)
    (hp : c01_path cfg (.paragraph p) (.elements [pathElem S!"p" true]) = .elements es)
    (h : visit cfg hdr (.paragraph p cs) st = .ok (nodes, st'))
    (hc : visitAll cfg hdr cs (c01_warnState cfg (.paragraph p) S!"paragraph" p.styleId p.styleName st)
        = .ok (content, st'))
    (hfull : anyContent content = true) :
    stripEmpty nodes =
      wrapElems es ((if cfg.ignoreEmpty then [] else [.forceWrite]) ++ stripEmpty content) :=
  c14_contentful_paragraph_kept cfg hdr p cs es st st' nodes content hp h hc hfull

/-! examples -/
private def c14_cfgKeep : Cfg := {
  styleMap := [{ matcher := .paragraph (some S!"Q") none none,
                 path := .elements [pathElem S!"blockquote" false, pathElem S!"p" true] }],
  ignoreEmpty := false }
private def c14_cfgDrop : Cfg := { c14_cfgKeep with ignoreEmpty := true }
private def c14_q : ParaProps := { styleId := some S!"Q" }
example : c14_cfgKeep.ignoreEmpty = false := by rfl
example : c01_path c14_cfgKeep (.paragraph c14_q) (.elements [pathElem S!"p" true])
    = .elements [pathElem S!"blockquote" false, pathElem S!"p" true] := by rfl
example : ∃ st', visit c14_cfgKeep false (.paragraph c14_q [c14_emptyRun]) {} =
    .ok ([.elem (pathElem S!"blockquote" false) [.elem (pathElem S!"p" true) [.forceWrite,
      .elem (pathElem S!"strong" false) [.elem (pathElem S!"em" false) [.text []]]]]], st') := ⟨_, rfl⟩
example : ((visit c14_cfgKeep false (.paragraph c14_q [c14_emptyRun]) {}).toOption.map fun r => stripEmpty r.1) =
    some [.elem (pathElem S!"blockquote" false) [.elem (pathElem S!"p" true) [.forceWrite]]] := by rfl
example : c14_cfgDrop.ignoreEmpty = true := by rfl
example : c01_path c14_cfgDrop (.paragraph c14_q) (.elements [pathElem S!"p" true])
    = .elements [pathElem S!"blockquote" false, pathElem S!"p" true] := by rfl
example : ∃ st', visit c14_cfgDrop false (.paragraph c14_q [c14_emptyRun]) {} =
    .ok ([.elem (pathElem S!"blockquote" false) [.elem (pathElem S!"p" true)
      [.elem (pathElem S!"strong" false) [.elem (pathElem S!"em" false) [.text []]]]]], st') := ⟨_, rfl⟩
example : ∃ st', visitAll c14_cfgDrop false [c14_emptyRun]
      (c01_warnState c14_cfgDrop (.paragraph c14_q) S!"paragraph" c14_q.styleId c14_q.styleName {}) =
    .ok ([.elem (pathElem S!"strong" false) [.elem (pathElem S!"em" false) [.text []]]], st') := ⟨_, rfl⟩
example : anyContent [.elem (pathElem S!"strong" false) [.elem (pathElem S!"em" false) [.text []]]] = false := by
  decide
example : ([Node.elem (pathElem S!"strong" false) [.elem (pathElem S!"em" false) [.text []]]].isEmpty
    && endsVoid [pathElem S!"blockquote" false, pathElem S!"p" true]) = false := by decide
example : ((visit c14_cfgDrop false (.paragraph c14_q [c14_emptyRun]) {}).toOption.map fun r => stripEmpty r.1) =
    some [] := by rfl
example : ∃ st', visitAll c14_cfgDrop false [.run { bold := true } [.text S!"x"], c14_emptyRun]
      (c01_warnState c14_cfgDrop (.paragraph c14_q) S!"paragraph" c14_q.styleId c14_q.styleName {}) =
    .ok ([.elem (pathElem S!"strong" false) [.text S!"x"],
          .elem (pathElem S!"strong" false) [.elem (pathElem S!"em" false) [.text []]]], st') := ⟨_, rfl⟩
example : anyContent [.elem (pathElem S!"strong" false) [.text S!"x"],
    .elem (pathElem S!"strong" false) [.elem (pathElem S!"em" false) [.text []]]] = true := by decide
example : ((visit c14_cfgDrop false (.paragraph c14_q [.run { bold := true } [.text S!"x"], c14_emptyRun]) {}).toOption.map
      fun r => stripEmpty r.1) =
    some [.elem (pathElem S!"blockquote" false) [.elem (pathElem S!"p" true)
      [.elem (pathElem S!"strong" false) [.text S!"x"]]]] := by rfl
/-- the void-path exception is real: an empty paragraph mapped to `hr` is written as `<hr />` -/
example : ((visit { styleMap := [{ matcher := .paragraph none none none, path := .elements [pathElem S!"hr" false] }] }
      false (.paragraph {} []) {}).toOption.map fun r => stripEmpty r.1) = some [.elem (pathElem S!"hr" false) []] := by
  rfl
/-- KNOWN DESIGN FACT (why `C14_keep_all_paragraphs` is stated before `collapse`): two adjacent empty
    paragraphs mapped to a NON-fresh element are kept by `strip_empty` but then merged by `collapse` into
    one element (library: `p => p`, `ignore_empty_paragraphs=False` gives `<p></p>` for two paragraphs). -/
example : ((convertDoc {
        styleMap := [{ matcher := .paragraph none none none, path := .elements [pathElem S!"p" false] }],
        ignoreEmpty := false }
      { children := [.paragraph {} [], .paragraph {} []] }).toOption.map
        fun r => (stripEmpty r.nodes, collapse (stripEmpty r.nodes))) =
    some ([.elem (pathElem S!"p" false) [.forceWrite], .elem (pathElem S!"p" false) [.forceWrite]],
          [.elem (pathElem S!"p" false) [.forceWrite, .forceWrite]]) := by rfl

/-! ### runs and hyperlinks -/

/-- A run none of whose paths is `!`: its formatting elements (as one path, `c14_tags`, outermost first)
    around the stripped content of the children if that has content (or there are no nodes at all and the
    innermost element is void), otherwise nothing: an emptied run disappears with all its wrappers. -/
theorem C14_run_stripped (cfg : Cfg) (hdr : Bool) (r : RunProps) (cs : List Elem)
    (st st' : ConvState) (nodes : List Node)
    (hno : (c01_runPaths cfg r).any HtmlPath.isIgnore = false)
    (h : visit cfg hdr (.run r cs) st = .ok (nodes, st')) :
    ∃ content,
      visitAll cfg hdr cs (c01_warnState cfg (.run r.styleId r.styleName) S!"run" r.styleId r.styleName st)
        = .ok (content, st') ∧
      stripEmpty nodes =
        if (anyContent content || (content.isEmpty && endsVoid (c14_tags (c01_runPaths cfg r)))) = true
        then wrapElems (c14_tags (c01_runPaths cfg r)) (stripEmpty content) else [] :=
  c14_run_stripped cfg hdr r cs st st' nodes hno h

/-- a run whose children leave nothing with content disappears -/
theorem C14_empty_run_dropped (cfg : Cfg) (hdr : Bool) (r : RunProps) (cs : List Elem)
    (st st' : ConvState) (nodes content : List Node)
    (hno : (c01_runPaths cfg r).any HtmlPath.isIgnore = false)
    (h : visit cfg hdr (.run r cs) st = .ok (nodes, st'))
    (hc : visitAll cfg hdr cs (c01_warnState cfg (.run r.styleId r.styleName) S!"run" r.styleId r.styleName st)
        = .ok (content, st'))
    (hempty : anyContent content = false)
    (hvoid : (content.isEmpty && endsVoid (c14_tags (c01_runPaths cfg r))) = false) :
    stripEmpty nodes = [] :=
  c14_empty_run_dropped cfg hdr r cs st st' nodes content hno h hc hempty hvoid

example : (c01_runPaths {} { bold := true, italic := true }).any HtmlPath.isIgnore = false := by decide
example : c14_tags (c01_runPaths {} { bold := true, italic := true })
    = [pathElem S!"strong" false, pathElem S!"em" false] := by decide
example : ∃ st', visit {} false c14_emptyRun {} =
    .ok ([.elem (pathElem S!"strong" false) [.elem (pathElem S!"em" false) [.text []]]], st') := ⟨_, rfl⟩
example : ∃ st', visitAll {} false [.text []]
    (c01_warnState {} (.run none none) S!"run" none none {}) = .ok ([.text []], st') := ⟨_, rfl⟩
example : anyContent [.text []] = false ∧
    ([Node.text []].isEmpty && endsVoid (c14_tags (c01_runPaths {} { bold := true, italic := true }))) = false := by
  decide

/-- A hyperlink: the `a` element around the stripped content if that has content, otherwise nothing. -/
theorem C14_hyperlink_stripped (cfg : Cfg) (hdr : Bool) (l : LinkProps) (cs : List Elem)
    (st st' : ConvState) (nodes : List Node)
    (h : visit cfg hdr (.hyperlink l cs) st = .ok (nodes, st')) :
    ∃ content, visitAll cfg hdr cs st = .ok (content, st') ∧
      stripEmpty nodes =
        if anyContent content = true then [.elem (c14_linkTag cfg l) (stripEmpty content)] else [] :=
  c14_hyperlink_stripped cfg hdr l cs st st' nodes h
example : ∃ st', visit {} false (.hyperlink { anchor := some S!"t" } [c14_emptyRun]) {} =
    .ok ([.elem (c14_linkTag {} { anchor := some S!"t" })
      [.elem (pathElem S!"strong" false) [.elem (pathElem S!"em" false) [.text []]]]], st') := ⟨_, rfl⟩
example : ((visit {} false (.hyperlink { anchor := some S!"t" } [c14_emptyRun]) {}).toOption.map
      fun r => stripEmpty r.1) = some [] := by rfl
example : ((visit {} false (.hyperlink { anchor := some S!"t" } [c14_emptyRun, .run {} [.tab]]) {}).toOption.map
      fun r => stripEmpty r.1) = some [.elem (c14_linkTag {} { anchor := some S!"t" }) [.text S!"\t"]] := by rfl

/-! ### whole documents -/

/-- No empty element in the rendered forest of any successfully converted document. -/
theorem C14_document_no_empty_element (cfg : Cfg) (d : Document) (r : ConvResult)
    (_h : convertDoc cfg d = .ok r) : allContentL (collapse (stripEmpty r.nodes)) = true :=
  C14_rendered_no_empty_element r.nodes

/-- The stripped output of a document is, in order, what `strip_empty` leaves of the nodes of each body
    element (`c14_partRel`: the nodes of a successful visit of that element — so each part is empty iff the
    element's weight is not `full`, `C14_dropped_iff`), followed by the notes and comments lists. -/
theorem C14_document_parts (cfg : Cfg) (d : Document) (r : ConvResult) (h : convertDoc cfg d = .ok r) :
    ∃ parts noteNodes commentNodes,
      c09_Forall2 (c14_partRel { cfg with comments := d.comments } false) d.children parts ∧
      r.nodes = parts.flatten ++ [el S!"ol" [] noteNodes, el S!"dl" [] commentNodes] ∧
      stripEmpty r.nodes =
        c14_stripParts parts ++ stripEmpty [el S!"ol" [] noteNodes, el S!"dl" [] commentNodes] :=
  c14_document_parts cfg d r h

/-- The "kept" direction for documents.  If the body consists of paragraphs and tables, each mapped to
    `!` or to a non-empty path (`c14_isBlock`), then the stripped output starts with exactly one element
    per block of weight `full` — i.e. per paragraph not mapped to `!` that has content below (or any such
    paragraph under `ignore_empty_paragraphs=False`) and per table not mapped to `!` — in document order,
    each carrying the first tag of its block's path (`c14_heads`); nothing else precedes the notes and
    comments lists. -/
theorem C14_document_blocks (cfg : Cfg) (d : Document) (r : ConvResult) (h : convertDoc cfg d = .ok r)
    (hblocks : d.children.all (c14_isBlock { cfg with comments := d.comments }) = true) :
    ∃ blocks noteNodes commentNodes,
      stripEmpty r.nodes = blocks ++ stripEmpty [el S!"ol" [] noteNodes, el S!"dl" [] commentNodes] ∧
      c09_Forall2 c14_hasTag (c14_heads { cfg with comments := d.comments } d.children) blocks :=
  c14_document_blocks cfg d r h hblocks

/-- … and when those first tags are all fresh (as with the default `p` / `table`), `collapse` merges none
    of them: the rendered forest, too, has exactly one top-level element per written block, in order. -/
theorem C14_document_blocks_rendered (cfg : Cfg) (d : Document) (r : ConvResult)
    (h : convertDoc cfg d = .ok r)
    (hblocks : d.children.all (c14_isBlock { cfg with comments := d.comments }) = true)
    (hfresh : (c14_heads { cfg with comments := d.comments } d.children).all (fun t => !t.collapsible) = true) :
    ∃ blocks noteNodes commentNodes,
      collapse (stripEmpty r.nodes) =
        blocks ++ collapse (stripEmpty [el S!"ol" [] noteNodes, el S!"dl" [] commentNodes]) ∧
      c09_Forall2 c14_hasTag (c14_heads { cfg with comments := d.comments } d.children) blocks :=
  c14_document_blocks_rendered cfg d r h hblocks hfresh

/-! example: empty paragraph, contentful paragraph, `!`-mapped paragraph, empty table, paragraph with a
    bookmark only -/
private def c14_cfgDoc : Cfg := { styleMap := [{ matcher := .paragraph (some S!"X") none none, path := .ignore }] }
private def c14_doc : Document := { children := [
  .paragraph {} [c14_emptyRun],
  .paragraph {} [.run {} [.text S!"a"]],
  .paragraph { styleId := some S!"X" } [.run {} [.text S!"dropped"]],
  .table none none [],
  .paragraph {} [.bookmark (some S!"b")]] }
example : ∃ r, convertDoc c14_cfgDoc c14_doc = .ok r := ⟨_, rfl⟩
example : c14_doc.children.all (c14_isBlock { c14_cfgDoc with comments := c14_doc.comments }) = true := by decide
example : c14_heads { c14_cfgDoc with comments := c14_doc.comments } c14_doc.children
    = [pathElem S!"p" true, pathElem S!"table" true, pathElem S!"p" true] := by decide
example : (c14_heads { c14_cfgDoc with comments := c14_doc.comments } c14_doc.children).all
    (fun t => !t.collapsible) = true := by decide
example : ((convertDoc c14_cfgDoc c14_doc).toOption.map fun r => collapse (stripEmpty r.nodes)) =
    some [.elem (pathElem S!"p" true) [.text S!"a"], .elem (pathElem S!"table" true) [.forceWrite],
          .elem (pathElem S!"p" true) [cel S!"a" [(S!"id", S!"b")] [.forceWrite]]] := by rfl

/-- The tables of the library that this property's theorems consume (regenerated from /repo's source on this run) still have the
    content the model was validated against: the void tag names.  An edit of one of them in the library changes model and code
    alike; it is this theorem that then no longer checks (`Proofs/Pins.lean`). -/
theorem C14_tables_as_validated :
    (Generated.voidTagNames = pin_voidTagNames) :=
  pins_voidTagNames

end Mammoth
