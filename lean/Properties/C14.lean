/-
  C14 — empty content is dropped by default and kept on request, never the reverse.
-/
import Proofs.Strip
import Proofs.Stable
namespace Mammoth

/-- `strip_empty` removes exactly the nodes without content (recursively): a node survives iff it
    `hasContent`, i.e. non-empty text, a force-write marker, a childless void element, or an element
    with a contentful descendant chain — so an element disappears iff it has no content, together
    with the ancestors it leaves empty, and nothing contentful is removed. -/
theorem C14_strip_is_prune (ns : List Node) : stripEmpty ns = prune ns := stripList_eq ns

/-- after stripping, every remaining element at every depth has content -/
theorem C14_no_empty_element (ns : List Node) : allContentL (stripEmpty ns) = true := by
  rw [C14_strip_is_prune]; exact allContentL_prune ns

/-- a contentful top-level node is kept (as its pruned self), in place -/
theorem C14_contentful_kept (n : Node) (h : hasContent n = true) : stripEmpty [n] = [pruneNode n] := by
  simp [stripEmpty, stripList, stripNode_eq, h]

/-- a content-free node vanishes -/
theorem C14_empty_dropped (n : Node) (h : hasContent n = false) : stripEmpty [n] = [] := by
  simp [stripEmpty, stripList, stripNode_eq, h]

/-- stripping loses no text -/
theorem C14_text_kept (ns : List Node) : textOfL (stripEmpty ns) = textOfL ns := text_stripEmpty ns

/-- the force-write marker keeps its element: this is what `ignore_empty_paragraphs=False`, bookmarks,
    tables, rows and cells rely on -/
theorem C14_force_write_keeps (t : Tag) (cs : List Node) :
    hasContent (.elem t (.forceWrite :: cs)) = true := by
  simp [hasContent, anyContent]

/-! non-vacuity -/
private def pT : Tag := { name := S!"p" }
private def brT : Tag := { name := S!"br" }
example : stripEmpty [.elem pT [.elem pT [.text []]], .elem pT [.elem brT []], .elem brT [.text []]]
    = [.elem pT [.elem brT []]] := by rfl
example : hasContent (.elem pT [.elem pT [.text []]]) = false := by rfl

end Mammoth
