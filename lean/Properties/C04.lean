/-
  C04 — adjacent output elements merge exactly as the freshness rules say.
  Property theorems only; helper lemmas live in Proofs/.
-/
import Proofs.Stable
import Proofs.C04_Literal
import Proofs.C04_Text
import Proofs.C04_Chains
import Proofs.C04_Top
namespace Mammoth

/-- the match test of the code: the earlier tag's name is one of the later tag's names and the
    attribute dictionaries are equal -/
theorem C04_isMatch_iff (first second : Tag) :
    isMatch first second = true ↔ first.name ∈ second.names ∧ first.attrs = second.attrs := by
  simp [isMatch]

/-- `collapse` is a left fold that adds each (recursively collapsed) node to what was collapsed so far -/
theorem C04_collapse_snoc (xs : List Node) (n : Node) :
    collapse (xs ++ [n]) = addC (collapse xs) (collapseNode n) := by
  have key : ∀ (acc ys zs : List Node), collapseFrom acc (ys ++ zs) = collapseFrom (collapseFrom acc ys) zs := by
    intro acc ys zs
    induction ys generalizing acc with
    | nil => simp [collapseFrom]
    | cons y ys ih => simp [collapseFrom, ih]
  simp [collapse, key, collapseFrom]

/-- THE MERGE RULE.  A later element is merged into the element before it iff it is not `:fresh`,
    the earlier tag name is among its names and the attributes are identical; merging appends its
    separator text (if non-empty) and then its children under the same rule, keeping the earlier tag;
    otherwise it is appended unchanged. -/
theorem C04_merge_rule (acc : List Node) (t : Tag) (cs : List Node) :
    addC acc (.elem t cs) =
      match acc.getLast? with
      | some (.elem lt lcs) =>
        if t.collapsible = true ∧ lt.name ∈ t.names ∧ lt.attrs = t.attrs
        then acc.dropLast ++ [.elem lt (addAllC (lcs ++ sepText t) cs)]
        else acc ++ [.elem t cs]
      | _ => acc ++ [.elem t cs] := by
  cases hl : acc.getLast? with
  | none => simp [addC, hl]
  | some l =>
    cases l with
    | text s => simp [addC, hl]
    | forceWrite => simp [addC, hl]
    | elem lt lcs =>
      have hm := C04_isMatch_iff lt t
      by_cases hc : t.collapsible = true
      · by_cases hmm : isMatch lt t = true
        · have := hm.mp hmm
          simp [addC, hl, hc, hmm, this]
        · have : ¬ (lt.name ∈ t.names ∧ lt.attrs = t.attrs) := fun h => hmm (hm.mpr h)
          simp only [Bool.not_eq_true] at hmm
          simp [addC, hl, hc, hmm, this]
      · simp only [Bool.not_eq_true] at hc
        simp [addC, hl, hc]

/-- text and force-write nodes never merge -/
theorem C04_text_never_merges (acc : List Node) (s : Str) : addC acc (.text s) = acc ++ [.text s] :=
  addC_text acc s

/-- merging never loses, duplicates or reorders text (no separator involved: then the text is
    exactly the same; separators, when present, are the only inserted text — see
    `C04_merge_rule`) -/
theorem C04_text_preserved (ns : List Node) (h : noSepL ns = true) :
    textOfL (collapse ns) = textOfL ns := text_collapse ns h

/-- the result contains no adjacent pair that the rule would merge, at any depth -/
theorem C04_result_stable (ns : List Node) : stableL (collapse ns) = true := stable_collapse ns

/-- a forest in which the rule has nothing to merge is left exactly as it is -/
theorem C04_stable_fixed (ns : List Node) (h : stableL ns = true) : collapse ns = ns :=
  collapse_of_stable ns h

/-- applying the merge twice gives the same result as applying it once -/
theorem C04_idempotent (ns : List Node) : collapse (collapse ns) = collapse ns := collapse_idem ns

/-! non-vacuity: a concrete forest with separators, alternatives and nested merges -/
private def pTag : Tag := { name := S!"p", collapsible := true, separator := some S!"\n" }
private def ulTag : Tag := { name := S!"ul", alts := [S!"ol"], collapsible := true }
private def olFresh : Tag := { name := S!"ol" }
example : collapse [.elem pTag [.text S!"a"], .elem pTag [.text S!"b"]]
    = [.elem pTag [.text S!"a", .text S!"\n", .text S!"b"]] := by rfl
example : collapse [.elem olFresh [.text S!"a"], .elem ulTag [.text S!"b"]]
    = [.elem olFresh [.text S!"a", .text S!"b"]] := by rfl
example : stableL [.elem olFresh [], .elem olFresh []] = true := by rfl
example : noSepL [.elem olFresh [.text S!"a"], .elem ulTag [.text S!"b"]] = true := by rfl

/-! ### the literal algorithm of the code

`collapseAllPy` / `addPy` / `collapseNodePy` transcribe `collapse`, `_collapsing_add`, `_collapse_node` of
mammoth/html/__init__.py statement by statement: when a node is merged into its predecessor, its
children — which `_collapse_node` has just collapsed — are passed through `_collapsing_add` again, so
they are collapsed a second time.  The theorems above are about the structural `collapse`, which adds
the collapsed children without collapsing them again.  The two agree because collapsing is idempotent
(`C04_stable_fixed` is used on the collapsed children); the fuel of the transcription only has to
exceed three times the nesting depth (three mutually recursive calls per level). -/

/-- THE LITERAL ALGORITHM COMPUTES `collapse`: for EVERY forest `ns` and every fuel with
    `3 * depth ≤ fuel + 1` (any fuel for a forest of text nodes, `3 * depth - 1` otherwise). -/
theorem C04_literal_algorithm (ns : List Node) (fuel : Nat) (h : 3 * nodeDepthL ns ≤ fuel + 1) :
    collapseAllPy fuel [] ns = collapse ns := collapseAllPy_eq fuel [] ns h

/-- the same with an arbitrary list `acc` of already collapsed siblings (no hypothesis on `acc` is needed) -/
theorem C04_literal_algorithm_acc (acc ns : List Node) (fuel : Nat) (h : 3 * nodeDepthL ns ≤ fuel + 1) :
    collapseAllPy fuel acc ns = collapseFrom acc ns := collapseAllPy_eq fuel acc ns h

/-- `_collapse_node` is `collapseNode` -/
theorem C04_literal_node (n : Node) (fuel : Nat) (h : 3 * nodeDepth n ≤ fuel + 3) :
    collapseNodePy fuel n = collapseNode n := collapseNodePy_eq fuel n h

/-- `_collapsing_add(collapsed, node)` collapses `node` and adds it by the merge rule `addC`
    (`C04_merge_rule`), whatever `collapsed` is -/
theorem C04_literal_add (acc : List Node) (n : Node) (fuel : Nat) (h : 3 * nodeDepth n ≤ fuel + 2) :
    addPy fuel acc n = addC acc (collapseNode n) := addPy_eq fuel acc n h

/-- merging never deepens the forest (this is why a bound on the input's depth is enough fuel for
    the second pass over the collapsed children) -/
theorem C04_depth_le (ns : List Node) : nodeDepthL (collapse ns) ≤ nodeDepthL ns := by
  simpa [collapse] using nodeDepthL_collapseFrom [] ns

/-! non-vacuity and sharpness of the fuel bound: a forest of depth 2 with nested merges; fuel 5 is enough,
    and with fuel `3 * depth - 2` the transcription stops early (depth 1, fuel 1: nothing is merged) -/
private def ulC : Tag := { name := S!"ul", collapsible := true }
private def litForest : List Node :=
  [.elem pTag [.elem ulC [.text S!"a"], .elem ulC [.text S!"b"]], .elem pTag [.elem ulC [.text S!"c"]]]
example : 3 * nodeDepthL litForest ≤ 5 + 1 := by decide
example : collapseAllPy 5 [] litForest = collapse litForest := C04_literal_algorithm _ _ (by decide)
example : collapse litForest =
    [.elem pTag [.elem ulC [.text S!"a", .text S!"b"], .text S!"\n", .elem ulC [.text S!"c"]]] := by rfl
example : 3 * nodeDepth (.elem pTag litForest) ≤ 6 + 3 ∧ 3 * nodeDepth (.elem pTag litForest) ≤ 7 + 2 := by decide
example : collapseAllPy 1 [] [.elem ulC [.text S!"a"], .elem ulC [.text S!"b"]]
    = [.elem ulC [.text S!"a"], .elem ulC [.text S!"b"]] := by simp [collapseAllPy, addPy]
example : collapse [.elem ulC [.text S!"a"], .elem ulC [.text S!"b"]] = [.elem ulC [.text S!"a", .text S!"b"]] := by rfl

/-! ### text, separators included (no `noSepL` hypothesis)

`IsDecoL ns s` (Proofs/C04_Text.lean) is defined by recursion over the forest `ns` alone: `s` is the text of
`ns`, leaf by leaf in order, where in front of the content of an element there may stand that element's own
`:separator` string, and only if the element is collapsible (not `:fresh`). -/

/-- TEXT WITH SEPARATORS, every forest: the text of `collapse ns` is the text of `ns` with separators
    inserted, each directly in front of the content of the element that carries it, and only for collapsible
    elements.  Excluded: losing, duplicating or reordering any character of the input text; inserting
    anything but separators; inserting an element's separator anywhere but directly in front of that
    element's content, or more than once; inserting the separator of a `:fresh` element.  Not said here:
    WHICH collapsible elements get their separator (those that are merged: `C04_merge_rule`; their total
    length is fixed by `C04_text_conservation`). -/
theorem C04_text_with_separators (ns : List Node) : IsDecoL ns (textOfL (collapse ns)) := isDecoL_collapse ns

/-- nothing is lost, duplicated or reordered, separators or not: the input text is a subsequence of the
    output text, for EVERY forest -/
theorem C04_text_sublist (ns : List Node) : (textOfL ns).Sublist (textOfL (collapse ns)) :=
  sublistL_of_isDecoL ns _ (isDecoL_collapse ns)

/-- CONSERVATION: (length of the text) + (total length of the non-empty separators of all elements present,
    `sepWeightL`) is the same before and after.  Every element that disappears by being merged leaves exactly
    its separator in the text, and nothing else changes the text length. -/
theorem C04_text_conservation (ns : List Node) :
    (textOfL (collapse ns)).length + sepWeightL (collapse ns) = (textOfL ns).length + sepWeightL ns :=
  mass_collapse ns

/-- so at most the separators of the forest are added -/
theorem C04_text_length_le (ns : List Node) :
    (textOfL (collapse ns)).length ≤ (textOfL ns).length + sepWeightL ns := by
  have := C04_text_conservation ns; omega

/-- the relation is tight: in a forest without separators the only "text with separators" is the text
    itself (so `C04_text_with_separators` contains `C04_text_preserved`) -/
theorem C04_deco_exact_noSep (ns : List Node) (s : Str) (h : IsDecoL ns s) (hn : noSepL ns = true) :
    s = textOfL ns := eq_of_isDecoL_noSep ns s h hn

/-! non-vacuity: with separators the text does change, by exactly the separator of the merged element -/
example : textOfL (collapse [.elem pTag [.text S!"a"], .elem pTag [.text S!"b"]]) = S!"a\nb" := by decide
example : sepWeightL [.elem pTag [.text S!"a"], .elem pTag [.text S!"b"]] = 2 ∧
    sepWeightL (collapse [.elem pTag [.text S!"a"], .elem pTag [.text S!"b"]]) = 1 := by decide
example : IsDecoL [.elem pTag [.text S!"a"], .elem pTag [.text S!"b"]] S!"a\nb" :=
  C04_text_with_separators [.elem pTag [.text S!"a"], .elem pTag [.text S!"b"]]

/-! ### leaves and their chains of enclosing tags

`leaves ns` (Proofs/C04_Chains.lean): the text nodes and force-write markers of the forest in document order,
each paired with the tags of its enclosing elements, outermost first.  `tagStep i o`: `o` has the attributes of
`i` and `o`'s name is `i`'s name or one of its `|` alternatives (what one merge does to the tag above a leaf).
`LeafEmb R Sep as bs`: `bs` is `as`, in order, every leaf node unchanged and its chain related position by
position by `R` (in particular of the same length), with extra leaves satisfying `Sep` inserted.
`SepIn ns n`: `n` is the separator text node of a collapsible tag occurring in `ns`. -/

/-- NEVER JOINS DIFFERENT ELEMENTS, every forest.  The leaves of `collapse ns` are the leaves of `ns`, in the
    same order and unchanged, plus separator text leaves; the chain of each leaf keeps its length, and at
    each position the output tag is reached from the input tag by finitely many merge steps (`TagReach`):
    in particular it has IDENTICAL ATTRIBUTES (`C04_reach_attrs`).  So no leaf is dropped, duplicated,
    reordered, moved to another depth, or put under an element with different attributes.
    Why `TagReach` and not a single step: see `C04_alternatives_not_transitive` below. -/
theorem C04_never_joins_different (ns : List Node) :
    LeafEmb TagReach (SepIn ns) (leaves ns) (leaves (collapse ns)) :=
  leaves_collapse_reach ns ns (allTagsL_tagsOfL ns)

/-- along merge steps the attributes never change -/
theorem C04_reach_attrs (i o : Tag) (h : TagReach i o) : o.attrs = i.attrs := h.attrs

/-- …and when the tag names of the forest are linked transitively (`namesTrans`: e.g. no alternatives at
    all, or `ul|ol` together with `ul`, `ol`), every position of every chain changes by AT MOST ONE merge
    step: the element above a leaf in the output has the attributes of the leaf's own ancestor at that depth
    and its name is that ancestor's name or one of its `|` alternatives. -/
theorem C04_chains_one_step (ns : List Node) (h : namesTrans (tagsOfL ns) = true) :
    LeafEmb tagStep (SepIn ns) (leaves ns) (leaves (collapse ns)) :=
  leaves_collapse_step ns ns (allTagsL_tagsOfL ns) h

/-- without separators nothing is inserted: the leaves correspond one to one (`chainRel inp out`: same length,
    position by position `out.attrs = inp.attrs ∧ out.name ∈ inp.names`) -/
theorem C04_chains_noSep (ns : List Node) (hs : noSepL ns = true) (h : namesTrans (tagsOfL ns) = true) :
    Forall₂ (fun a b => chainRel a.1 b.1 ∧ a.2 = b.2) (leaves ns) (leaves (collapse ns)) :=
  (C04_chains_one_step ns h).forall₂ (sepIn_false_of_noSep ns hs)

/-- the same without the hypothesis on names, with `TagReach` at each position -/
theorem C04_chains_noSep_reach (ns : List Node) (hs : noSepL ns = true) :
    Forall₂ (fun a b => Forall₂ TagReach a.1 b.1 ∧ a.2 = b.2) (leaves ns) (leaves (collapse ns)) :=
  (C04_never_joins_different ns).forall₂ (sepIn_false_of_noSep ns hs)

/-- `collapse` preserves the number of leaves when there are no separators -/
theorem C04_leaf_count (ns : List Node) (hs : noSepL ns = true) :
    (leaves (collapse ns)).length = (leaves ns).length :=
  (C04_chains_noSep_reach ns hs).length_eq.symm

/-- the leaf nodes of the input are, in order, among those of the output (every forest) -/
theorem C04_leaves_sublist (ns : List Node) :
    ((leaves ns).map Prod.snd).Sublist ((leaves (collapse ns)).map Prod.snd) :=
  (C04_never_joins_different ns).sublist

/-! non-vacuity -/
private def divC : Tag := { name := S!"div", collapsible := true }
private def tC : Tag := { name := S!"c", collapsible := true }
private def tBC : Tag := { name := S!"b", alts := [S!"c"], collapsible := true }
private def tAB : Tag := { name := S!"a", alts := [S!"b"], collapsible := true }
example : namesTrans (tagsOfL [.elem olFresh [.text S!"a"], .elem ulTag [.text S!"b"], .elem pTag []]) = true := by
  decide
example : noSepL [.elem olFresh [.text S!"a"], .elem ulTag [.text S!"b"]] = true ∧
    namesTrans (tagsOfL [.elem olFresh [.text S!"a"], .elem ulTag [.text S!"b"]]) = true := by decide
example : IsDecoL [.elem olFresh [.text S!"a"], .elem ulTag [.text S!"b"]] S!"ab" :=
  isDecoL_plain [.elem olFresh [.text S!"a"], .elem ulTag [.text S!"b"]]
example : leaves (collapse [.elem olFresh [.text S!"a"], .elem ulTag [.text S!"b"]])
    = [([olFresh], .text S!"a"), ([olFresh], .text S!"b")] := by rfl
example : leaves [.elem olFresh [.text S!"a"], .elem ulTag [.text S!"b"]]
    = [([olFresh], .text S!"a"), ([ulTag], .text S!"b")] := by rfl

/-- FINDING (alternatives are not transitive).  Without `namesTrans` the one-step statement is FALSE: because
    the children of a merged element are merged again, the text `z` of an element `a|b` ends up inside an
    element named `c`, which is neither `a` nor `b` (it first joins its sibling `b|c`, and together they join
    `c` when the enclosing `div`s merge).  python-mammoth does the same
    (`html.collapse` gives `div[c['x','y','z']]`); with the three inner elements as direct siblings the
    result is `c['x','y'], a|b['z']`. -/
theorem C04_alternatives_not_transitive :
    collapse [.elem divC [.elem tC [.text S!"x"]],
              .elem divC [.elem tBC [.text S!"y"], .elem tAB [.text S!"z"]]]
      = [.elem divC [.elem tC [.text S!"x", .text S!"y", .text S!"z"]]]
    ∧ collapse [.elem tC [.text S!"x"], .elem tBC [.text S!"y"], .elem tAB [.text S!"z"]]
      = [.elem tC [.text S!"x", .text S!"y"], .elem tAB [.text S!"z"]]
    ∧ ¬ tagStep tAB tC
    ∧ namesTrans [tC, tBC, tAB] = false := by
  refine ⟨by rfl, by rfl, ?_, by decide⟩
  intro h
  have := h.2
  revert this
  decide

/-- …so the one-step statement does fail for that forest (it has no separators) -/
example : ¬ Forall₂ (fun a b => chainRel a.1 b.1 ∧ a.2 = b.2)
    (leaves [.elem divC [.elem tC [.text S!"x"]], .elem divC [.elem tBC [.text S!"y"], .elem tAB [.text S!"z"]]])
    (leaves (collapse
      [.elem divC [.elem tC [.text S!"x"]], .elem divC [.elem tBC [.text S!"y"], .elem tAB [.text S!"z"]]])) := by
  intro h
  have e1 : leaves [.elem divC [.elem tC [.text S!"x"]], .elem divC [.elem tBC [.text S!"y"], .elem tAB [.text S!"z"]]]
      = [([divC, tC], .text S!"x"), ([divC, tBC], .text S!"y"), ([divC, tAB], .text S!"z")] := by rfl
  have e2 : leaves (collapse
      [.elem divC [.elem tC [.text S!"x"]], .elem divC [.elem tBC [.text S!"y"], .elem tAB [.text S!"z"]]])
      = [([divC, tC], .text S!"x"), ([divC, tC], .text S!"y"), ([divC, tC], .text S!"z")] := by rfl
  rw [e1, e2] at h
  cases h with
  | cons _ h => cases h with
    | cons _ h => cases h with
      | cons h3 _ =>
        have h3' : Forall₂ tagStep [divC, tAB] [divC, tC] := h3.1
        cases h3' with
        | cons _ h4 => cases h4 with
          | cons h5 _ =>
            have := h5.2
            revert this
            decide

/-! ### which siblings merge, in terms of the input -/

/-- MERGE IFF, for one more sibling element after any siblings `xs`: the output has no new top-level node
    (the element was merged into the last output element) IFF the last output node is an element, the new
    element is not `:fresh`, the earlier name is one of its names and the attributes are identical. -/
theorem C04_merge_iff (xs : List Node) (t : Tag) (cs : List Node) :
    (collapse (xs ++ [.elem t cs])).length = (collapse xs).length ↔
      ∃ lt, lastTag (collapse xs) = some lt ∧ t.collapsible = true ∧ lt.name ∈ t.names ∧ lt.attrs = t.attrs := by
  rw [C04_collapse_snoc, ← mergesInto_iff]
  simp only [collapseNode]
  by_cases h : mergesInto (lastTag (collapse xs)) t = true
  · obtain ⟨_, _, _, _, _, _, hl⟩ := addC_merges (collapse xs) t (collapseFrom [] cs) h
    simp [h, hl]
  · simp only [Bool.not_eq_true] at h
    rw [addC_not_merges _ t _ h]
    simp [h]

/-- …when it merges, the result is the earlier element (earlier tag kept) with the separator text and then the
    collapsed children of the later one added under the same rule -/
theorem C04_merged_result (xs : List Node) (t : Tag) (cs : List Node)
    (h : mergesInto (lastTag (collapse xs)) t = true) :
    ∃ lt lcs, (collapse xs).getLast? = some (.elem lt lcs) ∧
      collapse (xs ++ [.elem t cs]) =
        (collapse xs).dropLast ++ [.elem lt (addAllC (lcs ++ sepText t) (collapse cs))] := by
  rw [C04_collapse_snoc]
  obtain ⟨lt, lcs, h1, h2, _⟩ := addC_merges (collapse xs) t (collapse cs) h
  exact ⟨lt, lcs, h1, h2⟩

/-- …otherwise it is appended with its own tag (children collapsed), and nothing before it changes -/
theorem C04_not_merged_result (xs : List Node) (t : Tag) (cs : List Node)
    (h : mergesInto (lastTag (collapse xs)) t = false) :
    collapse (xs ++ [.elem t cs]) = collapse xs ++ [.elem t (collapse cs)] := by
  rw [C04_collapse_snoc]
  exact addC_not_merges (collapse xs) t (collapse cs) h

/-- THE TOP-LEVEL NODES OF THE OUTPUT, from the input alone: scan the siblings left to right keeping the tag
    `cur` of the element that a following element would be merged into (none at the start and after a text
    node or marker); an element is merged — contributes no top-level node and leaves `cur` as it is — iff
    `mergesInto cur t`; otherwise it starts a new top-level element and becomes `cur`.  (`topShape` lists
    `some tag` per element and `none` per text node / marker.)  The same holds at every depth, since the
    children of each output element are produced by the same procedure (`C04_merge_rule`). -/
theorem C04_top_level_scan (ns : List Node) : topShape (collapse ns) = mergeScan none ns :=
  topShape_collapse ns

/-- the tag that the next sibling is compared with is the tag of the HEAD of the current merge group
    (`scanLast`), not of the sibling directly before it -/
theorem C04_last_tag_scan (ns : List Node) : lastTag (collapse ns) = scanLast none ns := lastTag_collapse ns

/-! non-vacuity: `ul|ol` merges into `ol`, and a following plain `ul` is then compared with `ol` (no merge) -/
private def ulPlain : Tag := { name := S!"ul", collapsible := true }
example : mergesInto (lastTag (collapse [.elem olFresh [.text S!"a"]])) ulTag = true := by decide
example : mergesInto (lastTag (collapse [.elem olFresh [.text S!"a"], .elem ulTag [.text S!"b"]])) ulPlain = false := by
  decide
example : topShape (collapse [.elem olFresh [.text S!"a"], .elem ulTag [.text S!"b"], .elem ulPlain [], .text S!"x"])
    = [some olFresh, some ulPlain, none] := by decide

end Mammoth
