/-
  C04 — adjacent output elements merge exactly as the freshness rules say.
  Property theorems only; helper lemmas live in Proofs/.
-/
import Proofs.Stable
namespace Mammoth

/-- the match test of the code: the earlier tag's name is one of the later tag's names and the
    attribute dictionaries are equal -/
theorem C04_isMatch_iff (first second : Tag) :
    isMatch first second = true ↔ first.name ∈ second.names ∧ first.attrs = second.attrs := by
  simp [isMatch]

/-- `collapse` is a left fold that adds each (recursively collapsed) node to what was collapsed so far -/
theorem C04_collapse_snoc (xs : List Node) (n : Node) :
    collapse (xs ++ [n]) = addC (collapse xs) (collapseNode n) := by
  have key : ∀ (acc ys zs : List Node), collapseFrom acc (ys ++ zs) = collapseFrom (collapseFrom acc ys) zs := by
    intro acc ys zs
    induction ys generalizing acc with
    | nil => simp [collapseFrom]
    | cons y ys ih => simp [collapseFrom, ih]
  simp [collapse, key, collapseFrom]

/-- THE MERGE RULE.  A later element is merged into the element before it iff it is not `:fresh`,
    the earlier tag name is among its names and the attributes are identical; merging appends its
    separator text (if non-empty) and then its children under the same rule, keeping the earlier tag;
    otherwise it is appended unchanged. -/
theorem C04_merge_rule (acc : List Node) (t : Tag) (cs : List Node) :
    addC acc (.elem t cs) =
      match acc.getLast? with
      | some (.elem lt lcs) =>
        if t.collapsible = true ∧ lt.name ∈ t.names ∧ lt.attrs = t.attrs
        then acc.dropLast ++ [.elem lt (addAllC (lcs ++ sepText t) cs)]
        else acc ++ [.elem t cs]
      | _ => acc ++ [.elem t cs] := by
  cases hl : acc.getLast? with
  | none => simp [addC, hl]
  | some l =>
    cases l with
    | text s => simp [addC, hl]
    | forceWrite => simp [addC, hl]
    | elem lt lcs =>
      have hm := C04_isMatch_iff lt t
      by_cases hc : t.collapsible = true
      · by_cases hmm : isMatch lt t = true
        · have := hm.mp hmm
          simp [addC, hl, hc, hmm, this]
        · have : ¬ (lt.name ∈ t.names ∧ lt.attrs = t.attrs) := fun h => hmm (hm.mpr h)
          simp only [Bool.not_eq_true] at hmm
          simp [addC, hl, hc, hmm, this]
      · simp only [Bool.not_eq_true] at hc
        simp [addC, hl, hc]

/-- text and force-write nodes never merge -/
theorem C04_text_never_merges (acc : List Node) (s : Str) : addC acc (.text s) = acc ++ [.text s] :=
  addC_text acc s

/-- merging never loses, duplicates or reorders text (no separator involved: then the text is
    exactly the same; separators, when present, are the only inserted text — see
    `C04_merge_rule`) -/
theorem C04_text_preserved (ns : List Node) (h : noSepL ns = true) :
    textOfL (collapse ns) = textOfL ns := text_collapse ns h

/-- the result contains no adjacent pair that the rule would merge, at any depth -/
theorem C04_result_stable (ns : List Node) : stableL (collapse ns) = true := stable_collapse ns

/-- a forest in which the rule has nothing to merge is left exactly as it is -/
theorem C04_stable_fixed (ns : List Node) (h : stableL ns = true) : collapse ns = ns :=
  collapse_of_stable ns h

/-- applying the merge twice gives the same result as applying it once -/
theorem C04_idempotent (ns : List Node) : collapse (collapse ns) = collapse ns := collapse_idem ns

/-! non-vacuity: a concrete forest with separators, alternatives and nested merges -/
private def pTag : Tag := { name := S!"p", collapsible := true, separator := some S!"\n" }
private def ulTag : Tag := { name := S!"ul", alts := [S!"ol"], collapsible := true }
private def olFresh : Tag := { name := S!"ol" }
example : collapse [.elem pTag [.text S!"a"], .elem pTag [.text S!"b"]]
    = [.elem pTag [.text S!"a", .text S!"\n", .text S!"b"]] := by rfl
example : collapse [.elem olFresh [.text S!"a"], .elem ulTag [.text S!"b"]]
    = [.elem olFresh [.text S!"a", .text S!"b"]] := by rfl
example : stableL [.elem olFresh [], .elem olFresh []] = true := by rfl
example : noSepL [.elem olFresh [.text S!"a"], .elem ulTag [.text S!"b"]] = true := by rfl

end Mammoth
