/-
  C12 — embedding a style map round-trips and preserves the rest of the package.

  Model: `MammothModel/Embed.lean` (`write_style_map`, `read_style_map`, `zips.update_zip`, the file).
  The XML and ZIP codecs are parameters; their round-trip laws (`XmlCodec.Lawful`, `ZipCodec.Lawful`)
  are hypotheses of the theorems that need them.  UTF-8 is implemented and proved.
-/
import Proofs.C12_Embed
import Proofs.C12_Codecs
import Proofs.C12_ConvExample
import Proofs.C12_ConvNecessary
namespace Mammoth

/-- `bytes.decode("utf8")` inverts `str.encode("utf8")`, for every string (all planes, 1–4 byte forms). -/
theorem C12_utf8_roundtrip (s : Str) : utf8DecodeL (utf8Encode s) = some s := c12_utf8_roundtrip s

/-- After a successful `write_style_map(file, s)`, `read_style_map` returns exactly `s` — for EVERY
    string `s` (empty, non-ASCII, containing newlines, …). -/
theorem C12_embed_read (x : XmlCodec) (a a' : Archive) (s : Str)
    (h : embedArchive x a s = some a') : readEmbedded a' = some s := by
  unfold readEmbedded
  rw [c12_embed_get_sm x a a' s h]
  exact c12_utf8_roundtrip s

/-- Every part other than the three that are set has byte-identical content afterwards (and an absent
    part stays absent); no name disappears: the names of the new archive are the old names together
    with the three; and every name occurs exactly once in the new archive. -/
theorem C12_embed_others (x : XmlCodec) (a a' : Archive) (s : Str)
    (h : embedArchive x a s = some a') :
    (∀ n, n ≠ styleMapPath → n ≠ relsPartPath → n ≠ contentTypesPartPath → a'.get? n = a.get? n) ∧
    (∀ n, n ∈ a'.names ↔
        n ∈ a.names ∨ n = styleMapPath ∨ n = relsPartPath ∨ n = contentTypesPartPath) ∧
    a'.uniqueNames = true := by
  refine ⟨fun n h1 h2 h3 => c12_embed_get_other x a a' s h n (by simp [c12_three, h1, h2, h3]),
    fun n => ?_, c12_embed_unique x a a' s h⟩
  rw [c12_embed_names x a a' s h n]; simp [c12_three]

/-- The embed needs the relationships part and the content-types part: it succeeds iff both are
    present and parse; then the new archive is `update_zip` of the three entries. -/
theorem C12_embed_succeeds_iff (x : XmlCodec) (a : Archive) (s : Str) :
    (embedArchive x a s).isSome = true ↔
      ∃ rb r cb t, a.get? relsPartPath = some rb ∧ x.parse rb = some r ∧
        a.get? contentTypesPartPath = some cb ∧ x.parse cb = some t := by
  constructor
  · intro h
    cases h' : embedArchive x a s with
    | none => rw [h'] at h; cases h
    | some a' =>
      obtain ⟨rb, r, cb, t, h1, h2, h3, h4, _⟩ := c12_embed_inv x a a' s h'
      exact ⟨rb, r, cb, t, h1, h2, h3, h4⟩
  · rintro ⟨rb, r, cb, t, h1, h2, h3, h4⟩
    rw [c12_embed_intro x a s rb cb r t h1 h2 h3 h4]; rfl

/-- `_add_or_update_element` is idempotent, on every tree, for every element name, identifying
    attribute and attribute dictionary (the Python `_find_child` searches the root and ALL
    descendants, and the element it finds is the one updated). -/
theorem C12_addOrUpdate_idempotent (r : EElem) (name idAttr : Str) (attrs : List (Str × Str)) :
    addOrUpdate (addOrUpdate r name idAttr attrs) name idAttr attrs
      = addOrUpdate r name idAttr attrs := c12_addOrUpdate_idem r name idAttr attrs

/-- `addOrUpdate` is the Python control flow: if `_find_child` (search of the root and all its
    descendants) returns `None`, a new child is appended to the ROOT; otherwise the tree keeps its
    shape and only attribute dictionaries change (see `C12_addOrUpdate_spec` for which). -/
theorem C12_addOrUpdate_findChild (r : EElem) (name idAttr : Str) (attrs : List (Str × Str)) :
    (findChildE r name idAttr attrs = none →
      addOrUpdate r name idAttr attrs = { r with children := r.children ++ [⟨name, attrs, []⟩] }) ∧
    (findChildE r name idAttr attrs ≠ none →
      eSetFirst (eMatches name idAttr attrs) attrs r = some (addOrUpdate r name idAttr attrs)) := by
  constructor
  · intro h
    have := (c12_findChild_none r name idAttr attrs).mp h
    simp [addOrUpdate, this]
  · intro h
    cases h' : eSetFirst (eMatches name idAttr attrs) attrs r with
    | none => exact absurd ((c12_findChild_none r name idAttr attrs).mpr h') h
    | some r' => simp [addOrUpdate, h']

/-- One `_add_or_update_element` seen on the labels `(tag, attributes)` of `root.iter()`: every
    non-matching label is kept in place and unchanged; the matching ones become: the new entry in
    place of the first, the remaining ones as they were (so none if there was at most one). -/
theorem C12_addOrUpdate_spec (r : EElem) (name idAttr : Str) (attrs : List (Str × Str)) :
    (c12_labels (addOrUpdate r name idAttr attrs)).filter (fun l => !c12_matchL name idAttr attrs l)
        = (c12_labels r).filter (fun l => !c12_matchL name idAttr attrs l) ∧
    (c12_labels (addOrUpdate r name idAttr attrs)).filter (c12_matchL name idAttr attrs)
        = (name, attrs) :: ((c12_labels r).filter (c12_matchL name idAttr attrs)).tail :=
  ⟨c12_addOrUpdate_others r name idAttr attrs, c12_addOrUpdate_matching r name idAttr attrs⟩

/-- After ANY non-empty sequence of embeds (strings of any lengths, in any order), the relationships
    part is the serialisation of a tree `r'` (namely `relsUpdate r`, `r` the original tree) in which
    * exactly one element is a `Relationship` with `Id="rMammothStyleMap"`, and it carries exactly
      the style-map attributes — provided the original had at most one such element;
    * all other elements are the original ones, in order, with unchanged attributes. -/
theorem C12_one_entry (x : XmlCodec) (hx : x.Lawful) (a a' : Archive) (s : Str) (ss : List Str)
    (rb : Bytes) (r : EElem)
    (hr : a.get? relsPartPath = some rb) (hp : x.parse rb = some r)
    (hone : ((c12_labels r).filter c12_isStyleMapRel).length ≤ 1)
    (h : embedAll x a (s :: ss) = some a') :
    a'.get? relsPartPath = some (x.serialise (relsUpdate r)) ∧
    (c12_labels (relsUpdate r)).filter c12_isStyleMapRel
        = [(relationshipElemName, styleMapRelAttrs)] ∧
    (c12_labels (relsUpdate r)).filter (fun l => !c12_isStyleMapRel l)
        = (c12_labels r).filter (fun l => !c12_isStyleMapRel l) := by
  refine ⟨?_, c12_addOrUpdate_one r relationshipElemName S!"Id" styleMapRelAttrs hone,
    c12_addOrUpdate_others r relationshipElemName S!"Id" styleMapRelAttrs⟩
  unfold embedAll at h
  cases h1 : embedArchive x a s with
  | none => rw [h1] at h; cases h
  | some a1 =>
    rw [h1] at h
    obtain ⟨rb', r', cb, t, e1, e2, e3, e4, _⟩ := c12_embed_inv x a a1 s h1
    rw [hr] at e1; cases e1
    rw [hp] at e2; cases e2
    have p1 := c12_embed_parts_first x a a1 s rb cb r t hr hp e3 e4 h1
    exact (c12_embedAll_parts x hx ss a1 a' r t p1 h).1

/-- The same for the content-types part and its `Override PartName="/mammoth/style-map"`. -/
theorem C12_one_entry_override (x : XmlCodec) (hx : x.Lawful) (a a' : Archive) (s : Str)
    (ss : List Str) (cb : Bytes) (t : EElem)
    (hc : a.get? contentTypesPartPath = some cb) (hp : x.parse cb = some t)
    (hone : ((c12_labels t).filter c12_isStyleMapOverride).length ≤ 1)
    (h : embedAll x a (s :: ss) = some a') :
    a'.get? contentTypesPartPath = some (x.serialise (contentTypesUpdate t)) ∧
    (c12_labels (contentTypesUpdate t)).filter c12_isStyleMapOverride
        = [(overrideElemName, styleMapOverrideAttrs)] ∧
    (c12_labels (contentTypesUpdate t)).filter (fun l => !c12_isStyleMapOverride l)
        = (c12_labels t).filter (fun l => !c12_isStyleMapOverride l) := by
  refine ⟨?_, c12_addOrUpdate_one t overrideElemName S!"PartName" styleMapOverrideAttrs hone,
    c12_addOrUpdate_others t overrideElemName S!"PartName" styleMapOverrideAttrs⟩
  unfold embedAll at h
  cases h1 : embedArchive x a s with
  | none => rw [h1] at h; cases h
  | some a1 =>
    rw [h1] at h
    obtain ⟨rb, r, cb', t', e1, e2, e3, e4, _⟩ := c12_embed_inv x a a1 s h1
    rw [hc] at e3; cases e3
    rw [hp] at e4; cases e4
    have p1 := c12_embed_parts_first x a a1 s rb cb r t e1 e2 hc hp h1
    exact (c12_embedAll_parts x hx ss a1 a' r t p1 h).2

/-- Through any sequence of embeds every other part keeps its bytes and the set of names is the
    original one plus the three. -/
theorem C12_history_others (x : XmlCodec) (a a' : Archive) (s : Str) (ss : List Str)
    (h : embedAll x a (s :: ss) = some a') :
    (∀ n, n ≠ styleMapPath → n ≠ relsPartPath → n ≠ contentTypesPartPath → a'.get? n = a.get? n) ∧
    (∀ n, n ∈ a'.names ↔
        n ∈ a.names ∨ n = styleMapPath ∨ n = relsPartPath ∨ n = contentTypesPartPath) := by
  refine ⟨fun n h1 h2 h3 => c12_embedAll_other x _ a a' h n (by simp [c12_three, h1, h2, h3]),
    fun n => ?_⟩
  rw [c12_embedAll_names x s ss a a' h n]; simp [c12_three]

/-- A fold of embeds: whatever strings were embedded before (longer or shorter ones), reading returns
    the LAST string. -/
theorem C12_history (x : XmlCodec) (a a' : Archive) (ss : List Str) (s : Str)
    (h : embedAll x a (ss ++ [s]) = some a') : readEmbedded a' = some s := by
  rw [c12_embedAll_snoc] at h
  cases h1 : embedAll x a ss with
  | none => rw [h1] at h; cases h
  | some a1 => rw [h1] at h; exact C12_embed_read x a1 a' s h

/-! ### the file -/

/-- With `truncate()` (as the code does now), after a successful `write_style_map` the file holds
    EXACTLY the serialisation of the new archive — whatever the previous length of the file, no
    stale bytes —, it parses back to that archive, and reading the style map from the file returns
    `s`. -/
theorem C12_file_exact (z : ZipCodec) (hz : z.Lawful) (x : XmlCodec) (chunk : Nat)
    (file f' : Bytes) (s : Str) (h : embedFile z x chunk none file s = (f', true)) :
    ∃ a a', z.parse file = some a ∧ embedArchive x a s = some a' ∧
      f' = z.serialise a' ∧ z.parse f' = some a' ∧ readEmbeddedFile z f' = some s := by
  obtain ⟨a, a', h1, h2, h3⟩ := c12_embedFile_ok z x chunk file f' s h
  have hp : z.parse f' = some a' := by rw [h3]; exact hz a' (c12_embed_unique x a a' s h2)
  refine ⟨a, a', h1, h2, h3, hp, ?_⟩
  unfold readEmbeddedFile
  rw [hp]
  exact C12_embed_read x a a' s h2

/-- … and conversely: whenever the file is a zip whose two parts are present and parse, the call
    succeeds and leaves exactly the serialisation of the new archive. -/
theorem C12_file_exact_intro (z : ZipCodec) (x : XmlCodec) (chunk : Nat) (file : Bytes) (s : Str)
    (a a' : Archive) (h1 : z.parse file = some a) (h2 : embedArchive x a s = some a') :
    embedFile z x chunk none file s = (z.serialise a', true) := by
  simp [embedFile, h1, h2, writeOver]

/-- WITHOUT `truncate()` (the code before the fix) the file is NOT the new archive whenever the new
    archive is shorter than the old file: the old tail stays. -/
theorem C12_no_truncate_stale (old new : Bytes) (h : new.length < old.length) :
    writeOver old new false ≠ new := by
  intro e
  have := c12_writeOver_length old new
  rw [e] at this
  omega

/-- … precisely: without truncate the file keeps the old length and the old tail. -/
theorem C12_no_truncate_tail (old new : Bytes) :
    writeOver old new false = new ++ old.drop new.length ∧
    (writeOver old new false).length = max old.length new.length :=
  ⟨by simp [writeOver], c12_writeOver_length old new⟩

/-- with truncate the result never depends on the old content -/
theorem C12_truncate_exact (old new : Bytes) : writeOver old new true = new := by simp [writeOver]

/-- Embeds one after the other on the same file (lengths growing or shrinking): if all succeed,
    the file is a valid archive and the embedded style map is the LAST string. -/
theorem C12_history_file (z : ZipCodec) (hz : z.Lawful) (x : XmlCodec) (chunk : Nat)
    (file f' : Bytes) (ss : List Str) (s : Str)
    (h : embedFileAll z x chunk file (ss ++ [s]) = (f', true)) :
    readEmbeddedFile z f' = some s := by
  induction ss generalizing file with
  | nil =>
    simp only [List.nil_append, embedFileAll] at h
    cases h1 : embedFile z x chunk none file s with
    | mk f1 ok =>
      rw [h1] at h
      cases ok with
      | false => simp at h
      | true =>
        simp only [Prod.mk.injEq, and_true] at h
        subst h
        obtain ⟨_, _, _, _, _, _, hr⟩ := C12_file_exact z hz x chunk file f1 s h1
        exact hr
  | cons s1 ss ih =>
    simp only [List.cons_append, embedFileAll] at h
    cases h1 : embedFile z x chunk none file s1 with
    | mk f1 ok =>
      rw [h1] at h
      cases ok with
      | false => simp at h
      | true => exact ih f1 h

/-- If embedding fails for a reason of its own (not a zip, a part missing, a part that does not
    parse), nothing has been written: the file is byte-for-byte unchanged. -/
theorem C12_failure_unchanged (z : ZipCodec) (x : XmlCodec) (chunk : Nat) (file f' : Bytes)
    (s : Str) (h : embedFile z x chunk none file s = (f', false)) : f' = file :=
  c12_embedFile_fail z x chunk file f' s h

/-- A fault (I/O error) at any step before the first write — opening, reading the two parts,
    re-opening, reading all entries, building the new archive in memory, `seek(0)` — leaves the file
    byte-for-byte unchanged, and the call fails. -/
theorem C12_fault_before_write (z : ZipCodec) (x : XmlCodec) (chunk i : Nat) (file : Bytes)
    (s : Str) (hi : i < firstWriteStep) :
    embedFile z x chunk (some i) file s = (file, false) := by
  unfold embedFile
  cases z.parse file with
  | none => rfl
  | some a =>
    simp only []
    cases embedArchive x a s with
    | none => rfl
    | some a' => simp only [hi, if_true]

/-- A fault DURING the write phase (while copying the chunks, or at `truncate()`): here the last
    sentence of the property ("if embedding fails, nothing has been written") does NOT hold and
    cannot hold for an in-place rewrite.  What is left is exactly: the first `k` bytes of the new
    archive followed by the old bytes from offset `k` on, where `k` is the number of bytes of the
    chunks already written (`k = new.length` if the fault is at `truncate()`); the call fails. -/
theorem C12_fault_in_write_partial (z : ZipCodec) (x : XmlCodec) (chunk i : Nat) (hc : 0 < chunk)
    (file : Bytes) (s : Str) (a a' : Archive)
    (hp : z.parse file = some a) (he : embedArchive x a s = some a')
    (h1 : firstWriteStep ≤ i)
    (h2 : i ≤ firstWriteStep + chunkCount chunk (z.serialise a').length) :
    embedFile z x chunk (some i) file s =
      ((z.serialise a').take (min ((i - firstWriteStep) * chunk) (z.serialise a').length)
        ++ file.drop (min ((i - firstWriteStep) * chunk) (z.serialise a').length), false) := by
  unfold embedFile
  rw [hp]; simp only []; rw [he]; simp only []
  have n1 : ¬ i < firstWriteStep := by omega
  rw [if_neg n1]
  by_cases h3 : i < firstWriteStep + chunkCount chunk (z.serialise a').length
  · rw [if_pos h3]
  · have h4 : i = firstWriteStep + chunkCount chunk (z.serialise a').length := by omega
    rw [if_neg h3, if_pos h4]
    have := c12_chunkCount_mul chunk (z.serialise a').length hc
    have hk : min ((i - firstWriteStep) * chunk) (z.serialise a').length
        = (z.serialise a').length := by
      rw [h4]; simp only [Nat.add_sub_cancel_left]; omega
    rw [hk]
    simp [writeOver]

/-- … and that remainder differs from the old file as soon as the bytes written differ from the
    bytes they overwrite: the file is then neither the old archive nor (in general) the new one. -/
theorem C12_fault_in_write_changed (old new : Bytes) (k : Nat) (hk : k ≤ new.length)
    (hk' : k ≤ old.length) (hne : new.take k ≠ old.take k) :
    new.take k ++ old.drop k ≠ old := by
  intro e
  apply hne
  have e2 : new.take k ++ old.drop k = old.take k ++ old.drop k := by
    rw [List.take_append_drop]; exact e
  exact List.append_inj_left e2 (by simp [List.length_take]; omega)

/-! ### examples (non-vacuity) -/

private def c12_exRels : EElem :=
  ⟨S!"Relationships", [], [⟨relationshipElemName, [(S!"Id", S!"rId1"), (S!"Target", S!"styles.xml")], []⟩]⟩

/-- first embed appends the Relationship as last child of the root … -/
example : (relsUpdate c12_exRels == ⟨S!"Relationships", [],
    [⟨relationshipElemName, [(S!"Id", S!"rId1"), (S!"Target", S!"styles.xml")], []⟩,
     ⟨relationshipElemName, styleMapRelAttrs, []⟩]⟩) = true := by decide

/-- … a stale entry nested somewhere deep (even with other attributes) is found and overwritten in
    place, not duplicated -/
example : (relsUpdate ⟨S!"Relationships", [],
      [⟨S!"x", [], [⟨relationshipElemName, [(S!"Id", S!"rMammothStyleMap"), (S!"Target", S!"old")], []⟩]⟩]⟩
    == ⟨S!"Relationships", [], [⟨S!"x", [], [⟨relationshipElemName, styleMapRelAttrs, []⟩]⟩]⟩) = true := by
  decide

example : ((c12_labels c12_exRels).filter c12_isStyleMapRel).length ≤ 1 := by decide

/-- a table codec, enough to run `embedArchive` on a concrete archive -/
private def c12_exCodec : XmlCodec where
  parse b := if b = [1] then some c12_exRels else if b = [2] then some ⟨S!"Types", [], []⟩ else none
  serialise e := if e == relsUpdate c12_exRels then [3] else [4]

private def c12_exArchive : Archive :=
  [(S!"word/document.xml", [9, 9]), (relsPartPath, [1]), (contentTypesPartPath, [2])]

example : embedArchive c12_exCodec c12_exArchive S!"p => h1é" =
    some [(S!"word/document.xml", [9, 9]), (relsPartPath, [3]), (contentTypesPartPath, [4]),
          (styleMapPath, utf8Encode S!"p => h1é")] := by decide

example : (embedArchive c12_exCodec c12_exArchive S!"p => h1é").bind readEmbedded = some S!"p => h1é" := by
  decide

/-- a missing part: the embed fails (KeyError) -/
example : embedArchive c12_exCodec [(S!"word/document.xml", [9, 9])] S!"x" = none := by decide

/-- a table zip codec: the file `[0, 1, 2, 3]` is the example archive; every archive serialises to
    `[5, 5]` (enough to run `embedFile`; not lawful) -/
private def c12_exZip : ZipCodec where
  parse b := if b = [0, 1, 2, 3] then some c12_exArchive else none
  serialise _ := [5, 5]

/-- fault-free: the (shorter) new archive replaces the file completely -/
example : embedFile c12_exZip c12_exCodec 1 none [0, 1, 2, 3] S!"x" = ([5, 5], true) := by decide
/-- fault while reading: unchanged -/
example : embedFile c12_exZip c12_exCodec 1 (some 4) [0, 1, 2, 3] S!"x" = ([0, 1, 2, 3], false) := by
  decide
/-- fault after the first one-byte chunk: neither the old nor the new archive -/
example : embedFile c12_exZip c12_exCodec 1 (some 7) [0, 1, 2, 3] S!"x" = ([5, 1, 2, 3], false) := by
  decide
/-- fault at `truncate()`: new bytes followed by the stale tail -/
example : embedFile c12_exZip c12_exCodec 1 (some 8) [0, 1, 2, 3] S!"x" = ([5, 5, 2, 3], false) := by
  decide
/-- not a zip: fails, unchanged -/
example : embedFile c12_exZip c12_exCodec 1 none [9] S!"x" = ([9], false) := by decide

/-- The two codec laws assumed above are satisfiable (witnesses: the toy codecs of
    `Proofs/C12_Codecs.lean`, lawful for every tree / every archive). -/
theorem C12_laws_satisfiable : ∃ (z : ZipCodec) (x : XmlCodec), z.Lawful ∧ x.Lawful :=
  ⟨c12_toyZip, c12_toyXml, c12_toyZip_lawful, c12_toyXml_lawful⟩

/-- a package whose two parts are serialised with the lawful toy codec -/
private def c12_exArchive2 : Archive :=
  [(S!"word/document.xml", [9, 9]), (relsPartPath, c12_toyXml.serialise c12_exRels),
   (contentTypesPartPath, c12_toyXml.serialise ⟨S!"Types", [], []⟩)]

/-- with lawful codecs: on the file holding that package every embed succeeds, for every string -/
example (s : Str) (chunk : Nat) :
    (embedFile c12_toyZip c12_toyXml chunk none (c12_toyZip.serialise c12_exArchive2) s).2 = true := by
  have hp : c12_toyZip.parse (c12_toyZip.serialise c12_exArchive2) = some c12_exArchive2 :=
    c12_toyZip_lawful _ (by decide)
  have he := c12_embed_intro c12_toyXml c12_exArchive2 s _ _ c12_exRels ⟨S!"Types", [], []⟩
    (by simp [c12_exArchive2, Archive.get?, lookupLast, c12_paths_ne.2.2])
    (c12_toyXml_lawful _)
    (by simp [c12_exArchive2, Archive.get?, lookupLast]) (c12_toyXml_lawful _)
  rw [C12_file_exact_intro _ _ _ _ _ _ _ hp he]

/-- shrinking without truncate leaves stale bytes; with truncate it does not -/
example : writeOver [1, 2, 3, 4, 5] [7, 8] false = [7, 8, 3, 4, 5] := by decide
example : writeOver [1, 2, 3, 4, 5] [7, 8] true = [7, 8] := by decide

example : utf8Encode S!"é€𝄞" = [0xC3, 0xA9, 0xE2, 0x82, 0xAC, 0xF0, 0x9D, 0x84, 0x9E] := by decide
example : utf8DecodeL [0xED, 0xA0, 0x80] = none := by decide   -- a surrogate
example : utf8DecodeL [0xC0, 0x80] = none := by decide         -- an overlong form

/-! ### "converting the file equals converting the original with `style_map=s`"

  `c12_embedPkg p s` (Proofs/C12_Convert.lean) is `embed_style_map` on the `Package` the converter reads:
  the relationships part and the content-types part updated by `_add_or_update_element`, the entry
  `mammoth/style-map` set to the UTF-8 bytes of `s`, every other entry untouched; `none` when one of the two
  parts is missing or not XML.  The hypotheses are decidable conditions on the ORIGINAL package
  (Proofs/C12_ConvPackage.lean, Proofs/C12_ConvMain.lean); each is necessary (`C12_embed_convert_necessary`). -/

/-- **Converting the file after `embed_style_map(file, s)` equals converting the original with
    `style_map=s` and `include_embedded_style_map=False`** — the HTML / Markdown value, the messages, the
    generated nodes, the document, the I/O trace and the image-converter calls, or the same error —
    for EVERY package `p` on which the embed succeeds, every string `s`, every option set `o` (both output
    formats, any `id_prefix`, `ignore_empty_paragraphs`, `include_default_style_map`, image converter), every
    `transform_document`, every fuel, base directory and outside world, provided

    1. `c12_relEntryOk p`: the `Relationship` element the embed overwrites (the first element in `iter()` order
       of `word/_rels/document.xml.rels` with `Id="rMammothStyleMap"`, if any) has `Target` and `Type`, and its
       type is not one of the five `_find_part_paths` looks up (comments, endnotes, footnotes, numbering, styles);
    2. `c12_overrideEntryOk p`: the `Override PartName="/mammoth/style-map"` the embed overwrites (if any) has a
       `ContentType`;
    3. `c12_lookupOk p`: `mammoth/style-map` is not a candidate of any part lookup (or exists already), and the
       parts located (main document, comments, endnotes, footnotes, numbering, styles) are none of the three
       entries the embed writes;
    4. `c12_refsOk p`: the XML read with a body reader (body, notes, comments) does not use the relationship id
       `rMammothStyleMap` (where its relationships are `word/_rels/document.xml.rels`), and no image has the
       path `mammoth/style-map`;
    5. `c12_archiveOk p`: the bytes `archiveBytes` reports are those of the last entry of each name (true when
       entry names are unique, `C12_archiveOk_of_unique_names`);
    6. `c12_imagesOk p fuel transform`: the transformed document has no embedded image read from the zip entry
       `mammoth/style-map`.

    When the original ALREADY carries an embedded map `s0` this says: the new map REPLACES it — the right-hand
    side is the conversion with the embedded map `s0` left out (`C12_embed_convert_replaces`). -/
theorem C12_embed_convert (p : Package) (s : Str) (p' : Package) (fuel : Nat) (base : Option Str)
    (world : Str → Option Bytes) (transform : Document → Document) (o : Options)
    (h : c12_embedPkg p s = some p')
    (h1 : c12_relEntryOk p = true) (h2 : c12_overrideEntryOk p = true)
    (h3 : c12_lookupOk p = true) (h4 : c12_refsOk p = true)
    (h5 : c12_archiveOk p = true) (h6 : c12_imagesOk p fuel transform = true) :
    apiConvert p' fuel base world transform { o with styleMap := none, includeEmbedded := true }
      = apiConvert p fuel base world transform { o with styleMap := some s, includeEmbedded := false } :=
  c12_embed_convert p s p' fuel base world transform o h h1 h2 h3 h4 h5 h6

/-- the hypotheses of `C12_embed_convert` are satisfiable: the example package (a `Heading1` paragraph, a
    footnote, a hyperlink, an embedded PNG, styles, content types) satisfies all six, the embed succeeds -/
example : c12_exHyps c12_exPkg = [true, true, true, true, true, true] ∧
    (c12_embedPkg c12_exPkg c12_exMap).isSome = true := ⟨c12_ex_hyps, by decide +kernel⟩

/-- … and on it both conversions evaluate (by kernel computation, not via the theorem) to the same
    non-trivial HTML: `p.Heading1 => h2` gives the `<h2>`, `r => em` the `<em>`s, the default style map the
    rest; the footnote, the hyperlink and the picture are there. -/
example :
    c12_convAfter c12_exPkg S!"p.Heading1 => h2\nr => em" {} = some (.inr (c12_exHtml, [])) ∧
    c12_convBefore c12_exPkg S!"p.Heading1 => h2\nr => em" {} = .inr (c12_exHtml, []) ∧
    c12_exHtml = S!"<h2><em>Title</em></h2><p><em>Hello<sup><a href=\"#footnote-1\" id=\"footnote-ref-1\">[1]</a></sup></em><a href=\"http://example.com/\"><em>link</em></a></p><p><em><img alt=\"pic\" src=\"data:image/png;base64,iVBORw==\" /></em></p><ol><li id=\"footnote-1\"><p><em>Note</em> <a href=\"#footnote-ref-1\">↑</a></p></li></ol>" :=
  ⟨c12_ex_after, c12_ex_before, rfl⟩

/-- unique entry names give hypothesis 5 -/
theorem C12_archiveOk_of_unique_names (p : Package) (h : strsNodup (p.parts.map (·.1)) = true) :
    c12_archiveOk p = true := c12_archiveOk_of_unique p h

/-- **Every hypothesis of `C12_embed_convert` is necessary**: for each there is a concrete package (a variant
    of the example) that violates only it, on which the embed succeeds and the two conversions differ.
    In order: the id `rMammothStyleMap` is taken by the footnotes relationship (another footnote text);
    a `Relationship Id="rMammothStyleMap"` lacks `Target` (KeyError before, fine after); an
    `Override PartName="/mammoth/style-map"` lacks `ContentType` (KeyError before, fine after); a footnotes
    relationship targets `/mammoth/style-map` (skipped before, "not XML" after); the hyperlink uses the id
    `rMammothStyleMap` (KeyError before, a link to the style map after); the picture is the entry
    `mammoth/style-map` (other bytes and content type; this one violates 4 and 6); `transform_document` adds
    an image read from that entry (KeyError before; violates only 6); two entries named
    `word/media/image1.png`, the bytes first and an XML one last (violates only 5; an artefact of the
    model's `archiveBytes`, the library itself reads the last entry both times). -/
theorem C12_embed_convert_necessary :
    (c12_exHyps c12_exIdTaken = [false, true, true, true, true, true] ∧
      c12_convAfter c12_exIdTaken c12_exMap {} ≠ some (c12_convBefore c12_exIdTaken c12_exMap {})) ∧
    (c12_exHyps c12_exIdBroken = [false, true, true, true, true, true] ∧
      c12_convBefore c12_exIdBroken c12_exMap {} = .inl (.key S!"Id/Target/Type") ∧
      c12_convAfter c12_exIdBroken c12_exMap {} = some (.inr (c12_exHtml, []))) ∧
    (c12_exHyps c12_exOverrideBroken = [true, false, true, true, true, true] ∧
      c12_convBefore c12_exOverrideBroken c12_exMap {} = .inl (.key S!"PartName/ContentType") ∧
      c12_convAfter c12_exOverrideBroken c12_exMap {} = some (.inr (c12_exHtml, []))) ∧
    (c12_exHyps c12_exLookup = [true, true, false, true, true, true] ∧
      c12_convBefore c12_exLookup c12_exMap {} = .inr (c12_exHtml, []) ∧
      c12_convAfter c12_exLookup c12_exMap {} = some (.inl (.value S!"not XML: mammoth/style-map"))) ∧
    (c12_exHyps c12_exRefId = [true, true, true, false, true, true] ∧
      c12_convBefore c12_exRefId c12_exMap {} = .inl (.key S!"rMammothStyleMap") ∧
      (c12_convAfter c12_exRefId c12_exMap {}).isSome = true ∧
      c12_convAfter c12_exRefId c12_exMap {} ≠ some (c12_convBefore c12_exRefId c12_exMap {})) ∧
    (c12_exHyps c12_exRefImage = [true, true, true, false, true, false] ∧
      c12_convAfter c12_exRefImage c12_exMap {} ≠ some (c12_convBefore c12_exRefImage c12_exMap {})) ∧
    (c12_imagesOk c12_exPkg 20 c12_exTransform = false ∧
      c12_obs (apiConvert c12_exPkg 20 none (fun _ => none) c12_exTransform
        { styleMap := some c12_exMap, includeEmbedded := false }) = .inl (.key S!"mammoth/style-map") ∧
      ((c12_embedPkg c12_exPkg c12_exMap).map fun p' =>
        (c12_obs (apiConvert p' 20 none (fun _ => none) c12_exTransform
          { styleMap := none, includeEmbedded := true })).isRight) = some true) ∧
    (c12_exHyps c12_exDuplicate = [true, true, true, true, false, true] ∧
      c12_convBefore c12_exDuplicate c12_exMap {} = .inr (c12_exHtml, []) ∧
      c12_convAfter c12_exDuplicate c12_exMap {} = some (.inl (.key S!"word/media/image1.png"))) :=
  ⟨c12_ex_idTaken, c12_ex_idBroken, c12_ex_overrideBroken, c12_ex_lookup, c12_ex_refId, c12_ex_refImage,
    c12_ex_transform, c12_ex_duplicate⟩

/-- **The new map replaces an embedded one.**  When the original already carries an embedded style map `s0`,
    the file after `embed_style_map(file, s)` carries `s` instead, and converting it equals converting the
    original with `style_map=s` AND `include_embedded_style_map=False` (same hypotheses as
    `C12_embed_convert`; the property's "converting the original with style_map=s" has to be read this way). -/
theorem C12_embed_convert_replaces (p : Package) (s s0 : Str) (p' : Package) (fuel : Nat) (base : Option Str)
    (world : Str → Option Bytes) (transform : Document → Document) (o : Options)
    (_h0 : readEmbeddedStyleMap p = .ok (some s0))
    (h : c12_embedPkg p s = some p')
    (h1 : c12_relEntryOk p = true) (h2 : c12_overrideEntryOk p = true)
    (h3 : c12_lookupOk p = true) (h4 : c12_refsOk p = true)
    (h5 : c12_archiveOk p = true) (h6 : c12_imagesOk p fuel transform = true) :
    readEmbeddedStyleMap p' = .ok (some s) ∧
    apiConvert p' fuel base world transform { o with styleMap := none, includeEmbedded := true }
      = apiConvert p fuel base world transform { o with styleMap := some s, includeEmbedded := false } := by
  refine ⟨?_, c12_embed_convert p s p' fuel base world transform o h h1 h2 h3 h4 h5 h6⟩
  obtain ⟨r, r', t, t', _, _, _, _, rfl⟩ := c12_embedPkg_inv p s p' h
  exact c12_readEmbeddedStyleMap_embedded p s r' t'

/-- … and it does NOT in general equal converting the original with `style_map=s` and the old embedded map
    still included: the example with `p.Heading1 => h3` embedded satisfies all hypotheses; after embedding
    `r => em` the heading is `<h1>` (default map) — as with the embedded map excluded — whereas
    `style_map="r => em"` with the old map included gives `<h3>`. -/
example :
    c12_exHyps c12_exPkg0 = [true, true, true, true, true, true] ∧
    (readEmbeddedStyleMap c12_exPkg0).toOption = some (some S!"p.Heading1 => h3") ∧
    c12_convAfter c12_exPkg0 S!"r => em" {} = some (c12_convBefore c12_exPkg0 S!"r => em" {}) ∧
    c12_convAfter c12_exPkg0 S!"r => em" {} ≠ some (c12_convBeforeIncl c12_exPkg0 S!"r => em" {}) :=
  c12_ex_replace

/-- **`extract_raw_text` of the file is unchanged by the embed** (raw text never reads the style map):
    for every package on which the embed succeeds, every string and every fuel, under hypotheses 1–4 of
    `C12_embed_convert` (they make `docx.read` of the two files equal; 5 and 6 concern the converter only). -/
theorem C12_embed_raw_text (p : Package) (s : Str) (p' : Package) (fuel : Nat)
    (h : c12_embedPkg p s = some p')
    (h1 : c12_relEntryOk p = true) (h2 : c12_overrideEntryOk p = true)
    (h3 : c12_lookupOk p = true) (h4 : c12_refsOk p = true) :
    apiRawText p' fuel = apiRawText p fuel := c12_embed_raw_text p s p' fuel h h1 h2 h3 h4

set_option maxRecDepth 100000 in
/-- non-vacuity: the raw text of the example, before and after the embed -/
example :
    (apiRawText c12_exPkg 20).toOption = some (S!"Title\n\nHellolink\n\n\n\n", []) ∧
    ((c12_embedPkg c12_exPkg c12_exMap).map fun p' => (apiRawText p' 20).toOption)
      = some (some (S!"Title\n\nHellolink\n\n\n\n", [])) := by decide +kernel

/-- **`c12_embedPkg` refines `embedArchive`** (the archive-level embed of `MammothModel/Embed.lean`) under the
    XML codec law: if the archive and the package hold the same relationships / content-types parts — the
    package the translation `c12_ofE nm` (Clark tags ↦ `prefix:local` names) of what the codec parses —, `nm`
    keeps the names the embed writes, and the `_find_child` tests agree before and after translation on every
    element of the two trees (`c12_agree_of_unique`: attribute keys unique, no other tag / key identified with
    `Relationship` / `Id`, `Override` / `PartName`), then whenever the archive-level embed succeeds the
    package-level one does, the new package again holds the translations of what the codec parses from the
    new archive, the style-map entry holds the same bytes, and all other entries are untouched on both sides. -/
theorem C12_embedPkg_refines (x : XmlCodec) (hx : x.Lawful) (nm : Str → Str) (a a' : Archive) (p : Package)
    (s : Str) (rb cb : Bytes) (re te : EElem)
    (h : embedArchive x a s = some a')
    (hrb : a.get? relsPartPath = some rb) (hre : x.parse rb = some re)
    (hcb : a.get? contentTypesPartPath = some cb) (hte : x.parse cb = some te)
    (hpr : lookupLast relsPartPath p.parts = some (.xml (c12_ofE nm re)))
    (hpt : lookupLast contentTypesPartPath p.parts = some (.xml (c12_ofE nm te)))
    (hn1 : nm relationshipElemName = c12_relName) (hn2 : nm overrideElemName = c12_overrideName)
    (hn3 : nm S!"Id" = S!"Id") (hn4 : nm S!"PartName" = S!"PartName")
    (hn5 : c12_ofAttrs nm styleMapRelAttrs = styleMapRelAttrs)
    (hn6 : c12_ofAttrs nm styleMapOverrideAttrs = styleMapOverrideAttrs)
    (hag1 : c12_agreeAll nm relationshipElemName S!"Id" styleMapRelAttrs re = true)
    (hag2 : c12_agreeAll nm overrideElemName S!"PartName" styleMapOverrideAttrs te = true) :
    ∃ p', c12_embedPkg p s = some p' ∧
      lookupLast styleMapPath p'.parts = some (.bytes (utf8Encode s)) ∧
      a'.get? styleMapPath = some (utf8Encode s) ∧
      (∃ bs e, a'.get? relsPartPath = some bs ∧ x.parse bs = some e ∧
        lookupLast relsPartPath p'.parts = some (.xml (c12_ofE nm e))) ∧
      (∃ bs e, a'.get? contentTypesPartPath = some bs ∧ x.parse bs = some e ∧
        lookupLast contentTypesPartPath p'.parts = some (.xml (c12_ofE nm e))) ∧
      (∀ n, n ≠ styleMapPath → n ≠ relsPartPath → n ≠ contentTypesPartPath →
        a'.get? n = a.get? n ∧ lookupLast n p'.parts = lookupLast n p.parts) :=
  c12_embedPkg_refines x hx nm a a' p s rb cb re te h hrb hre hcb hte hpr hpt hn1 hn2 hn3 hn4 hn5 hn6 hag1 hag2

/-- the name/tree hypotheses of `C12_embedPkg_refines` are satisfiable (a concrete `nm`, a relationships tree
    that already holds a style-map relationship, a content-types tree) -/
example :
    c12_exNm relationshipElemName = c12_relName ∧ c12_exNm overrideElemName = c12_overrideName ∧
    c12_exNm S!"Id" = S!"Id" ∧ c12_exNm S!"PartName" = S!"PartName" ∧
    c12_ofAttrs c12_exNm styleMapRelAttrs = styleMapRelAttrs ∧
    c12_ofAttrs c12_exNm styleMapOverrideAttrs = styleMapOverrideAttrs ∧
    c12_agreeAll c12_exNm relationshipElemName S!"Id" styleMapRelAttrs c12_exRe = true ∧
    c12_agreeAll c12_exNm overrideElemName S!"PartName" styleMapOverrideAttrs c12_exTe = true :=
  c12_ex_refines_hyps


end Mammoth
