/-
  C17 — images arrive intact, typed and in order.
-/
import Proofs.C17_Base64
import Proofs.C17_Images
import Proofs.C17_XmlPlain
import Proofs.C17_Example
import Proofs.C17_Ext7
import Proofs.Pins
namespace Mammoth

/-! ### base64 -/

/-- Decoding the base64 text produced for ANY byte list gives exactly those bytes back: the data URI
    of an image carries the image bytes intact (no loss at the 1- or 2-byte tail, no size bound). -/
theorem C17_base64_roundtrip (bs : List UInt8) : b64decode (b64encode bs) = some bs :=
  c17_roundtrip bs

/-- consequently two different images never get the same base64 text -/
theorem C17_b64_injective (a b : List UInt8) (h : b64encode a = b64encode b) : a = b := by
  have := C17_base64_roundtrip a
  rw [h, C17_base64_roundtrip b] at this
  exact (Option.some.inj this).symm

/-- The output length is `4 * ceil(n / 3)` characters for `n` input bytes. -/
theorem C17_b64_length (bs : List UInt8) : (b64encode bs).length = 4 * ((bs.length + 2) / 3) :=
  c17_length bs

/-- Every output character is one of the 64 alphabet characters or the padding `=`. -/
theorem C17_b64_alphabet (bs : List UInt8) (ch : Char) (h : ch ∈ b64encode bs) :
    ch ∈ b64Alphabet ∨ ch = '=' := c17_alphabet bs ch h

/-! ### content types -/

/-- `find_content_type` is this decision list (`Option.or` = first `some` wins): the override
    registered for exactly this part name; else the default registered for the exact (case-sensitive)
    extension; else `"image/" ++` the built-in type of the lower-cased extension; else none. -/
theorem C17_content_type_lookup (ct : ContentTypes) (path : Str) :
    findContentType ct path =
      (lookupLast path ct.overrides).or
        ((lookupLast (getExtension path) ct.defaults).or
          ((lookupLast (lowerAscii (getExtension path)) Generated.imageExtensions).map (S!"image/" ++ ·))) :=
  c17_findContentType_eq ct path

/-- an override for the part wins over everything else -/
theorem C17_content_type_override (ct : ContentTypes) (path c : Str)
    (h : lookupLast path ct.overrides = some c) : findContentType ct path = some c := by
  simp [C17_content_type_lookup, h]

/-- without an override, a declared default for the extension wins over the built-in table -/
theorem C17_content_type_default (ct : ContentTypes) (path c : Str)
    (ho : lookupLast path ct.overrides = none)
    (h : lookupLast (getExtension path) ct.defaults = some c) : findContentType ct path = some c := by
  simp [C17_content_type_lookup, ho, h]

/-- with neither, the built-in table for the lower-cased extension decides (and may say "unknown") -/
theorem C17_content_type_builtin (ct : ContentTypes) (path : Str)
    (ho : lookupLast path ct.overrides = none)
    (h : lookupLast (getExtension path) ct.defaults = none) :
    findContentType ct path =
      (lookupLast (lowerAscii (getExtension path)) Generated.imageExtensions).map (S!"image/" ++ ·) := by
  simp [C17_content_type_lookup, ho, h]

/-- The extension is the text after the LAST `.`; a path without any `.` is its own extension
    (`path.rpartition(".")[2]`). -/
theorem C17_getExtension :
    (∀ pre ext : Str, '.' ∉ ext → getExtension (pre ++ '.' :: ext) = ext) ∧
    (∀ path : Str, '.' ∉ path → getExtension path = path) :=
  ⟨c17_getExtension_dot, c17_getExtension_nodot⟩

/-- the reader attaches to an image exactly the looked-up content type, the given alt text and source -/
theorem C17_readImage_typed (env : REnv) (path : Str) (src : ImageSrc) (alt : Option Str) :
    (readImage env path src alt).elements =
      [.image { altText := alt, contentType := findContentType env.contentTypes path, src := src }] := by
  simp only [readImage]; repeat' split
  all_goals rfl

/-! ### the converter -/

/-- The default converter (`data_uri`) on an embedded image whose entry `name` is in the archive with
    content `bytes` succeeds, logs the call, emits no message, and yields exactly one void `img` element
    with attribute list `alt?` ++ `src = "data:" ++ content type ++ ";base64," ++ b64encode bytes`,
    where `alt?` is `[("alt", a)]` iff the alt text is present and non-empty. -/
theorem C17_data_uri (cfg : Cfg) (hdr : Bool) (i : ImageProps) (name : Str) (bytes : Bytes) (st : ConvState)
    (hc : cfg.imageConv = .dataUri) (hs : i.src = .embedded name)
    (h : lookupLast name cfg.archive = some bytes) :
    (visit cfg hdr (.image i)).run st =
      .ok ([el S!"img" ((match i.altText with
                          | some a => if a.isEmpty then [] else [(S!"alt", a)]
                          | none => []) ++
              [(S!"src", S!"data:" ++ pyOpt i.contentType ++ S!";base64," ++ b64encode bytes)]) []],
           { st with imageCalls := st.imageCalls ++ [i] }) := by
  rw [visit]
  exact c17_convert_dataUri cfg i name bytes st hc hs h

/-- read back from the element: `src` is the data URI; `alt` is present iff the alt text is non-empty -/
theorem C17_data_uri_attrs (i : ImageProps) (src : Str) :
    Dict.get? S!"src" (Dict.ofList (c17_altAttr i ++ [(S!"src", src)])) = some src ∧
    Dict.get? S!"alt" (Dict.ofList (c17_altAttr i ++ [(S!"src", src)])) =
      (match i.altText with
        | some a => if a.isEmpty then none else some a
        | none => none) := by
  simp only [c17_get_ofList, c17_lookupLast_append]
  constructor
  · simp [lookupLast]
  · unfold c17_altAttr
    cases i.altText with
    | none => simp [lookupLast]
    | some a => by_cases ha : a.isEmpty <;> simp [lookupLast, ha]

/-- A custom converter (`img_element(f)` where `f` returns `attrs` without opening the image) yields one
    `img` whose attributes are the alt attribute followed by `attrs`; because the attribute dictionary is
    built last-wins, any attribute `k` returned by the converter — in particular `alt` — overrides the
    document's alt text, and the document's alt text is used only when the converter returns none. -/
theorem C17_converter_alt_overrides (cfg : Cfg) (i : ImageProps) (attrs : List (Str × Str)) (st : ConvState)
    (hc : cfg.imageConv = .fixed attrs false) :
    (convertImage cfg i).run st =
      .ok ([el S!"img" (c17_altAttr i ++ attrs) []], { st with imageCalls := st.imageCalls ++ [i] }) ∧
    ∀ k, Dict.get? k (Dict.ofList (c17_altAttr i ++ attrs)) =
      (lookupLast k attrs).or (lookupLast k (c17_altAttr i)) := by
  constructor
  · rw [c17_convertImage_run]; unfold c17_finish; simp only [hc]; rfl
  · intro k; rw [c17_get_ofList, c17_lookupLast_append]

/-- Whatever the converter and whatever the source (embedded, linked, found or not): a successful
    `convertImage` appends exactly one entry — the image's properties — to the log of converter calls,
    at the end. -/
theorem C17_image_call_logged (cfg : Cfg) (i : ImageProps) (st st' : ConvState) (ns : List Node)
    (h : (convertImage cfg i).run st = .ok (ns, st')) : st'.imageCalls = st.imageCalls ++ [i] := by
  rw [c17_convertImage_run] at h
  exact c17_finish_calls cfg i _ st' ns h

/-- In order: converting a sequence of images calls the converter once per image, in document order. -/
theorem C17_images_in_order (cfg : Cfg) (hdr : Bool) (is : List ImageProps) (st st' : ConvState)
    (ns : List Node) (h : (visitAll cfg hdr (is.map Elem.image)).run st = .ok (ns, st')) :
    st'.imageCalls = st.imageCalls ++ is := by
  induction is generalizing st st' ns with
  | nil => rw [List.map_nil, visitAll] at h; cases h; simp
  | cons i rest ih =>
    rw [List.map_cons, visitAll, visit] at h
    simp only [c17_run_bind] at h
    split at h
    · rename_i a s h1
      have e1 := C17_image_call_logged cfg i st s a h1
      split at h
      · rename_i b s2 h2
        have e2 := ih s s2 b h2
        simp only [c17_run_pure] at h
        cases h
        rw [e2, e1]; simp
      · cases h
    · cases h

/-! ### the reader -/

/-- `wp:inline` / `wp:anchor`: every `a:blip` found is read with the same alt text, `c17_inlineAlt`. -/
theorem C17_inline_uses_alt (env : REnv) (cs : List XmlNode) :
    readInline env cs =
      ((c17_inlineBlips cs).mapM fun (b : Attrs × List XmlNode) => readBlip env b.1 (c17_inlineAlt cs)).map
        (fun (rs : List ReadResult) => rs.foldl ReadResult.concat {}) :=
  c17_readInline_eq env cs

/-- The alt text is the `descr` attribute of `wp:docPr` when it is present and not blank (its `strip()` is
    non-empty); otherwise — absent, empty or only white space — it is the `title` attribute (possibly
    absent). -/
theorem C17_alt_precedence (cs : List XmlNode) :
    (∀ d, attr? S!"descr" (findChildOrNull S!"wp:docPr" cs).1 = some d → (strip d).isEmpty = false →
        c17_inlineAlt cs = some d) ∧
    (∀ d, attr? S!"descr" (findChildOrNull S!"wp:docPr" cs).1 = some d → (strip d).isEmpty = true →
        c17_inlineAlt cs = attr? S!"title" (findChildOrNull S!"wp:docPr" cs).1) ∧
    (attr? S!"descr" (findChildOrNull S!"wp:docPr" cs).1 = none →
        c17_inlineAlt cs = attr? S!"title" (findChildOrNull S!"wp:docPr" cs).1) := by
  refine ⟨?_, ?_, ?_⟩
  · intro d h1 h2; simp [c17_inlineAlt, h1, h2]
  · intro d h1 h2; simp [c17_inlineAlt, h1, h2]
  · intro h1; simp [c17_inlineAlt, h1, strip, rstripWs, lstripWs]

/-- `a:blip`: `r:embed` wins over `r:link` (the link is not even looked up); with only `r:link` the image
    is linked (its path for the content type is the target itself); with neither, the result is just the
    warning. -/
theorem C17_embed_over_link (env : REnv) (as : Attrs) (alt : Option Str) :
    (∀ rid, attr? S!"r:embed" as = some rid → readBlip env as alt = readEmbeddedImage env rid alt) ∧
    (∀ rid, attr? S!"r:embed" as = none → attr? S!"r:link" as = some rid →
        readBlip env as alt = (env.rels.targetById rid).map fun t => readImage env t (.linked t) alt) ∧
    (attr? S!"r:embed" as = none → attr? S!"r:link" as = none →
        readBlip env as alt = .ok (rrMsg S!"Could not find image file for a:blip element")) := by
  refine ⟨?_, ?_, ?_⟩
  · intro rid h; simp [readBlip, h]
  · intro rid h1 h2; simp only [readBlip, h1, h2]
    cases env.rels.targetById rid <;> rfl
  · intro h1 h2; simp [readBlip, h1, h2]

/-- an embedded image is opened at the zip entry named by its relationship target (relative to `word/`,
    or absolute when it starts with `/`), and typed by that entry name -/
theorem C17_embedded_entry (env : REnv) (rid t : Str) (alt : Option Str)
    (h : env.rels.targetById rid = .ok t) :
    readEmbeddedImage env rid alt =
      .ok (readImage env (uriToZipEntryName S!"word" t) (.embedded (uriToZipEntryName S!"word" t)) alt) := by
  simp only [readEmbeddedImage, h]; rfl

/-! ### non-vacuity -/

example : b64encode [77, 97, 110] = S!"TWFu" := by decide
example : b64encode [77, 97] = S!"TWE=" := by decide
example : b64encode [77] = S!"TQ==" := by decide
example : b64decode S!"TWE=" = some [77, 97] := by decide
example : b64encode [255, 254, 253, 252] = S!"//79/A==" := by decide
example : getExtension S!"word/media/image1.tar.PNG" = S!"PNG" := by decide
example : getExtension S!"noext" = S!"noext" := by decide
example : findContentType { defaults := [(S!"png", S!"image/x-png")] } S!"word/media/a.png" = some S!"image/x-png" := by
  decide
example : findContentType {} S!"word/media/a.JPG" = some S!"image/jpeg" := by rfl
example : findContentType { overrides := [(S!"word/media/a.bin", S!"image/gif")] } S!"word/media/a.bin"
    = some S!"image/gif" := by decide
example : findContentType {} S!"word/media/a.bin" = none := by decide

private def c17_exCfg : Cfg := { archive := [(S!"word/media/a.png", [77, 97, 110])] }
private def c17_exImg : ImageProps :=
  { altText := some S!"cat", contentType := some S!"image/png", src := .embedded S!"word/media/a.png" }
example : (visit c17_exCfg false (.image c17_exImg)).run {} =
    .ok ([el S!"img" [(S!"alt", S!"cat"), (S!"src", S!"data:image/png;base64," ++ b64encode [77, 97, 110])] []],
         { imageCalls := [c17_exImg] }) := by
  rw [C17_data_uri c17_exCfg false c17_exImg S!"word/media/a.png" [77, 97, 110] {} rfl rfl (by decide)]
  rfl
/-- a converter returning its own `alt` wins over the document's -/
example : Dict.get? S!"alt" (Dict.ofList (c17_altAttr c17_exImg ++ [(S!"alt", S!"dog"), (S!"src", S!"x")]))
    = some S!"dog" := by decide

private def c17_exInline : List XmlNode :=
  [.elem S!"wp:docPr" [(S!"descr", S!"  "), (S!"title", S!"T")] []]
example : c17_inlineAlt c17_exInline = some S!"T" := by decide
example : c17_inlineAlt [.elem S!"wp:docPr" [(S!"descr", S!" d "), (S!"title", S!"T")] []] = some S!" d " := by
  decide


/-! ## From the XML to the `<img>` tags: reader, converter, rendering, composition

  Specification of the reader half (Proofs/C17_XmlSpec.lean), by recursion on the XML tree, by element
  *name*, independent of the reader's dispatch table, state and fuel: `c17_xmlImages env b n` lists the images
  of `n` in READING ORDER — one for every `a:blip` (with `r:embed`, or else `r:link`) reached from a
  `wp:inline` / `wp:anchor` along `a:graphic/a:graphicData/pic:pic/pic:blipFill/a:blip`, one for every
  `v:imagedata` with an `r:id` — each as (source, content type by the lookup rules above, alt text);
  containers as for the text (C01): text boxes (`w:pict`) go to the `extra` channel and follow their host
  paragraph, content under `w:del` and non-fallback alternate content is left out, and a paragraph whose
  mark is a tracked deletion hands its content to the next paragraph opened (explicit buffer `b`).
  `c17_elemImages` reads the images off a document tree, in document order.

  Tables: as for C01, the reader's `calculate_row_spans` removes the cells it takes for vertical-merge
  continuations together with their content.  `C17_read_images_presweep` is the exact statement for all
  inputs; the equalities are for XML without `w:vMerge` continuation cells (`c01_noVMerge`), and
  `C17_read_images_sublist` says that in general images can only disappear (with such a cell), nothing is
  added or reordered. -/

/-- THE READER, one element, every environment / fuel / reader state.  Let `b = c17_pend env st.deleted` be the
    buffer that stands for the XML nodes the reader holds back when it starts.  If neither those nodes nor
    `n` contain a vertical-merge continuation cell, then whenever the reader succeeds the images of the
    elements it returns and of its `extra` result are exactly those of `c17_xmlImages env b n` (source,
    content type and alt text included), in order, and the buffer the specification ends with stands for
    the nodes the reader holds back at the end. -/
theorem C17_read_images_spec (env : REnv) (fuel : Nat) (st : RState) (n : XmlNode) (r : ReadResult)
    (st' : RState) (h : readElem env fuel st n = .ok (r, st'))
    (hvs : c01_noVMergeL st.deleted = true) (hv : c01_noVMerge n = true) :
    c17_elemImagesL r.elements = (c17_xmlImages env (c17_pend env st.deleted) n).live.inline ∧
    c17_elemImagesL r.extra = (c17_xmlImages env (c17_pend env st.deleted) n).live.extra ∧
    c17_pend env st'.deleted = (c17_xmlImages env (c17_pend env st.deleted) n).buf := by
  have p := c17_readElem_images env fuel st n r st' h
  have hs := p.sim
  rw [hvs, hv] at hs
  exact ⟨c17_Pre_eq hs.1, c17_Pre_eq hs.2, p.buf⟩

/-- THE READER, a story (`read_all` on the children of `w:body`, of a note, of a comment) read from the
    initial state: the images of the returned elements are `c17_storyImages env ns`, in reading order; those
    of the `extra` result (top-level text boxes, which `read_all` drops) are `c17_storyExtra env ns`. -/
theorem C17_read_images_spec_readAll (env : REnv) (fuel : Nat) (ns : List XmlNode) (r : ReadResult)
    (st' : RState) (h : readAll env fuel {} ns = .ok (r, st')) (hv : c01_noVMergeL ns = true) :
    c17_elemImagesL r.elements = c17_storyImages env ns ∧
    c17_elemImagesL r.extra = c17_storyExtra env ns ∧
    c17_pend env st'.deleted = (c17_xmlImagesL env [] ns).buf := by
  have p := c17_readAll_images env fuel {} ns r st' h
  have hs := p.sim
  have hb := p.buf
  rw [show c17_pend env ({} : RState).deleted = [] from c17_pend_nil env] at hs hb
  rw [hv] at hs
  exact ⟨c17_Pre_eq hs.1, c17_Pre_eq hs.2, hb⟩

/-- EVERY input, tables with merged cells included: the returned elements are the row-span sweep
    (`c01_spansL`: `calculate_row_spans` applied to every table, inner tables first) of a list of elements
    whose images are exactly the specified in-line images; the same for the extra result. -/
theorem C17_read_images_presweep (env : REnv) (fuel : Nat) (st : RState) (n : XmlNode) (r : ReadResult)
    (st' : RState) (h : readElem env fuel st n = .ok (r, st')) :
    (∃ pe, c01_spansL pe = r.elements ∧
      c17_elemImagesL pe = (c17_xmlImages env (c17_pend env st.deleted) n).live.inline) ∧
    (∃ px, c01_spansL px = r.extra ∧
      c17_elemImagesL px = (c17_xmlImages env (c17_pend env st.deleted) n).live.extra) ∧
    c17_pend env st'.deleted = (c17_xmlImages env (c17_pend env st.deleted) n).buf := by
  have p := c17_readElem_images env fuel st n r st' h
  obtain ⟨⟨pe, e1, e2, _⟩, ⟨px, x1, x2, _⟩⟩ := p.sim
  exact ⟨⟨pe, e1, e2⟩, ⟨px, x1, x2⟩, p.buf⟩

/-- EVERY input: no image is added or reordered — the images of the returned elements are a subsequence
    of the specified ones (what is missing sits in cells removed by `calculate_row_spans`). -/
theorem C17_read_images_sublist (env : REnv) (fuel : Nat) (ns : List XmlNode) (r : ReadResult)
    (st' : RState) (h : readAll env fuel {} ns = .ok (r, st')) :
    (c17_elemImagesL r.elements).Sublist (c17_storyImages env ns) ∧
    (c17_elemImagesL r.extra).Sublist (c17_storyExtra env ns) := by
  have p := c17_readAll_images env fuel {} ns r st' h
  have hs := p.sim
  rw [show c17_pend env ({} : RState).deleted = [] from c17_pend_nil env] at hs
  exact ⟨c17_Pre_sublist hs.1, c17_Pre_sublist hs.2⟩

/-- the row-span sweep can only remove images, and removes none from a tree without continuation marks -/
theorem C17_spans_images (es : List Elem) :
    (c17_elemImagesL (c01_spansL es)).Sublist (c17_elemImagesL es) ∧
    (c01_noVmL es = true → c17_elemImagesL (c01_spansL es) = c17_elemImagesL es) :=
  ⟨c17_spansL_sublist es, fun h => c17_spansL_images es h⟩

/-- without deleted paragraph marks nothing is ever deferred: the buffered specification is the plain
    structural one (`c17_xmlImagesPlain`: no buffer at all) -/
theorem C17_spec_agree (env : REnv) (ns : List XmlNode) (hn : c05_noDelL ns = true) :
    c17_xmlImagesL env [] ns = ⟨c17_xmlImagesPlainL env ns, []⟩ :=
  c17_xmlImagesL_noDel env ns hn

/-- the pieces of the specification of one image are the model's: the relationship lookup is last-wins,
    the part name is `uri_to_zip_entry_name("word", target)` (relative targets are taken from `word/`
    WHATEVER the directory of the part that holds the relationship — see the example at the end), a
    blank `descr` is one whose `strip()` is empty -/
theorem C17_spec_pieces (rs : Rels) (id t s : Str) (cs : List XmlNode) :
    c17_relTarget rs id = lookupLast id (rs.map fun r => (r.id, r.target)) ∧
    uriToZipEntryName S!"word" t = c17_partName t ∧
    (strip s).isEmpty = c17_isBlank s ∧
    c17_inlineAlt cs = c17_altText (findChildOrNull S!"wp:docPr" cs).1 :=
  ⟨c17_relTarget_eq rs id, c17_partName_eq t, c17_strip_isEmpty s, c17_inlineAlt_eq cs⟩

/-! ### the converter, every document tree -/

/-- THE CONVERTER, one element (any tree: paragraphs, runs, tables, hyperlinks, …), every configuration and
    every image converter of the modelled family.  If `visit` succeeds:
    (1) the image converter has been called exactly once for every image of the tree that is not below a
        paragraph, run or table mapped to `!`, in document order (`c17_visImages`) — the calls are
        appended to the log, nothing else is;
    (2) if no style mapping mentions an element named `img`, the `img` elements of the produced forest are,
        in document order, what the converter returns for these images (`c17_imgOf`: one `img` per image;
        none for an image that cannot be opened, which gets a warning instead). -/
theorem C17_visit_images (cfg : Cfg) (hdr : Bool) (e : Elem) (st st' : ConvState) (ns : List Node)
    (h : (visit cfg hdr e).run st = .ok (ns, st')) :
    st'.imageCalls = st.imageCalls ++ c17_visImages cfg e ∧
    (c17_noImgMap cfg = true → c17_imgs ns = (c17_visImages cfg e).flatMap (c17_imgOf cfg)) := by
  obtain ⟨h0, h1, _, _⟩ := c17_H_visit cfg hdr e st ns st' h
  exact ⟨h0, h1⟩

/-- the same for a sequence of elements: generalises `C17_images_in_order` from a flat list of images to
    arbitrary trees -/
theorem C17_visitAll_images (cfg : Cfg) (hdr : Bool) (es : List Elem) (st st' : ConvState) (ns : List Node)
    (h : (visitAll cfg hdr es).run st = .ok (ns, st')) :
    st'.imageCalls = st.imageCalls ++ c17_visImagesL cfg es ∧
    (c17_noImgMap cfg = true → c17_imgs ns = (c17_visImagesL cfg es).flatMap (c17_imgOf cfg)) := by
  obtain ⟨h0, h1, _, _⟩ := c17_H_visitAll cfg hdr es st ns st' h
  exact ⟨h0, h1⟩

/-- THE CONVERTER, whole documents.  The calls received by the image converter during
    `convert_document_element_to_html` are, in order: the visible images of the body, then those of the
    notes the body references (in reference order), then those of the comments referenced by the body and
    the rendered notes (`c17_docImages`) — one call each; and (no `img` in the style map) the `img`
    elements of the output forest are what the converter returned for them, in the same order. -/
theorem C17_visit_images_document (cfg : Cfg) (d : Document) (r : ConvResult)
    (h : convertDoc cfg d = .ok r) :
    r.imageCalls = c17_docImages (c10_docCfg cfg d) d ∧
    (c17_noImgMap cfg = true →
      c17_imgs r.nodes = (c17_docImages (c10_docCfg cfg d) d).flatMap (c17_imgOf cfg)) :=
  c17_convertDoc_images cfg d r h

/-- without `!` mappings every image of the tree is visible -/
theorem C17_visible_all (cfg : Cfg) (hm : c01_noIgnoreMap cfg = true) (es : List Elem) :
    c17_visImagesL cfg es = c17_elemImagesL es :=
  c17_visImagesL_noIgnore cfg hm es

/-- what the converters of the family return for one image: the default converter an `img` whose `src` is
    the data URI of the bytes `image.open()` yields (`c17_opened`) under the image's content type and
    whose `alt` is the (non-empty) alt text; nothing when the image cannot be opened -/
theorem C17_default_img (cfg : Cfg) (hc : cfg.imageConv = .dataUri) (i : ImageProps) :
    (c17_imgOf cfg i).map (fun t => c17_srcAltOf t.attrs) = (c17_expected cfg i).toList :=
  c17_imgOf_dataUri cfg hc i

/-! ### rendering -/

/-- SURVIVAL.  In a forest where every element named `img` is childless and no collapsible tag has `img`
    among its names (`c17_imgGood`), `strip_empty` keeps every `img` (it is void) and `collapse` merges
    nothing with or into one: the `img` tags of `collapse (strip_empty ns)` are those of `ns`, in order;
    and the written HTML — accepted by the strict lexer of C02 when names are plain — contains exactly these
    tags, all in the void form `<img … />`, with their attribute values intact. -/
theorem C17_imgs_survive_render (ns : List Node) (hg : c17_imgGood ns = true) :
    c17_imgs (collapse (stripEmpty ns)) = c17_imgs ns ∧
    (c02_plainNames ns = true →
      ∃ toks, c02_lexHtml (render ns) = some toks ∧
        c17_tokImgs toks = (c17_imgs ns).map (·.attrs) ∧
        c17_tokVoidImgs toks = (c17_imgs ns).map (·.attrs)) :=
  ⟨(c17_imgs_render ns hg).1, fun hp => c17_written_imgs ns hp hg⟩

/-- the forest the converter produces for ANY document is of that kind when no style mapping mentions `img`:
    the `img`s made by the image converter are fresh (`html.element`, not collapsible) and childless -/
theorem C17_converter_imgs_good (cfg : Cfg) (hm : c17_noImgMap cfg = true) (d : Document) (r : ConvResult)
    (h : convertDoc cfg d = .ok r) : c17_imgGood r.nodes = true :=
  c17_good_convertDoc cfg hm d r h

/-! ### composition -/

/-- FROM THE XML TO THE HTML TEXT, default converter.  Read a story `ns` (no vertical-merge continuation
    cells) as the body of a document with any notes and comments, convert it with the default image
    converter under a style map without `!`, without `img` and with plain names, and write it.  Then the
    strict lexer accepts the HTML; every `img` start tag in it has the void form; and the (`src`, `alt`)
    pairs of these tags are, in order, those prescribed (`c17_expected`) for the images of the XML in
    reading order (`c17_storyImages`) followed by the images of the rendered notes and comments: `src` is the
    data URI of exactly the bytes of the referenced part (`c17_opened`: the archive entry) under the
    content type the package declares for it, `alt` the drawing's alt text.  The same list is the log
    of converter calls. -/
theorem C17_xml_to_imgs (env : REnv) (fuel : Nat) (ns : List XmlNode) (r : ReadResult) (st' : RState)
    (h : readAll env fuel {} ns = .ok (r, st')) (hv : c01_noVMergeL ns = true)
    (cfg : Cfg) (hconv : cfg.imageConv = .dataUri) (hig : c01_noIgnoreMap cfg = true)
    (hi : c17_noImgMap cfg = true) (hp : c02_plainCfg cfg = true)
    (notes : List Note) (comments : List Comment) (res : ConvResult)
    (hr : convertDoc cfg { children := r.elements, notes := notes, comments := comments } = .ok res) :
    ∃ toks, c02_lexHtml (render res.nodes) = some toks ∧
      c17_tokImgs toks = c17_tokVoidImgs toks ∧
      (c17_tokVoidImgs toks).map c17_srcAltOf =
        (c17_storyImages env ns ++
          (c10_docNotes { cfg with comments := comments } ⟨r.elements, notes, comments⟩).flatMap
            (fun n => c17_elemImagesL n.body) ++
          (c10_docComments { cfg with comments := comments } ⟨r.elements, notes, comments⟩).flatMap
            (fun c => c17_elemImagesL c.body)).filterMap (c17_expected cfg) ∧
      res.imageCalls =
        c17_storyImages env ns ++
          (c10_docNotes { cfg with comments := comments } ⟨r.elements, notes, comments⟩).flatMap
            (fun n => c17_elemImagesL n.body) ++
          (c10_docComments { cfg with comments := comments } ⟨r.elements, notes, comments⟩).flatMap
            (fun c => c17_elemImagesL c.body) :=
  c17_xml_to_imgs env fuel ns r st' h hv cfg hconv hig hi hp notes comments res hr

/-- when every referenced part can be read (embedded parts exist in the archive — the decidable
    `c17_allPresent`), every image yields exactly one `img`: the list of `C17_xml_to_imgs` has as many entries
    as there are images (`filterMap` keeps the order) -/
theorem C17_one_img_per_image (cfg : Cfg) (is : List ImageProps) (h : c17_allPresent cfg is = true) :
    (is.filterMap (c17_expected cfg)).length = is.length :=
  c17_expected_length cfg is h

/-- THE PUBLIC API.  `mammoth.convert_to_html(package)` with the default image converter: `v` is what
    `docx.read` takes from the package (`c05_view`: shared environment, the relationships of the main
    document part, the children of its `w:body`, alternate content already collapsed).  The `<img … />` tags
    of the returned HTML are, in order, those prescribed for the images of the body XML in reading order,
    then of the rendered notes and comments; `out.imageCalls` is the same list of images. -/
theorem C17_package_to_imgs (p : Package) (v : c05_View) (hview : c05_view p = some v)
    (fuel : Nat) (base : Option Str) (world : Str → Option Bytes) (o : Options) (out : ApiOut)
    (h : apiConvert p fuel base world id o = .ok out)
    (hf : o.format = .html) (hc : o.imageConv = .dataUri) (hv : c01_noVMergeL v.body = true)
    (hig : c01_noIgnoreMap (c05_apiCfg p base world o (c17_embOf p o)) = true)
    (hi : c17_noImgMap (c05_apiCfg p base world o (c17_embOf p o)) = true)
    (hp : c02_plainCfg (c05_apiCfg p base world o (c17_embOf p o)) = true) :
    ∃ toks, c02_lexHtml out.value = some toks ∧
      c17_tokImgs toks = c17_tokVoidImgs toks ∧
      (c17_tokVoidImgs toks).map c17_srcAltOf =
        (c17_storyImages { v.shared with rels := v.bodyRels } v.body ++
          (c10_docNotes (c10_docCfg (c05_apiCfg p base world o (c17_embOf p o)) out.document) out.document).flatMap
            (fun n => c17_elemImagesL n.body) ++
          (c10_docComments (c10_docCfg (c05_apiCfg p base world o (c17_embOf p o)) out.document) out.document).flatMap
            (fun c => c17_elemImagesL c.body)).filterMap
          (c17_expected (c05_apiCfg p base world o (c17_embOf p o))) ∧
      out.imageCalls =
        c17_storyImages { v.shared with rels := v.bodyRels } v.body ++
          (c10_docNotes (c10_docCfg (c05_apiCfg p base world o (c17_embOf p o)) out.document) out.document).flatMap
            (fun n => c17_elemImagesL n.body) ++
          (c10_docComments (c10_docCfg (c05_apiCfg p base world o (c17_embOf p o)) out.document) out.document).flatMap
            (fun c => c17_elemImagesL c.body) :=
  c17_package_to_imgs p v hview fuel base world o out h hf hc hv hig hi hp

/-! ### non-vacuity: a package with three images (`Proofs/C17_Example.lean`)

  inline (`descr`), a VML `v:imagedata` inside a text box placed BEFORE the inline image in the XML of the same
  paragraph, an anchored drawing (blank `descr`, `title`) inside a table; content types by `Default`,
  `Override` and the built-in table (upper-case extension, absolute target). -/

/-- the specification: reading order is inline, text box, table; sources, types and alt texts -/
example : c17_storyImages c17_exEnv c17_exBody = c17_exImages ∧ c17_storyExtra c17_exEnv c17_exBody = [] := by
  decide +kernel
/-- the hypotheses of `C17_read_images_spec_readAll` and `C17_xml_to_imgs` hold for it: no continuation
    cell, the reader succeeds, a style map without `!` / `img` and with plain names, the default converter,
    every part present, the conversion succeeds -/
example : c01_noVMergeL c17_exBody = true ∧ c05_noDelL c17_exBody = true ∧
    c17_okAnd (readAll c17_exEnv 12 {} c17_exBody) (fun p =>
      decide (c17_elemImagesL p.1.elements = c17_exImages) &&
      c05_docOk { archive := archiveBytes c17_exPackage } { children := p.1.elements }) = true := by
  decide +kernel
example : c01_noIgnoreMap (c05_apiCfg c17_exPackage none (fun _ => none) c17_exOptions (c17_embOf c17_exPackage c17_exOptions)) = true ∧
    c17_noImgMap (c05_apiCfg c17_exPackage none (fun _ => none) c17_exOptions (c17_embOf c17_exPackage c17_exOptions)) = true ∧
    c02_plainCfg (c05_apiCfg c17_exPackage none (fun _ => none) c17_exOptions (c17_embOf c17_exPackage c17_exOptions)) = true ∧
    c17_allPresent (c05_apiCfg c17_exPackage none (fun _ => none) c17_exOptions (c17_embOf c17_exPackage c17_exOptions))
      c17_exImages = true := by
  decide +kernel
/-- the package is read (`c05_view`), its body has no continuation cell, its environment is `c17_exEnv` -/
example : (match c05_view c17_exPackage with
    | some v => c01_noVMergeL v.body && decide (v.bodyRels.map (·.target) = c17_exEnv.rels.map (·.target)) &&
        decide (v.shared.contentTypes.defaults = c17_exEnv.contentTypes.defaults) &&
        decide (v.shared.contentTypes.overrides = c17_exEnv.contentTypes.overrides)
    | none => false) = true := by decide +kernel
/-- and the whole API on it: three `<img … />`, in reading order, each with the data URI of exactly its
    part's bytes under the declared type and its alt text (the real library returns the same HTML) -/
example : c17_okAnd (apiConvert c17_exPackage 30 none (fun _ => none) id c17_exOptions) (fun out =>
    decide ((c02_lexHtml out.value).map (fun toks => (c17_tokVoidImgs toks).map c17_srcAltOf) =
      some [(some (S!"data:image/png;base64," ++ b64encode c17_exPng), some S!"first"),
            (some (S!"data:image/gif;base64," ++ b64encode c17_exGif), some S!"third"),
            (some (S!"data:image/jpeg;base64," ++ b64encode c17_exJpg), some S!"second")]) &&
    decide (out.imageCalls = c17_exImages)) = true := by decide +kernel
example : c17_exImages.filterMap (c17_expected { archive := archiveBytes c17_exPackage }) =
    [(some S!"data:image/png;base64,iVBORw==", some S!"first"),
     (some S!"data:image/gif;base64,R0lG", some S!"third"),
     (some S!"data:image/jpeg;base64,/9j/", some S!"second")] := by decide +kernel

/-- all hypotheses of `C17_xml_to_imgs` at once, for one configuration (the archive of the package, a small
    style map), the body of the package and no notes or comments -/
private def c17_exCfgX : Cfg :=
  { archive := archiveBytes c17_exPackage,
    styleMap := [⟨.paragraph (some S!"Heading1") none none, .elements [pathElem S!"h1" true]⟩] }
example : c17_exCfgX.imageConv = .dataUri := rfl
example : c01_noIgnoreMap c17_exCfgX = true ∧ c17_noImgMap c17_exCfgX = true ∧
    c02_plainCfg c17_exCfgX = true ∧ c01_noVMergeL c17_exBody = true ∧
    c17_okAnd (readAll c17_exEnv 12 {} c17_exBody) (fun p =>
      (convertDoc c17_exCfgX { children := p.1.elements, notes := [], comments := [] }).toBool) = true := by
  decide +kernel

/-- `C17_read_images_spec` from a non-initial state: a paragraph read while a run with an image is held
    back (by an earlier deleted paragraph mark) takes that image over, in front of its own -/
example : c01_noVMergeL [c17_exInlineImg] = true ∧ c01_noVMerge (c17_x S!"w:p" [c17_exAnchorImg]) = true ∧
    c17_okAnd (readElem c17_exEnv 10 { deleted := [c17_exInlineImg] } (c17_x S!"w:p" [c17_exAnchorImg]))
      (fun p => decide ((c17_elemImagesL p.1.elements).map (·.altText) = [some S!"first", some S!"second"]) &&
        decide (c17_pend c17_exEnv p.2.deleted = [])) = true ∧
    ((c17_xmlImages c17_exEnv (c17_pend c17_exEnv [c17_exInlineImg]) (c17_x S!"w:p" [c17_exAnchorImg])).live.inline).map
      (·.altText) = [some S!"first", some S!"second"] := by
  decide +kernel

/-- `C17_visit_images` / `C17_visit_images_document` on a document with an image in a table cell inside a
    hyperlink, one in a referenced footnote and one in a referenced comment; a custom converter that opens
    the image: three calls, in the order body, note, comment; three `img` elements with the converter's
    attributes -/
private def c17_exImgB : ImageProps := { c17_exImg with altText := some S!"note" }
private def c17_exImgC : ImageProps := { c17_exImg with altText := none }
private def c17_exDoc : Document :=
  { children := [.table none none [.row false [.cell 1 1 false [.paragraph {} [
        .hyperlink { href := some S!"http://x" } [.run {} [.image c17_exImg]],
        .run {} [.noteRef S!"footnote" S!"1", .commentRef S!"c1"]]]]]],
    notes := [⟨S!"footnote", S!"1", [.paragraph {} [.run {} [.image c17_exImgB]]]⟩],
    comments := [{ id := S!"c1", body := [.paragraph {} [.image c17_exImgC]] }] }
private def c17_exCfg2 : Cfg :=
  { archive := [(S!"word/media/a.png", [77, 97, 110])], imageConv := .fixed [(S!"src", S!"u")] true,
    styleMap := [⟨.commentReference, .elements [pathElem S!"sup" false]⟩] }
example : c17_noImgMap c17_exCfg2 = true ∧
    c17_docImages (c10_docCfg c17_exCfg2 c17_exDoc) c17_exDoc = [c17_exImg, c17_exImgB, c17_exImgC] ∧
    c17_okAnd (convertDoc c17_exCfg2 c17_exDoc) (fun r =>
      decide (r.imageCalls = [c17_exImg, c17_exImgB, c17_exImgC]) &&
      decide ((c17_imgs r.nodes).map (fun t => (Dict.get? S!"alt" t.attrs, Dict.get? S!"data-len" t.attrs)) =
        [(some S!"cat", some S!"3"), (some S!"note", some S!"3"), (none, some S!"3")])) = true := by
  decide +kernel

/-- `C17_imgs_survive_render`: two equal adjacent `img`s of the image converter stay two (they are fresh);
    the hypothesis is needed: two equal COLLAPSIBLE elements named `img` (not what the converter makes)
    merge into one -/
example : c17_imgGood [el S!"p" [] [el S!"img" [(S!"src", S!"u")] [], el S!"img" [(S!"src", S!"u")] []]] = true ∧
    (c17_imgs (collapse (stripEmpty [el S!"p" [] [el S!"img" [(S!"src", S!"u")] [], el S!"img" [(S!"src", S!"u")] []]]))).length = 2 ∧
    c17_imgGood [cel S!"img" [] [], cel S!"img" [] []] = false ∧
    (c17_imgs (collapse (stripEmpty [cel S!"img" [] [], cel S!"img" [] []]))).length = 1 := by
  decide +kernel

/-! ### the hypotheses are needed; what the specification says in corner cases -/

/-- `c17_noImgMap` is needed for the statement about `img` ELEMENTS (not for the calls): with `p => img` a
    paragraph becomes an `img` element that is no image -/
example : c17_noImgMap { styleMap := [⟨.paragraph none none none, .elements [pathElem S!"img" false]⟩] } = false ∧
    c17_okAnd ((visit { styleMap := [⟨.paragraph none none none, .elements [pathElem S!"img" false]⟩] } false
        (.paragraph {} [.text S!"x"])).run {})
      (fun p => decide ((c17_imgs p.1).length = 1) && decide (p.2.imageCalls = [])) = true := by decide +kernel

/-- an image below a run mapped to `!` is not visited: no call, no `img` -/
example : c17_visImages { styleMap := [⟨.run none (some (.equalTo S!"Hidden")), .ignore⟩] }
    (.paragraph {} [.run { styleName := some S!"Hidden" } [.image c17_exImg], .run {} [.image c17_exImg]])
    = [c17_exImg] := by decide +kernel

/-- a vertical-merge continuation cell with an image: the specification lists it, the reader's row-span
    sweep removes it with the cell (the sublist statement is strict; the real library drops it too);
    a deleted paragraph mark defers its image into the next paragraph opened — inside the table cell;
    an image under `w:del` is no image; of two blips the one with `r:embed` is embedded even if it also
    has `r:link`; a blip with neither gives nothing -/
private def c17_exInl (descr : Str) (g : List XmlNode) : XmlNode :=
  c17_x S!"w:r" [c17_x S!"w:drawing" [c17_x S!"wp:inline" (.elem S!"wp:docPr" [(S!"descr", descr)] [] :: g)]]
private def c17_exBlip (as : Attrs) : XmlNode := c17_x S!"pic:blipFill" [.elem S!"a:blip" as []]
private def c17_exBody2 : List XmlNode :=
  [ c17_x S!"w:p" [c17_exInl S!"two" [c17_x S!"a:graphic" [c17_x S!"a:graphicData" [
      c17_x S!"pic:pic" [c17_exBlip [(S!"r:embed", S!"rId1"), (S!"r:link", S!"rId2")], c17_exBlip [(S!"r:embed", S!"rId2")]],
      c17_x S!"pic:pic" [c17_exBlip []]]]]],
    c17_x S!"w:p" [c17_x S!"w:pPr" [c17_x S!"w:rPr" [c17_x S!"w:del" []]], c17_exInl S!"deferred" [c17_exGraphic S!"rId1"]],
    c17_x S!"w:tbl" [
      c17_x S!"w:tr" [c17_x S!"w:tc" [c17_x S!"w:tcPr" [.elem S!"w:vMerge" [(S!"w:val", S!"restart")] []],
        c17_x S!"w:p" [c17_exInl S!"top" [c17_exGraphic S!"rId1"]]]],
      c17_x S!"w:tr" [c17_x S!"w:tc" [c17_x S!"w:tcPr" [c17_x S!"w:vMerge" []],
        c17_x S!"w:p" [c17_exInl S!"cont" [c17_exGraphic S!"rId2"]]]]],
    c17_x S!"w:p" [c17_x S!"w:del" [c17_exInl S!"deleted" [c17_exGraphic S!"rId1"]]] ]
private def c17_exEnv2 : REnv :=
  { rels := [⟨S!"rId1", S!"media/a.png", []⟩, ⟨S!"rId2", S!"media/b.gif", []⟩] }
example : c01_noVMergeL c17_exBody2 = false ∧
    (c17_storyImages c17_exEnv2 c17_exBody2).map (fun i => (i.altText, i.contentType, i.src)) =
      [(some S!"two", some S!"image/png", .embedded S!"word/media/a.png"),
       (some S!"two", some S!"image/gif", .embedded S!"word/media/b.gif"),
       (some S!"deferred", some S!"image/png", .embedded S!"word/media/a.png"),
       (some S!"top", some S!"image/png", .embedded S!"word/media/a.png"),
       (some S!"cont", some S!"image/gif", .embedded S!"word/media/b.gif")] ∧
    c17_okAnd (readAll c17_exEnv2 12 {} c17_exBody2) (fun p =>
      decide ((c17_elemImagesL p.1.elements).map (·.altText) =
        [some S!"two", some S!"two", some S!"deferred", some S!"top"])) = true := by
  decide +kernel

/-- MODEL = CODE, AGAINST THE PROPERTY'S WORDING ("the referenced package part"): a relative image target is
    always resolved against `word/`, not against the directory of the part that holds the relationship.
    With the main document at `docs/document.xml` and an image relationship `media/image1.png`, the part read
    is `word/media/image1.png` (here an unrelated part with other bytes; a KeyError if it does not exist),
    not `docs/media/image1.png`.  The real library does the same (reproduced). -/
private def c17_exMisplaced : Package :=
  { parts := [
      (S!"_rels/.rels", .xml (c17_x S!"relationships:Relationships" [
        c17_exRel S!"rId1" S!"officeDocument" S!"docs/document.xml"])),
      (S!"docs/_rels/document.xml.rels", .xml (c17_x S!"relationships:Relationships" [
        c17_exRel S!"rId1" S!"image" S!"media/image1.png"])),
      (S!"docs/document.xml", .xml (c17_x S!"w:document" [c17_x S!"w:body" [c17_x S!"w:p" [c17_exInlineImg]]])),
      (S!"docs/media/image1.png", .bytes [1, 2, 3]),
      (S!"word/media/image1.png", .bytes [9, 9, 9]) ] }
example : c17_okAnd (apiConvert c17_exMisplaced 30 none (fun _ => none) id c17_exOptions) (fun out =>
    decide ((c02_lexHtml out.value).map (fun toks => (c17_tokVoidImgs toks).map c17_srcAltOf) =
      some [(some (S!"data:image/png;base64," ++ b64encode [9, 9, 9]), some S!"first")])) = true := by
  decide +kernel

/-- The tables of the library that this property's theorems consume (regenerated from /repo's source on this run) still have the
    content the model was validated against: the browser-friendly image types; the built-in extension -> image type table; the namespace URI -> prefix table.  An edit of one of them in the library changes model and code
    alike; it is this theorem that then no longer checks (`Proofs/Pins.lean`). -/
theorem C17_tables_as_validated :
    (sameSet Generated.browserImageTypes pin_browserImageTypes = true) ∧
    (Generated.imageExtensions = pin_imageExtensions) ∧
    (sameSet Generated.namespaces pin_namespaces = true) :=
  ⟨pins_browserImageTypes, pins_imageExtensions, pins_namespaces⟩

/-! ### round 7: every converter on an embedded part; the reader's type warning -/

/-- THE CONVERTER ON AN EMBEDDED IMAGE, every converter of the family, every state, part present or not.
    `convertImage` on an image whose source is the zip entry `name` is exactly this: if the archive has the
    entry (last entry of that name wins) with content `bytes`, one `img` and nothing else — for `data_uri`
    alt? ++ `src` = the data URI of `bytes` under the image's content type; for a custom converter returning
    `attrs`: alt? ++ `attrs` as given, in order, followed (when it reads the stream) by `data-len` = the
    number of bytes the stream delivered, i.e. `bytes.length` — the call is logged, no message, no I/O; if
    the entry is missing, a converter that opens the image raises `KeyError(name)` (no output at all) and
    one that does not open it still returns its `img`. -/
theorem C17_convert_embedded_exact (cfg : Cfg) (i : ImageProps) (name : Str) (st : ConvState)
    (hs : i.src = .embedded name) :
    (convertImage cfg i).run st =
      match lookupLast name cfg.archive with
      | some bytes => .ok ([c17x_imgFor cfg.imageConv i bytes], { st with imageCalls := st.imageCalls ++ [i] })
      | none => if c17x_opens cfg.imageConv then .error (.key name)
                else .ok ([c17x_imgFor cfg.imageConv i []], { st with imageCalls := st.imageCalls ++ [i] }) :=
  c17x_convert_embedded cfg i name st hs

/-- A custom converter that reads the stream, part present: exactly one `img`, attributes alt? ++ `attrs` ++
    `data-len`; read as a dictionary (last wins) every key the converter returned has the converter's value —
    `alt` included — unless it is `data-len`, which is the byte count of exactly the referenced part. -/
theorem C17_custom_converter_stream (cfg : Cfg) (i : ImageProps) (name : Str) (bytes : Bytes)
    (attrs : List (Str × Str)) (st : ConvState)
    (hc : cfg.imageConv = .fixed attrs true) (hs : i.src = .embedded name)
    (h : lookupLast name cfg.archive = some bytes) :
    (convertImage cfg i).run st =
      .ok ([el S!"img" (c17_altAttr i ++ attrs ++ [(S!"data-len", natToStr bytes.length)]) []],
           { st with imageCalls := st.imageCalls ++ [i] }) ∧
    Dict.get? S!"data-len" (Dict.ofList (c17_altAttr i ++ attrs ++ [(S!"data-len", natToStr bytes.length)])) =
      some (natToStr bytes.length) ∧
    ∀ k, k ≠ S!"data-len" →
      Dict.get? k (Dict.ofList (c17_altAttr i ++ attrs ++ [(S!"data-len", natToStr bytes.length)])) =
        (lookupLast k attrs).or (lookupLast k (c17_altAttr i)) := by
  refine ⟨?_, ?_, ?_⟩
  · rw [C17_convert_embedded_exact cfg i name st hs, h, hc]; rfl
  · rw [c17_get_ofList, c17_lookupLast_append]; simp [lookupLast]
  · intro k hk
    rw [c17_get_ofList, c17_lookupLast_append, c17_lookupLast_append]
    have : lookupLast k [(S!"data-len", natToStr bytes.length)] = none := by
      simp [lookupLast, hk]
    rw [this]; rfl

/-- THE READER'S TYPE WARNING.  `_read_image` returns (besides the one image element, `C17_readImage_typed`)
    no extra element and: no message iff the looked-up content type is one of the browser-friendly types;
    otherwise exactly one message, `Image of type <type or None> is unlikely to display in web browsers`. -/
theorem C17_readImage_warning (env : REnv) (path : Str) (src : ImageSrc) (alt : Option Str) :
    (readImage env path src alt).extra = [] ∧
    (readImage env path src alt).messages =
      (match findContentType env.contentTypes path with
        | some c => if Generated.browserImageTypes.contains c then []
                    else [S!"Image of type " ++ c ++ S!" is unlikely to display in web browsers"]
        | none => [S!"Image of type None is unlikely to display in web browsers"]) ∧
    ((readImage env path src alt).messages = [] ↔
      ∃ c, findContentType env.contentTypes path = some c ∧ Generated.browserImageTypes.contains c = true) := by
  have h := c17x_readImage_messages env path src alt
  refine ⟨h.2, h.1, ?_⟩
  rw [h.1]; unfold c17x_typeWarning
  cases findContentType env.contentTypes path with
  | none => simp
  | some c => cases hb : Generated.browserImageTypes.contains c <;> simp [hb]

#print axioms C17_convert_embedded_exact
#print axioms C17_custom_converter_stream
#print axioms C17_readImage_warning

/-- non-vacuity: a custom converter reading the 3-byte part; a missing part under the default converter is a
    KeyError, under a non-opening converter still an `img`; png is browser-friendly, bmp and "no type" warn -/
example : (convertImage { c17_exCfg with imageConv := .fixed [(S!"alt", S!"dog"), (S!"src", S!"u")] true } c17_exImg).run {} =
    .ok ([el S!"img" [(S!"alt", S!"cat"), (S!"alt", S!"dog"), (S!"src", S!"u"), (S!"data-len", S!"3")] []],
         { imageCalls := [c17_exImg] }) := by rfl
example : (convertImage {} c17_exImg).run {} = .error (.key S!"word/media/a.png") ∧
    (convertImage { imageConv := .fixed [(S!"src", S!"u")] false } c17_exImg).run {} =
      .ok ([el S!"img" [(S!"alt", S!"cat"), (S!"src", S!"u")] []], { imageCalls := [c17_exImg] }) := ⟨rfl, rfl⟩
example : (readImage {} S!"word/media/a.png" (.embedded S!"word/media/a.png") none).messages = [] ∧
    (readImage {} S!"word/media/a.bmp" (.embedded S!"word/media/a.bmp") none).messages =
      [S!"Image of type image/bmp is unlikely to display in web browsers"] ∧
    (readImage {} S!"word/media/a.bin" (.embedded S!"word/media/a.bin") none).messages =
      [S!"Image of type None is unlikely to display in web browsers"] := by decide +kernel

end Mammoth
