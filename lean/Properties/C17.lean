/-
  C17 — images arrive intact, typed and in order.
-/
import Proofs.C17_Base64
import Proofs.C17_Images
namespace Mammoth

/-! ### base64 -/

/-- Decoding the base64 text produced for ANY byte list gives exactly those bytes back: the data URI
    of an image carries the image bytes intact (no loss at the 1- or 2-byte tail, no size bound). -/
theorem C17_base64_roundtrip (bs : List UInt8) : b64decode (b64encode bs) = some bs :=
  c17_roundtrip bs

/-- consequently two different images never get the same base64 text -/
theorem C17_b64_injective (a b : List UInt8) (h : b64encode a = b64encode b) : a = b := by
  have := C17_base64_roundtrip a
  rw [h, C17_base64_roundtrip b] at this
  exact (Option.some.inj this).symm

/-- The output length is `4 * ceil(n / 3)` characters for `n` input bytes. -/
theorem C17_b64_length (bs : List UInt8) : (b64encode bs).length = 4 * ((bs.length + 2) / 3) :=
  c17_length bs

/-- Every output character is one of the 64 alphabet characters or the padding `=`. -/
theorem C17_b64_alphabet (bs : List UInt8) (ch : Char) (h : ch ∈ b64encode bs) :
    ch ∈ b64Alphabet ∨ ch = '=' := c17_alphabet bs ch h

/-! ### content types -/

/-- `find_content_type` is this decision list (`Option.or` = first `some` wins): the override
    registered for exactly this part name; else the default registered for the exact (case-sensitive)
    extension; else `"image/" ++` the built-in type of the lower-cased extension; else none. -/
theorem C17_content_type_lookup (ct : ContentTypes) (path : Str) :
    findContentType ct path =
      (lookupLast path ct.overrides).or
        ((lookupLast (getExtension path) ct.defaults).or
          ((lookupLast (lowerAscii (getExtension path)) Generated.imageExtensions).map (S!"image/" ++ ·))) :=
  c17_findContentType_eq ct path

/-- an override for the part wins over everything else -/
theorem C17_content_type_override (ct : ContentTypes) (path c : Str)
    (h : lookupLast path ct.overrides = some c) : findContentType ct path = some c := by
  simp [C17_content_type_lookup, h]

/-- without an override, a declared default for the extension wins over the built-in table -/
theorem C17_content_type_default (ct : ContentTypes) (path c : Str)
    (ho : lookupLast path ct.overrides = none)
    (h : lookupLast (getExtension path) ct.defaults = some c) : findContentType ct path = some c := by
  simp [C17_content_type_lookup, ho, h]

/-- with neither, the built-in table for the lower-cased extension decides (and may say "unknown") -/
theorem C17_content_type_builtin (ct : ContentTypes) (path : Str)
    (ho : lookupLast path ct.overrides = none)
    (h : lookupLast (getExtension path) ct.defaults = none) :
    findContentType ct path =
      (lookupLast (lowerAscii (getExtension path)) Generated.imageExtensions).map (S!"image/" ++ ·) := by
  simp [C17_content_type_lookup, ho, h]

/-- The extension is the text after the LAST `.`; a path without any `.` is its own extension
    (`path.rpartition(".")[2]`). -/
theorem C17_getExtension :
    (∀ pre ext : Str, '.' ∉ ext → getExtension (pre ++ '.' :: ext) = ext) ∧
    (∀ path : Str, '.' ∉ path → getExtension path = path) :=
  ⟨c17_getExtension_dot, c17_getExtension_nodot⟩

/-- the reader attaches to an image exactly the looked-up content type, the given alt text and source -/
theorem C17_readImage_typed (env : REnv) (path : Str) (src : ImageSrc) (alt : Option Str) :
    (readImage env path src alt).elements =
      [.image { altText := alt, contentType := findContentType env.contentTypes path, src := src }] := by
  simp only [readImage]; repeat' split
  all_goals rfl

/-! ### the converter -/

/-- The default converter (`data_uri`) on an embedded image whose entry `name` is in the archive with
    content `bytes` succeeds, logs the call, emits no message, and yields exactly one void `img` element
    with attribute list `alt?` ++ `src = "data:" ++ content type ++ ";base64," ++ b64encode bytes`,
    where `alt?` is `[("alt", a)]` iff the alt text is present and non-empty. -/
theorem C17_data_uri (cfg : Cfg) (hdr : Bool) (i : ImageProps) (name : Str) (bytes : Bytes) (st : ConvState)
    (hc : cfg.imageConv = .dataUri) (hs : i.src = .embedded name)
    (h : lookupLast name cfg.archive = some bytes) :
    (visit cfg hdr (.image i)).run st =
      .ok ([el S!"img" ((match i.altText with
                          | some a => if a.isEmpty then [] else [(S!"alt", a)]
                          | none => []) ++
              [(S!"src", S!"data:" ++ pyOpt i.contentType ++ S!";base64," ++ b64encode bytes)]) []],
           { st with imageCalls := st.imageCalls ++ [i] }) := by
  rw [visit]
  exact c17_convert_dataUri cfg i name bytes st hc hs h

/-- read back from the element: `src` is the data URI; `alt` is present iff the alt text is non-empty -/
theorem C17_data_uri_attrs (i : ImageProps) (src : Str) :
    Dict.get? S!"src" (Dict.ofList (c17_altAttr i ++ [(S!"src", src)])) = some src ∧
    Dict.get? S!"alt" (Dict.ofList (c17_altAttr i ++ [(S!"src", src)])) =
      (match i.altText with
        | some a => if a.isEmpty then none else some a
        | none => none) := by
  simp only [c17_get_ofList, c17_lookupLast_append]
  constructor
  · simp [lookupLast]
  · unfold c17_altAttr
    cases i.altText with
    | none => simp [lookupLast]
    | some a => by_cases ha : a.isEmpty <;> simp [lookupLast, ha]

/-- A custom converter (`img_element(f)` where `f` returns `attrs` without opening the image) yields one
    `img` whose attributes are the alt attribute followed by `attrs`; because the attribute dictionary is
    built last-wins, any attribute `k` returned by the converter — in particular `alt` — overrides the
    document's alt text, and the document's alt text is used only when the converter returns none. -/
theorem C17_converter_alt_overrides (cfg : Cfg) (i : ImageProps) (attrs : List (Str × Str)) (st : ConvState)
    (hc : cfg.imageConv = .fixed attrs false) :
    (convertImage cfg i).run st =
      .ok ([el S!"img" (c17_altAttr i ++ attrs) []], { st with imageCalls := st.imageCalls ++ [i] }) ∧
    ∀ k, Dict.get? k (Dict.ofList (c17_altAttr i ++ attrs)) =
      (lookupLast k attrs).or (lookupLast k (c17_altAttr i)) := by
  constructor
  · rw [c17_convertImage_run]; unfold c17_finish; simp only [hc]; rfl
  · intro k; rw [c17_get_ofList, c17_lookupLast_append]

/-- Whatever the converter and whatever the source (embedded, linked, found or not): a successful
    `convertImage` appends exactly one entry — the image's properties — to the log of converter calls,
    at the end. -/
theorem C17_image_call_logged (cfg : Cfg) (i : ImageProps) (st st' : ConvState) (ns : List Node)
    (h : (convertImage cfg i).run st = .ok (ns, st')) : st'.imageCalls = st.imageCalls ++ [i] := by
  rw [c17_convertImage_run] at h
  exact c17_finish_calls cfg i _ st' ns h

/-- In order: converting a sequence of images calls the converter once per image, in document order. -/
theorem C17_images_in_order (cfg : Cfg) (hdr : Bool) (is : List ImageProps) (st st' : ConvState)
    (ns : List Node) (h : (visitAll cfg hdr (is.map Elem.image)).run st = .ok (ns, st')) :
    st'.imageCalls = st.imageCalls ++ is := by
  induction is generalizing st st' ns with
  | nil => rw [List.map_nil, visitAll] at h; cases h; simp
  | cons i rest ih =>
    rw [List.map_cons, visitAll, visit] at h
    simp only [c17_run_bind] at h
    split at h
    · rename_i a s h1
      have e1 := C17_image_call_logged cfg i st s a h1
      split at h
      · rename_i b s2 h2
        have e2 := ih s s2 b h2
        simp only [c17_run_pure] at h
        cases h
        rw [e2, e1]; simp
      · cases h
    · cases h

/-! ### the reader -/

/-- `wp:inline` / `wp:anchor`: every `a:blip` found is read with the same alt text, `c17_inlineAlt`. -/
theorem C17_inline_uses_alt (env : REnv) (cs : List XmlNode) :
    readInline env cs =
      ((c17_inlineBlips cs).mapM fun (b : Attrs × List XmlNode) => readBlip env b.1 (c17_inlineAlt cs)).map
        (fun (rs : List ReadResult) => rs.foldl ReadResult.concat {}) :=
  c17_readInline_eq env cs

/-- The alt text is the `descr` attribute of `wp:docPr` when it is present and not blank (its `strip()` is
    non-empty); otherwise — absent, empty or only white space — it is the `title` attribute (possibly
    absent). -/
theorem C17_alt_precedence (cs : List XmlNode) :
    (∀ d, attr? S!"descr" (findChildOrNull S!"wp:docPr" cs).1 = some d → (strip d).isEmpty = false →
        c17_inlineAlt cs = some d) ∧
    (∀ d, attr? S!"descr" (findChildOrNull S!"wp:docPr" cs).1 = some d → (strip d).isEmpty = true →
        c17_inlineAlt cs = attr? S!"title" (findChildOrNull S!"wp:docPr" cs).1) ∧
    (attr? S!"descr" (findChildOrNull S!"wp:docPr" cs).1 = none →
        c17_inlineAlt cs = attr? S!"title" (findChildOrNull S!"wp:docPr" cs).1) := by
  refine ⟨?_, ?_, ?_⟩
  · intro d h1 h2; simp [c17_inlineAlt, h1, h2]
  · intro d h1 h2; simp [c17_inlineAlt, h1, h2]
  · intro h1; simp [c17_inlineAlt, h1, strip, rstripWs, lstripWs]

/-- `a:blip`: `r:embed` wins over `r:link` (the link is not even looked up); with only `r:link` the image
    is linked (its path for the content type is the target itself); with neither, the result is just the
    warning. -/
theorem C17_embed_over_link (env : REnv) (as : Attrs) (alt : Option Str) :
    (∀ rid, attr? S!"r:embed" as = some rid → readBlip env as alt = readEmbeddedImage env rid alt) ∧
    (∀ rid, attr? S!"r:embed" as = none → attr? S!"r:link" as = some rid →
        readBlip env as alt = (env.rels.targetById rid).map fun t => readImage env t (.linked t) alt) ∧
    (attr? S!"r:embed" as = none → attr? S!"r:link" as = none →
        readBlip env as alt = .ok (rrMsg S!"Could not find image file for a:blip element")) := by
  refine ⟨?_, ?_, ?_⟩
  · intro rid h; simp [readBlip, h]
  · intro rid h1 h2; simp only [readBlip, h1, h2]
    cases env.rels.targetById rid <;> rfl
  · intro h1 h2; simp [readBlip, h1, h2]

/-- an embedded image is opened at the zip entry named by its relationship target (relative to `word/`,
    or absolute when it starts with `/`), and typed by that entry name -/
theorem C17_embedded_entry (env : REnv) (rid t : Str) (alt : Option Str)
    (h : env.rels.targetById rid = .ok t) :
    readEmbeddedImage env rid alt =
      .ok (readImage env (uriToZipEntryName S!"word" t) (.embedded (uriToZipEntryName S!"word" t)) alt) := by
  simp only [readEmbeddedImage, h]; rfl

/-! ### non-vacuity -/

example : b64encode [77, 97, 110] = S!"TWFu" := by decide
example : b64encode [77, 97] = S!"TWE=" := by decide
example : b64encode [77] = S!"TQ==" := by decide
example : b64decode S!"TWE=" = some [77, 97] := by decide
example : b64encode [255, 254, 253, 252] = S!"//79/A==" := by decide
example : getExtension S!"word/media/image1.tar.PNG" = S!"PNG" := by decide
example : getExtension S!"noext" = S!"noext" := by decide
example : findContentType { defaults := [(S!"png", S!"image/x-png")] } S!"word/media/a.png" = some S!"image/x-png" := by
  decide
example : findContentType {} S!"word/media/a.JPG" = some S!"image/jpeg" := by rfl
example : findContentType { overrides := [(S!"word/media/a.bin", S!"image/gif")] } S!"word/media/a.bin"
    = some S!"image/gif" := by decide
example : findContentType {} S!"word/media/a.bin" = none := by decide

private def c17_exCfg : Cfg := { archive := [(S!"word/media/a.png", [77, 97, 110])] }
private def c17_exImg : ImageProps :=
  { altText := some S!"cat", contentType := some S!"image/png", src := .embedded S!"word/media/a.png" }
example : (visit c17_exCfg false (.image c17_exImg)).run {} =
    .ok ([el S!"img" [(S!"alt", S!"cat"), (S!"src", S!"data:image/png;base64," ++ b64encode [77, 97, 110])] []],
         { imageCalls := [c17_exImg] }) := by
  rw [C17_data_uri c17_exCfg false c17_exImg S!"word/media/a.png" [77, 97, 110] {} rfl rfl (by decide)]
  rfl
/-- a converter returning its own `alt` wins over the document's -/
example : Dict.get? S!"alt" (Dict.ofList (c17_altAttr c17_exImg ++ [(S!"alt", S!"dog"), (S!"src", S!"x")]))
    = some S!"dog" := by decide

private def c17_exInline : List XmlNode :=
  [.elem S!"wp:docPr" [(S!"descr", S!"  "), (S!"title", S!"T")] []]
example : c17_inlineAlt c17_exInline = some S!"T" := by decide
example : c17_inlineAlt [.elem S!"wp:docPr" [(S!"descr", S!" d "), (S!"title", S!"T")] []] = some S!" d " := by
  decide

end Mammoth
