/-
  C13 — conversion depends on what the package says, not on how it spells it.

  The pipeline reads a part in two steps: `parse_xml` turns the namespace-resolved DOM of
  `xml.dom.minidom` into `XmlNode`s (`MammothModel/Dom.lean`), and everything downstream
  (`office_xml`, the body reader, the part lookup) only ever sees those `XmlNode`s.  So a spelling
  difference that `convertNode` erases cannot influence the output or the messages; the first group
  of theorems shows which differences it erases.  The second group is about spelling differences
  that survive into the `XmlNode`s (text chunking, white space between elements, ignored elements,
  absolute vs. relative relationship targets) and are erased by the reader / the part lookup.
-/
import Proofs.C13_Dom
import Proofs.C13_Reader
import Proofs.C13_Container
import Proofs.Pins
namespace Mammoth

/-! ## 1. what `parse_xml` erases -/

/-- Prefixes and default namespaces.  `parse_xml` reads `namespaceURI` and `localName` only, never
    `prefix`/`nodeName`; the model's `DomNode` therefore has no prefix field, and THAT modelling
    decision (checked against the code by differential testing of `convertNode`) is where
    independence from the choice of prefixes, including the use of a default namespace, lives.
    What is proved here is only the bookkeeping consequence: take a DOM that does carry prefixes
    (`c13_PNode`), relabel all prefixes by an arbitrary function `r` (elements and attributes;
    `r _ = none` is "use a default namespace"), and the converted tree is the same, because the
    prefix-free view `c13_erasePrefix` that `convertNode` consumes is the same. -/
theorem C13_prefix_free (T : List (Str × Str)) (r : Option Str → Option Str) (d : c13_PNode) :
    convertNode T (c13_erasePrefix (c13_relabel r d)) = convertNode T (c13_erasePrefix d) := by
  rw [c13_erase_relabel]

/-- Strict vs. Transitional.  `c13_swapNs` exchanges the two URIs that `office_xml._namespaces`
    lists under the same prefix (for `w`, `r`, `wp`, `a`, `pic`) and fixes every other string.
    Rewriting EVERY namespace URI of ANY DOM tree (element names and attribute names, at every
    depth) with it does not change the parse result.  No hypothesis on the tree is needed: URIs
    outside the table are fixed by the swap, URIs inside have the same prefix as their image. -/
theorem C13_strict_transitional (d : DomNode) : parseXml (c13_mapNs c13_swapNs d) = parseXml d :=
  c13_convertNode_swap d

/-- the swap is an involution (so the previous theorem covers both directions) … -/
theorem C13_swap_involutive (uri : Str) : c13_swapNs (c13_swapNs uri) = uri := c13_swap_involutive uri

/-- … and it really moves the five WordprocessingML/DrawingML namespaces -/
example : c13_swapNs S!"http://schemas.openxmlformats.org/wordprocessingml/2006/main"
    = S!"http://purl.oclc.org/ooxml/wordprocessingml/main" := by decide
example : c13_swapNs S!"http://purl.oclc.org/ooxml/officeDocument/relationships"
    = S!"http://schemas.openxmlformats.org/officeDocument/2006/relationships" := by decide
example : c13_swapNs S!"http://schemas.openxmlformats.org/drawingml/2006/picture"
    = S!"http://purl.oclc.org/ooxml/drawingml/picture" := by decide
example : c13_swapNs S!"urn:schemas-microsoft-com:vml" = S!"urn:schemas-microsoft-com:vml" := by decide
example : (Generated.namespaces.filter fun pu => c13_swapNs pu.2 != pu.2).length = 10 := by decide

/-- Comments and processing instructions, anywhere: deleting all of them at every depth
    (`c13_stripNoise`) does not change the converted tree … -/
theorem C13_comments_pis_invisible (T : List (Str × Str)) (d : DomNode) :
    convertNode T (c13_stripNoise d) = convertNode T d := c13_convertNode_stripNoise T d

/-- … the same for a list of siblings, either recursively or just at this level (`filter`) … -/
theorem C13_comments_pis_invisible_list (T : List (Str × Str)) (ds : List DomNode) :
    convertNodes T (c13_stripNoiseL ds) = convertNodes T ds
    ∧ convertNodes T (ds.filter c13_notCommentOrPi) = convertNodes T ds :=
  ⟨c13_convertNodes_stripNoise T ds, c13_convertNodes_filter T ds⟩

/-- … and inserting ONE comment or PI `x` between any two siblings changes nothing. -/
theorem C13_comment_pi_insert (T : List (Str × Str)) (a b : List DomNode) (x : DomNode)
    (hx : c13_notCommentOrPi x = false) : convertNodes T (a ++ x :: b) = convertNodes T (a ++ b) := by
  cases x <;> simp_all [c13_notCommentOrPi, c13_convertNodes_append, c13_convertNodes_cons]

/-- A CDATA section converts exactly like a text node with the same characters … -/
theorem C13_cdata_as_text (T : List (Str × Str)) (s : Str) :
    convertNode T (.cdata s) = convertNode T (.text s) := by simp

/-- … hence replacing every CDATA section of a tree by a text node changes nothing. -/
theorem C13_cdata_as_text_deep (T : List (Str × Str)) (d : DomNode) :
    convertNode T (c13_cdataToText d) = convertNode T d := c13_convertNode_cdataToText T d

/-- Namespace declarations (`xmlns="…"`, `xmlns:p="…"`; in the DOM: attributes in the xmlns
    namespace) are dropped: adding one to any element changes nothing … -/
theorem C13_xmlns_dropped (T : List (Str × Str)) (ns : Option Str) (l : Str) (a b : List DomAttr)
    (x : DomAttr) (hx : x.ns = some xmlnsUri) (cs : List DomNode) :
    convertNode T (.elem ns l (a ++ x :: b) cs) = convertNode T (.elem ns l (a ++ b) cs) := by
  simp only [c13_convertNode_elem, convertAttrs]
  rw [c13_convertAttrPairs_insert T a b x (by simp [c13_isXmlnsDecl, hx])]

/-- … and removing all of them from a whole tree changes nothing. -/
theorem C13_xmlns_dropped_deep (T : List (Str × Str)) (d : DomNode) :
    convertNode T (c13_stripXmlns d) = convertNode T d := c13_convertNode_stripXmlns T d

/-! ## 2. what the reader erases -/

/-- Text chunking: `_inner_text` (used for `w:t` and `w:instrText`) of a node list does not change
    when two adjacent text nodes are merged into one (or one is split in two) anywhere … -/
theorem C13_text_split (a b : List XmlNode) (s t : Str) :
    innerTextL (a ++ [.text s, .text t] ++ b) = innerTextL (a ++ [.text (s ++ t)] ++ b) := by
  simp [c13_innerTextL_append, List.append_assoc]

/-- … nor when ALL runs of adjacent text nodes, at every depth, are merged. -/
theorem C13_text_merge (ns : List XmlNode) : innerTextL (c13_mergeTextL ns) = innerTextL ns :=
  c13_innerTextL_merge ns

/-- an empty text node contributes nothing -/
theorem C13_text_empty (a b : List XmlNode) : innerTextL (a ++ .text [] :: b) = innerTextL (a ++ b) := by
  simp [c13_innerTextL_append]

/-- White space (indeed any text) between elements: `_read_xml_elements` only dispatches on
    elements, for every element reader `rd` and state. -/
theorem C13_whitespace_between_elements (rd : RState → XmlNode → Except Err (ReadResult × RState))
    (st : RState) (ns : List XmlNode) :
    readAllWith rd st (ns.filter c13_isElem) = readAllWith rd st ns := c13_readAllWith_filter rd st ns

/-- An element whose name is in the ignore list (`w:sectPr`, `w:proofErr`, `w:bookmarkEnd`,
    `w:commentRangeEnd`, …; none of them has a handler — checked on the extracted tables) is read
    as the empty result — no element, no message — and leaves the reader state untouched,
    whatever its attributes and content. -/
theorem C13_ignored_element_empty (env : REnv) (f : Nat) (st : RState) (name : Str) (as : Attrs)
    (cs : List XmlNode) (h : Generated.ignored.contains name = true) :
    readElem env (f + 1) st (.elem name as cs) = .ok ({}, st) := c13_readElem_ignored env f st name as cs h

/-- General form: a node that the element reader maps to the empty result without touching the
    state may be inserted between, or removed from between, any siblings. -/
theorem C13_neutral_node_invisible (rd : RState → XmlNode → Except Err (ReadResult × RState))
    (n : XmlNode) (hn : ∀ st, rd st n = .ok ({}, st)) (a b : List XmlNode) (st : RState) :
    readAllWith rd st (a ++ [n] ++ b) = readAllWith rd st (a ++ b) := by
  simpa using c13_readAllWith_insert rd n hn a b st

/-- Hence an ignored element among the children handed to the dispatcher loop (with the fuel the
    loop has whenever it runs at all) is invisible: same elements, same messages, same state. -/
theorem C13_ignored_elements_invisible (env : REnv) (f : Nat) (st : RState) (name : Str) (as : Attrs)
    (cs : List XmlNode) (h : Generated.ignored.contains name = true) (a b : List XmlNode) :
    readAllWith (readElem env (f + 1)) st (a ++ [.elem name as cs] ++ b)
      = readAllWith (readElem env (f + 1)) st (a ++ b) :=
  C13_neutral_node_invisible _ _ (fun st' => c13_readElem_ignored env f st' name as cs h) a b st

/-- One level down: an ignored element `x` as a CHILD of any element `nm` that the reader handles
    (paragraph, run, hyperlink, table, row, cell, drawing, text box, smart tag, sdt, …).  If `x`'s name
    is not one of the ten names handlers look up among their element's children (`c13_lookedUp`:
    `w:pPr`, `w:rPr`, `w:tblPr`, … — these are in the ignore list too, but they are read by their
    parent) and `x` contains no text, then the parent reads the same with or without `x`: same elements,
    messages and state.  Two handlers keep the raw child list for later and are therefore excluded:
    `w:fldChar` (`hfld`) and a paragraph marked as deleted (`hdel`). -/
theorem C13_ignored_child_invisible (env : REnv) (f : Nat) (st : RState) (nm : Str) (as : Attrs)
    (xn : Str) (xas : Attrs) (xcs : List XmlNode) (a b : List XmlNode)
    (hi : Generated.ignored.contains xn = true) (hl : c13_lookedUp.contains xn = false)
    (ht : innerTextL xcs = [])
    (hfld : handlerOf nm ≠ some S!"read_fld_char")
    (hdel : handlerOf nm = some S!"paragraph" →
      (findChild S!"w:del" (findChildOrNull S!"w:rPr" (findChildOrNull S!"w:pPr" (a ++ b)).2).2).isSome = false) :
    readElem env (f + 2) st (.elem nm as (a ++ [.elem xn xas xcs] ++ b))
      = readElem env (f + 2) st (.elem nm as (a ++ b)) := by
  simpa using c13_container env f st nm as xn xas xcs a b hi hl ht hfld hdel

/-- the marker elements of the property statement qualify -/
example : [S!"w:sectPr", S!"w:proofErr", S!"w:bookmarkEnd", S!"w:commentRangeStart", S!"w:commentRangeEnd",
           S!"w:lastRenderedPageBreak"].all
    (fun n => Generated.ignored.contains n && !c13_lookedUp.contains n) = true := by decide

/-- `<w:p><w:r>…</w:r><w:proofErr w:type="spellEnd"/></w:p>` reads like `<w:p><w:r>…</w:r></w:p>` -/
example (env : REnv) (st : RState) (rcs : List XmlNode) :
    readElem env 5 st (.elem S!"w:p" [] ([.elem S!"w:r" [] rcs] ++ [.elem S!"w:proofErr" [(S!"w:type", S!"spellEnd")] []] ++ []))
      = readElem env 5 st (.elem S!"w:p" [] ([.elem S!"w:r" [] rcs] ++ [])) :=
  C13_ignored_child_invisible env 3 st _ _ _ _ _ _ _ (by decide) (by decide) rfl (by decide) (fun _ => by rfl)

/-! ## 3. parts located through relationships -/

/-- `_find_part_path` picks the first relationship target of the requested type (in document
    order, after normalisation) that exists in the package, and the fallback name otherwise;
    it looks at the package only through `exists`. -/
theorem C13_part_lookup (p : Package) (rels : Rels) (ty base fb : Str) :
    findPartPath p rels ty base fb
      = (((rels.targetsByType ty).map (c13_normTarget base)).find? p.exists).getD fb := by
  unfold findPartPath
  have : (List.map (fun t => lstripChar '/' (joinPath [base, t])) (rels.targetsByType ty))
       = (rels.targetsByType ty).map (c13_normTarget base) := rfl
  rw [this]
  generalize (rels.targetsByType ty).map (c13_normTarget base) = xs
  induction xs with
  | nil => rfl
  | cons x xs ih =>
    by_cases hx : p.exists x = true
    · simp [hx]
    · simp only [List.filter_cons, hx, List.find?_cons]
      exact ih

/-- spelled out: the first existing target wins, whatever follows it … -/
theorem C13_part_lookup_first (p : Package) (rels : Rels) (ty base fb : Str) (pre post : List Str) (t : Str)
    (hts : rels.targetsByType ty = pre ++ t :: post)
    (hpre : pre.all (fun x => !p.exists (c13_normTarget base x)) = true)
    (ht : p.exists (c13_normTarget base t) = true) :
    findPartPath p rels ty base fb = c13_normTarget base t := by
  unfold c13_normTarget at hpre ht ⊢
  unfold findPartPath
  dsimp only
  rw [hts, List.map_append, List.map_cons]
  rw [c13_filter_head p.exists _ _ _ (by simpa [List.all_map] using hpre) ht]

/-- … and without an existing target the conventional name is used. -/
theorem C13_part_lookup_fallback (p : Package) (rels : Rels) (ty base fb : Str)
    (hnone : (rels.targetsByType ty).all (fun x => !p.exists (c13_normTarget base x)) = true) :
    findPartPath p rels ty base fb = fb := by
  unfold c13_normTarget at hnone
  unfold findPartPath
  dsimp only
  rw [c13_filter_none p.exists _ (by simpa [List.all_map] using hnone)]

/-! ## 3b. relationship types of Strict Open XML (repair F13) -/

/-- A relationship type written with the Strict prefix is read as the Transitional type with the same last segment, and a
    Transitional type is read as it is: `http://purl.oclc.org/ooxml/officeDocument/relationships/styles` and
    `http://schemas.openxmlformats.org/officeDocument/2006/relationships/styles` are the same type to the reader. -/
theorem C13_strict_relationship_type (name : Str) :
    normRelType (relTypeStrict ++ name) = relTypeTransitional ++ name ∧
    normRelType (relTypeTransitional ++ name) = relTypeTransitional ++ name := by
  constructor <;> simp [normRelType, relTypeStrict, relTypeTransitional, startsWith]

/-- a `Relationship` element with the given id, target and type -/
def c13_relEl (pre : Str) (r : Str × Str × Str) : XmlNode :=
  .elem S!"relationships:Relationship" [(S!"Id", r.1), (S!"Target", r.2.1), (S!"Type", pre ++ r.2.2)] []

/-- what the reader makes of a list of such elements: one relationship each, the type normalised -/
theorem C13_read_relationships (pre : Str) (rs : List (Str × Str × Str)) :
    readRelsXml (rs.map (c13_relEl pre)) = .ok (rs.map fun r => ⟨r.1, r.2.1, normRelType (pre ++ r.2.2)⟩) := by
  unfold readRelsXml
  induction rs with
  | nil => rfl
  | cons r rs ih =>
    have h : findChildren S!"relationships:Relationship" (List.map (c13_relEl pre) (r :: rs))
        = ([(S!"Id", r.1), (S!"Target", r.2.1), (S!"Type", pre ++ r.2.2)], [])
          :: findChildren S!"relationships:Relationship" (List.map (c13_relEl pre) rs) := by
      simp [c13_relEl, findChildren]
    rw [h, List.mapM_cons, ih]
    have h1 : attr? S!"Id" [(S!"Id", r.1), (S!"Target", r.2.1), (S!"Type", pre ++ r.2.2)] = some r.1 := by
      simp [attr?, lookupLast]
    have h2 : attr? S!"Target" [(S!"Id", r.1), (S!"Target", r.2.1), (S!"Type", pre ++ r.2.2)] = some r.2.1 := by
      simp [attr?, lookupLast]
    have h3 : attr? S!"Type" [(S!"Id", r.1), (S!"Target", r.2.1), (S!"Type", pre ++ r.2.2)] = some (pre ++ r.2.2) := by
      simp [attr?, lookupLast]
    simp only [h1, h2, h3]
    rfl

/-- Hence a relationships part whose `Type` attributes are spelled Strict reads to the same relationships as the one spelled
    Transitional (same ids and targets), for every list of relationships: parts are located through relationships in Strict
    packages exactly as in Transitional ones (`C13_part_lookup` is about the relationships as read). -/
theorem C13_strict_relationships_same (rs : List (Str × Str × Str)) :
    readRelsXml (rs.map (c13_relEl relTypeStrict)) = readRelsXml (rs.map (c13_relEl relTypeTransitional)) := by
  rw [C13_read_relationships, C13_read_relationships]
  congr 1
  apply List.map_congr_left
  intro r _
  rw [(C13_strict_relationship_type r.2.2).1, (C13_strict_relationship_type r.2.2).2]

example : readRelsXml [.elem S!"relationships:Relationship"
      [(S!"Id", S!"r1"), (S!"Target", S!"styles2.xml"), (S!"Type", S!"http://purl.oclc.org/ooxml/officeDocument/relationships/styles")] []]
    = .ok [⟨S!"r1", S!"styles2.xml", relTypePrefix ++ S!"styles"⟩] := by rfl

/-- A relative target `x` and the absolute target `/base/x` name the same part (`base`, `x`
    non-empty and not starting with `/`), namely `base/x`. -/
theorem C13_part_relative_absolute (base x : Str) (hb : base.isEmpty = false) (hx : x.isEmpty = false)
    (hbs : startsWith base ['/'] = false) (hxs : startsWith x ['/'] = false) :
    c13_normTarget base x = base ++ ['/'] ++ x
    ∧ c13_normTarget base ('/' :: (base ++ ['/'] ++ x)) = base ++ ['/'] ++ x := by
  have h1 : startsWith (base ++ ['/'] ++ x) ['/'] = false := by
    rw [List.append_assoc, c13_startsWith_append base _ '/' hb]; exact hbs
  constructor
  · unfold c13_normTarget
    rw [c13_joinPath_relative base x hb hx hxs]
    exact c13_lstripChar_id '/' _ h1
  · unfold c13_normTarget
    rw [c13_joinPath_absolute]
    have : lstripChar '/' ('/' :: (base ++ ['/'] ++ x)) = lstripChar '/' (base ++ ['/'] ++ x) := by
      simp [lstripChar]
    rw [this]
    exact c13_lstripChar_id '/' _ h1

/-! ## 4. end to end -/

/-- Two packages whose XML parts differ only by respellings — Strict instead of Transitional
    namespaces, comments/PIs removed, CDATA turned into text, namespace declarations removed, in any
    combination and differently for each part (`f name` is the rewrite applied to part `name`) —
    become the SAME model package, so `convert` (value and messages, HTML or Markdown, any options)
    and `extract_raw_text` give identical results.  Adding instead of removing is the same statement
    read from right to left. -/
theorem C13_respelled_package_same_output (f : Str → DomNode → DomNode) (hf : ∀ n, c13_Respelling (f n))
    (dp : DomPackage) :
    (c13_mapParts f dp).toPackage = dp.toPackage
    ∧ ∀ fuel base world tr o,
        c13_convertDom (c13_mapParts f dp) fuel base world tr o = c13_convertDom dp fuel base world tr o := by
  have h : (c13_mapParts f dp).toPackage = dp.toPackage := by
    unfold DomPackage.toPackage
    rw [c13_parseParts_mapParts f (fun n d => c13_respelling_parse (hf n) d)]
  exact ⟨h, fun _ _ _ _ _ => by unfold c13_convertDom; rw [h]⟩

/-! ## examples (non-vacuity) -/

private def c13_wT : Str := S!"http://schemas.openxmlformats.org/wordprocessingml/2006/main"
private def c13_wS : Str := S!"http://purl.oclc.org/ooxml/wordprocessingml/main"

/-- `<w:p xmlns:w=T><!--c--><w:r w:val="1"><![CDATA[a]]>b</w:r><?pi x?></w:p>` -/
private def c13_doc (w : Str) : DomNode :=
  .elem (some w) S!"p" [⟨some xmlnsUri, S!"w", S!"(the URI)"⟩]
    [.comment S!"c", .elem (some w) S!"r" [⟨some w, S!"val", S!"1"⟩] [.cdata S!"a", .text S!"b"], .pi S!"pi" S!"x"]

example : parseXml (c13_doc c13_wT)
    = some (.elem S!"w:p" [] [.elem S!"w:r" [(S!"w:val", S!"1")] [.text S!"a", .text S!"b"]]) := by rfl
example : parseXml (c13_doc c13_wS) = parseXml (c13_doc c13_wT) := by rfl
example : c13_mapNs c13_swapNs (c13_doc c13_wT) = c13_doc c13_wS := by rfl
example : parseXml (.elem (some S!"urn:x") S!"a" [⟨none, S!"k", S!"v"⟩, ⟨some S!"urn:y", S!"k", S!"w"⟩] [])
    = some (.elem S!"{urn:x}a" [(S!"k", S!"v"), (S!"{urn:y}k", S!"w")] []) := by rfl
/-- Transitional and Strict spelling of the same attribute on one element: one dictionary entry,
    the later value -/
example : parseXml (.elem none S!"a" [⟨some c13_wT, S!"val", S!"1"⟩, ⟨some c13_wS, S!"val", S!"2"⟩] [])
    = some (.elem S!"a" [(S!"w:val", S!"2")] []) := by rfl

example : c13_mapParts (fun n => if n = S!"word/document.xml" then c13_mapNs c13_swapNs ∘ c13_stripNoise else id)
      [(S!"word/document.xml", .xml (c13_doc c13_wT)), (S!"word/x.xml", .xml (c13_doc c13_wT)), (S!"word/media/i.png", .bytes [1])]
    = [(S!"word/document.xml", .xml (c13_mapNs c13_swapNs (c13_stripNoise (c13_doc c13_wT)))),
       (S!"word/x.xml", .xml (c13_doc c13_wT)), (S!"word/media/i.png", .bytes [1])] := by rfl

example : Generated.ignored.contains S!"w:sectPr" = true ∧ Generated.ignored.contains S!"w:proofErr" = true
    ∧ Generated.ignored.contains S!"w:bookmarkEnd" = true ∧ Generated.ignored.contains S!"w:commentRangeEnd" = true := by
  decide

example : c13_normTarget S!"word" S!"styles2.xml" = S!"word/styles2.xml"
    ∧ c13_normTarget S!"word" S!"/word/styles2.xml" = S!"word/styles2.xml" := by decide

example : innerTextL [.text S!"a", .elem S!"x" [] [.text S!"b", .text S!"c"], .text S!"d"]
    = innerTextL (c13_mergeTextL [.text S!"a", .elem S!"x" [] [.text S!"bc"], .text S!"d"]) := by rfl

/-- The tables of the library that this property's theorems consume (regenerated from /repo's source on this run) still have the
    content the model was validated against: the reader's dispatch table; the set of deliberately ignored elements; the namespace URI -> prefix table.  An edit of one of them in the library changes model and code
    alike; it is this theorem that then no longer checks (`Proofs/Pins.lean`). -/
theorem C13_tables_as_validated :
    (Generated.handlers = pin_handlers) ∧
    (sameSet Generated.ignored pin_ignored = true) ∧
    (sameSet Generated.namespaces pin_namespaces = true) :=
  ⟨pins_handlers, pins_ignored, pins_namespaces⟩

end Mammoth
