/-
  C07 — reading a style map never fails and never hangs.

  Part 1: the tokeniser model is total (every rule that fires consumes a character, the catch-all
          rule fires on everything else), so `readStyleMapping` never reaches its "impossible" branch.
  Part 2: `readStyleMap` is `filterMap` over the non-blank, non-comment lines; every other line gives
          one warning quoting it (duplicates merged); lines do not influence each other.
  Part 3: a step-counting model of backtracking regex matching (MammothModel/Regex.lean): the STRING
          rule before the repair needs exponentially many steps, the repaired one linearly many, and
          the repaired rule computes what the hand-written lexer `lexString` computes.
  Part 4: the parser's loops consume a token per iteration: the fuel never runs out.
  Part 6: the regexes of part 3 are what tokeniser.py contains today (`Generated.tokenRules` parsed by
          `c07_parseRegex`); every rule is linear; the tokeniser run with these regexes is `tokenise`,
          and all its match attempts together cost at most 48 steps per character.
-/
import Proofs.C07_StyleMap
import Proofs.C07_Regex
import Proofs.C07_Parser
import Proofs.C07_RegexIdent
import Proofs.C07_RegexDet
import Proofs.C07_RegexParseCost
namespace Mammoth

/-! ## 1. the tokeniser is total -/

/-- On a non-empty input without newline some rule matches and what is left is strictly shorter:
    every rule consumes at least one character and `unknown` matches any non-newline character. -/
theorem C07_lexOne_progress (s : Str) (hne : s ≠ []) (_hnl : ∀ c ∈ s, c ≠ '\n') :
    ∃ t r, lexOne s = some (t, r) ∧ r.length < s.length :=
  c07_lexOne_progress' s hne

/-- The same without the newline hypothesis: a newline is white space (`\s`), so the WHITESPACE rule
    takes it; `lexOne` fails on the empty input only. -/
theorem C07_lexOne_progress_all (s : Str) (hne : s ≠ []) :
    ∃ t r, lexOne s = some (t, r) ∧ r.length < s.length :=
  c07_lexOne_progress' s hne

/-- The token produced is a non-empty prefix of the input and the rest is what follows it. -/
theorem C07_lexOne_prefix (s r : Str) (t : Token) (h : lexOne s = some (t, r)) :
    t.val ++ r = s ∧ t.val ≠ [] :=
  c07_lexOne_split s r t h

/-- `tokenise` never raises "Should be impossible": with fuel `s.length` it returns a token list. -/
theorem C07_tokenise_total (s : Str) (_hnl : ∀ c ∈ s, c ≠ '\n') : ∃ ts, tokenise s = some ts := by
  obtain ⟨ts, h, _⟩ := c07_tokeniseFuel_total s.length s (Nat.le_refl _)
  exact ⟨ts, h⟩

/-- ... and this holds for every string whatsoever. -/
theorem C07_tokenise_total_all (s : Str) : ∃ ts, tokenise s = some ts := by
  obtain ⟨ts, h, _⟩ := c07_tokeniseFuel_total s.length s (Nat.le_refl _)
  exact ⟨ts, h⟩

/-- The token list ends with the END token, and the token values concatenate to the input
    (nothing is dropped, nothing invented). -/
theorem C07_tokenise_shape (s : Str) (ts : List Token) (h : tokenise s = some ts) :
    ts.getLast? = some ⟨.end, []⟩ ∧ (ts.map (·.val)).flatten = s := by
  obtain ⟨ts', h', h1, h2⟩ := c07_tokeniseFuel_total s.length s (Nat.le_refl _)
  have : ts = ts' := by
    have : some ts = some ts' := by rw [← h, ← h']; rfl
    exact Option.some.inj this
  subst this
  exact ⟨h1, h2⟩

/-- More fuel changes nothing. -/
theorem C07_tokenise_fuel_irrelevant (s : Str) (f : Nat) (h : s.length ≤ f) :
    tokeniseFuel f s = tokenise s :=
  c07_tokeniseFuel_stable f s.length s h (Nat.le_refl _)

/-- Every line handed to `readStyleMapping` by `readStyleMap` is newline-free: the pieces of
    `splitOnChar '\n'` contain no newline and `strip` only removes characters. -/
theorem C07_lines_no_newline (text l : Str) (h : l ∈ styleLines text) : ∀ c ∈ l, c ≠ '\n' := by
  obtain ⟨⟨p, hp, rfl⟩, _, _⟩ := c07_styleLines_mem text l h
  intro c hc
  exact c07_splitOnChar_no_sep '\n' text p hp c (c07_mem_strip p c hc)

/-- Hence `readStyleMapping` never takes its "Should be impossible" branch: it is the parser applied
    to an actual token list. -/
theorem C07_readStyleMapping_tokenises (l : Str) :
    ∃ ts, tokenise l = some ts ∧ readStyleMapping l = parseStyleMapping ts := by
  obtain ⟨ts, h⟩ := C07_tokenise_total_all l
  exact ⟨ts, h, by simp [readStyleMapping, h]⟩

/-! ## 2. specification of `readStyleMap` -/

/-- The mappings are those of the lines that parse, in order; the messages are the warnings of the
    lines that do not, in order, de-duplicated. -/
theorem C07_readStyleMap_spec (text : Str) :
    (readStyleMap text).1 = (styleLines text).filterMap readStyleMapping ∧
    (readStyleMap text).2 =
      unique (((styleLines text).filter (fun l => (readStyleMapping l).isNone)).map styleWarning) :=
  ⟨c07_readStyleMap_fst text, c07_readStyleMap_snd text⟩

/-- No considered line is blank or a comment (after `strip`) ... -/
theorem C07_blank_and_comment_lines_silent (text l : Str) (h : l ∈ styleLines text) :
    l ≠ [] ∧ startsWith l ['#'] = false :=
  (c07_styleLines_mem text l h).2

/-- ... and a blank or comment line in the middle of a text is as if it were not there: same
    mappings, same messages. -/
theorem C07_blank_or_comment_line_ignored (a p b : Str) (hnl : ∀ c ∈ p, c ≠ '\n')
    (hp : strip p = [] ∨ startsWith (strip p) ['#'] = true) :
    readStyleMap (a ++ S!"\n" ++ p ++ S!"\n" ++ b) = readStyleMap (a ++ S!"\n" ++ b) := by
  have hl : styleLines p = [] := by
    rw [c07_styleLines_single p hnl]
    rcases hp with hp | hp <;> simp [hp]
  have : styleLines (a ++ S!"\n" ++ p ++ S!"\n" ++ b) = styleLines (a ++ S!"\n" ++ b) := by
    simp only [List.append_assoc, List.cons_append, List.nil_append]
    rw [c07_styleLines_append, c07_styleLines_append, c07_styleLines_append, hl, List.nil_append]
  simp only [readStyleMap, this]

/-- `unique` has no duplicates and the same members. -/
theorem C07_unique_nodup {α} [DecidableEq α] (l : List α) :
    (unique l).Nodup ∧ ∀ x, x ∈ unique l ↔ x ∈ l :=
  ⟨c07_nodup_uniqueAux l [], c07_mem_unique l⟩

/-- Every message is the warning for some line that was not understood, it quotes that line at its
    end, every such line has its message, and no message occurs twice. -/
theorem C07_warning_quotes_line (text : Str) :
    (∀ w, w ∈ (readStyleMap text).2 ↔
        ∃ l ∈ styleLines text, readStyleMapping l = none ∧
          w = S!"Did not understand this style mapping, so ignored it: " ++ l) ∧
    (readStyleMap text).2.Nodup := by
  rw [c07_readStyleMap_snd]
  refine ⟨fun w => ?_, (C07_unique_nodup _).1⟩
  rw [c07_mem_unique, c07_mem_rawWarnings]
  rfl

/-- Lines do not influence each other: the result for `a ⏎ b` is assembled from the results for
    `a` and for `b`. -/
theorem C07_lines_independent (a b : Str) :
    (readStyleMap (a ++ S!"\n" ++ b)).1 = (readStyleMap a).1 ++ (readStyleMap b).1 ∧
    (∀ w, w ∈ (readStyleMap (a ++ S!"\n" ++ b)).2 ↔
      w ∈ (readStyleMap a).2 ∨ w ∈ (readStyleMap b).2) := by
  have e : a ++ S!"\n" ++ b = a ++ '\n' :: b := by simp
  rw [e]
  constructor
  · simp only [c07_readStyleMap_fst, c07_styleLines_append, List.filterMap_append]
  · intro w
    simp only [c07_readStyleMap_snd, c07_mem_unique, c07_rawWarnings_append, List.mem_append]

/-- A line that is not understood is reported and ignored; the lines before and after it still take
    effect exactly as without it. -/
theorem C07_bad_line_local (a bad b : Str) (hnl : ∀ c ∈ bad, c ≠ '\n')
    (h1 : strip bad ≠ []) (h2 : startsWith (strip bad) ['#'] = false)
    (hbad : readStyleMapping (strip bad) = none) :
    (readStyleMap (a ++ S!"\n" ++ bad ++ S!"\n" ++ b)).1 = (readStyleMap a).1 ++ (readStyleMap b).1 ∧
    (∀ w, w ∈ (readStyleMap (a ++ S!"\n" ++ bad ++ S!"\n" ++ b)).2 ↔
      w ∈ (readStyleMap a).2 ∨ w = styleWarning (strip bad) ∨ w ∈ (readStyleMap b).2) := by
  have hl : styleLines bad = [strip bad] := by
    rw [c07_styleLines_single bad hnl]
    have : (strip bad).isEmpty = false := by
      cases h : strip bad with
      | nil => exact absurd h h1
      | cons _ _ => rfl
    simp [this, h2]
  have e : a ++ S!"\n" ++ bad ++ S!"\n" ++ b = a ++ '\n' :: (bad ++ '\n' :: b) := by simp
  rw [e]
  constructor
  · simp only [c07_readStyleMap_fst, c07_styleLines_append, List.filterMap_append, hl]
    simp [hbad]
  · intro w
    simp only [c07_readStyleMap_snd, c07_mem_unique, c07_rawWarnings_append, List.mem_append]
    have : c07_rawWarnings bad = [styleWarning (strip bad)] := by
      simp [c07_rawWarnings, hl, hbad]
    simp [this]

/-! ## 3. cost of regex matching by backtracking -/

/-- The fuel of the repetition loop in the cost model is irrelevant once it exceeds the length of
    the input (the model always supplies `length + 1`). -/
theorem C07_star_fuel_irrelevant (body : Str → (Str → C07Res) → C07Res) (k : Str → C07Res)
    (f g : Nat) (s : Str) (hf : s.length < f) (hg : s.length < g) :
    c07_starLoop body f s k = c07_starLoop body g s k :=
  c07_starLoop_fuel body k f g s hf hg

/-- Fuel-free description of the greedy star: one more iteration (which must consume something) and
    then the star again; if all of that fails, leave the loop here. -/
theorem C07_star_unfold (a : C07Regex) (s : Str) (k : Str → C07Res) :
    (C07Regex.star a).run s k =
      ((a.run s fun s' =>
          if s'.length < s.length then (C07Regex.star a).run s' k else .fail).orElse (k s)).tick :=
  c07_star_unfold a s k

/-- BEFORE THE REPAIR: on a quote followed by `2k` backslashes (and no closing quote) the rule
    `'(?:\\.|[^'])*'` takes at least `2^k` steps: both alternatives accept a backslash, and the
    step count `T` satisfies `T(n+2) = T(n+1) + T(n) + 6`. -/
theorem C07_old_rule_exponential (k : Nat) :
    2 ^ k ≤ c07_stringRuleOld.steps ('\'' :: List.replicate (2 * k) '\\') :=
  c07_old_steps k

/-- the exact recurrence behind it -/
theorem C07_old_rule_recurrence (n : Nat) :
    c07_stringRuleOld.steps ('\'' :: List.replicate (n + 2) '\\') =
      c07_stringRuleOld.steps ('\'' :: List.replicate (n + 1) '\\') +
      c07_stringRuleOld.steps ('\'' :: List.replicate n '\\') + 5 := by
  unfold C07Regex.steps c07_stringRuleOld
  simp only [c07_stringRule_exec, (c07_oldLoop_two (n+1)).2, (c07_oldLoop_two n).2,
    (c07_oldLoop_two n).1, c07_tick_fst, c07_oldCost]
  omega

/-- AFTER THE REPAIR: on ANY input the rule `'(?:\\.|[^'\\])*'` takes at most `6 * (length + 1)`
    steps. -/
theorem C07_new_rule_linear (s : Str) : c07_stringRuleNew.steps s ≤ 6 * (s.length + 1) :=
  c07_new_steps s

/-- ... and so does the UNTERMINATED_STRING rule `'(?:\\.|[^'\\])*`. -/
theorem C07_unterminated_rule_linear (s : Str) :
    c07_unterminatedRule.steps s ≤ 6 * (s.length + 1) := by
  unfold C07Regex.steps
  rw [c07_unterminated_exec]
  split
  · rename_i cs
    have := (c07_newLoop_k0 cs).1
    simp only [c07_tick_fst, List.length_cons]
    omega
  · simp; omega

/-- The repaired STRING rule, run by the backtracking matcher, matches exactly when the hand-written
    `lexString` produces a `string` token, and leaves the same rest. -/
theorem C07_model_agrees (s : Str) :
    (c07_stringRuleNew.exec s).2 =
      match lexString s with
      | some (.string, _, r) => some r
      | _ => none :=
  c07_new_result s

/-- The whole STRING / UNTERMINATED_STRING step of `regex_tokeniser` (try the first regex, then the
    second, token value = matched prefix), computed with the regex matcher, is `lexString`. -/
theorem C07_model_agrees_lexString (s : Str) : c07_lexStringRx s = lexString s :=
  c07_lexStringRx_eq s

/-- The IDENTIFIER rule `(?:[a-zA-Z\-_]|\\.)(?:(?:[a-zA-Z\-_]|\\.)|[0-9])*`, run by the
    backtracking matcher, takes at most `8 * (length + 1)` steps and leaves the rest that the
    hand-written `lexIdent` leaves (and fails exactly when `lexIdent` fails). -/
theorem C07_model_agrees_ident (s : Str) :
    c07_identRule.steps s ≤ 8 * (s.length + 1) ∧
    (c07_identRule.exec s).2 = (lexIdent s).map (·.2) :=
  c07_ident_agrees s

/-- GENERAL CRITERION.  For a rule `prefix (A₁|…|Aₙ)* suffix` where prefix, suffix and every `Aᵢ`
    are plain sequences of character classes: if the first classes of the `Aᵢ` are pairwise
    disjoint (`c07_deterministic`, a syntactic check), then on every input the matcher takes at most
    `c07_detConst r * (length + 1)` steps, where
    `c07_detConst r = |prefix| + 2n + Σ|Aᵢ| + |suffix| + 2`. -/
theorem C07_deterministic_linear (r : C07StarRule) (h : c07_deterministic r = true) (s : Str) :
    r.toRegex.steps s ≤ c07_detConst r * (s.length + 1) :=
  c07_deterministic_steps r h s

/-- The repaired STRING rule passes the check (so it is linear, here with constant 11), the rule
    before the repair does not. -/
theorem C07_string_rules_classified :
    c07_newStarRule.toRegex = c07_stringRuleNew ∧ c07_deterministic c07_newStarRule = true ∧
    c07_detConst c07_newStarRule = 11 ∧
    c07_oldStarRule.toRegex = c07_stringRuleOld ∧ c07_deterministic c07_oldStarRule = false := by
  refine ⟨rfl, by decide, by decide, rfl, by decide⟩

/-! ## 4. the parser's loops -/

/-- Every iteration of a parser loop consumes tokens: `|tag` two, `.class` two (`[a='v']` five),
    `␣>␣element` at least four; so a loop that returns `n` items has eaten at least `2n` (`4n`)
    tokens, and an element consumes at least one token. -/
theorem C07_parse_consumes (f : Nat) (ts r : List Token) :
    (∀ x, parseAlts f ts = some (x, r) → r.length + 2 * x.length ≤ ts.length) ∧
    (∀ x, parseAttrs f ts = some (x, r) → r.length + 2 * x.length ≤ ts.length) ∧
    (∀ x, parseMoreElements f ts = some (x, r) → r.length + 4 * x.length ≤ ts.length) ∧
    (∀ e, parseElement f ts = some (e, r) → r.length < ts.length) :=
  ⟨fun x h => c07_parseAlts_consumes f ts x r h, fun x h => c07_parseAttrs_consumes f ts x r h,
   fun x h => c07_parseMoreElements_consumes f ts x r h,
   fun e h => c07_parseElement_len f ts e r h⟩

/-- With fuel at least the number of tokens, the loops never stop for lack of fuel: any two such
    fuels give the same result. -/
theorem C07_parse_loops_fuel_stable (f g : Nat) (ts : List Token)
    (hf : ts.length ≤ f) (hg : ts.length ≤ g) :
    parseAlts f ts = parseAlts g ts ∧ parseAttrs f ts = parseAttrs g ts ∧
    parseElement f ts = parseElement g ts ∧ parseMoreElements f ts = parseMoreElements g ts ∧
    parseHtmlPath f ts = parseHtmlPath g ts :=
  ⟨c07_parseAlts_stable f g ts hf hg, c07_parseAttrs_stable f g ts hf hg,
   c07_parseElement_stable f g ts hf hg, c07_parseMoreElements_stable f g ts hf hg,
   c07_parseHtmlPath_stable f g ts hf hg⟩

/-- `parseStyleMapping` passes `ts.length` as fuel; passing any larger number gives the same
    result, i.e. the fuel is not what ends the loops. -/
theorem C07_parse_fuel_stable (ts : List Token) (fuel : Nat) (h : ts.length ≤ fuel) :
    c07_parseStyleMappingFuel fuel ts = parseStyleMapping ts :=
  c07_parseStyleMappingFuel_stable ts fuel h

/-! ## 5. examples (non-vacuity) -/

/-- escapes in identifiers and strings, an unterminated string at the end -/
example : tokenise S!"p.a\\.b[style-name='it\\'s'] => 'x 12" = some [
    ⟨.identifier, S!"p"⟩, ⟨.symbol, S!"."⟩, ⟨.identifier, S!"a\\.b"⟩, ⟨.symbol, S!"["⟩,
    ⟨.identifier, S!"style-name"⟩, ⟨.symbol, S!"="⟩, ⟨.string, S!"'it\\'s'"⟩, ⟨.symbol, S!"]"⟩,
    ⟨.whitespace, S!" "⟩, ⟨.symbol, S!"=>"⟩, ⟨.whitespace, S!" "⟩, ⟨.unterminated, S!"'x 12"⟩,
    ⟨.end, []⟩] := by decide

/-- a comment, a mapping, a blank line, a bad line, an indented mapping and the same bad line
    again: two mappings, one warning -/
example : readStyleMap
      S!"# comment\np.Heading1 => h1:fresh\n\nq => oops\n  r => strong  \nq => oops" =
    ([⟨.paragraph (some S!"Heading1") none none, .elements [{ name := S!"h1" }]⟩,
      ⟨.run none none, .elements [{ name := S!"strong", collapsible := true }]⟩],
     [S!"Did not understand this style mapping, so ignored it: q => oops"]) := by decide

/-- ten backslashes after a quote: 1304 steps with the old rule, 36 with the new one -/
example : c07_stringRuleOld.steps S!"'\\\\\\\\\\\\\\\\\\\\" = 1304 := by decide
example : c07_stringRuleNew.steps S!"'\\\\\\\\\\\\\\\\\\\\" = 36 := by decide
example : c07_stringRuleNew.exec S!"'a\\'b' rest" = (18, some S!" rest") := by decide
example : c07_stringRuleNew.matchLen S!"'a\\'b' rest" = some 6 := by decide
example : c07_identRule.exec S!"a\\.b-9 x" = (28, some S!" x") := by decide
/-- hypotheses of `C07_bad_line_local` / `C07_blank_or_comment_line_ignored` are satisfiable -/
example : strip S!" q => oops " ≠ [] ∧ startsWith (strip S!" q => oops ") ['#'] = false ∧
    readStyleMapping (strip S!" q => oops ") = none := by decide
example : startsWith (strip S!"  # note") ['#'] = true := by decide

/-! ## 6. the regexes of section 3 are the ones tokeniser.py contains today

  `Generated.tokenRules` holds the SOURCE TEXT of the tokeniser's regular expressions; gen/extract.py
  regenerates it from mammoth/styles/parser/tokeniser.py on every run.  `c07_parseRegex`
  (MammothModel/RegexParse.lean) reads such a text into a value of the cost model.  The theorems
  below are closed computations on the generated table: editing a regex in tokeniser.py changes
  the table, and the theorem about that rule stops checking. -/

/-- `regex_tokeniser` tries exactly these seven rules, in this order (the first rule that matches
    wins, so the order is part of the behaviour). -/
theorem C07_generated_rule_names :
    Generated.tokenRules.map (·.1) =
      [S!"identifier", S!"symbol", S!"whitespace", S!"string", S!"unterminated string",
       S!"integer", S!"unknown"] := by decide

/-- the IDENTIFIER regex of the source is the value `c07_identRule` of `C07_model_agrees_ident` -/
theorem C07_generated_identifier_rule :
    (List.lookup S!"identifier" Generated.tokenRules).bind c07_parseRegex = some c07_identRule := by
  decide

/-- the SYMBOL regex of the source is `c07_symbolRule` -/
theorem C07_generated_symbol_rule :
    (List.lookup S!"symbol" Generated.tokenRules).bind c07_parseRegex = some c07_symbolRule := by
  decide

/-- the WHITESPACE regex of the source is `c07_wsRule` (`\s+`) -/
theorem C07_generated_whitespace_rule :
    (List.lookup S!"whitespace" Generated.tokenRules).bind c07_parseRegex = some c07_wsRule := by
  decide

/-- the STRING regex of the source is the REPAIRED rule `c07_stringRuleNew` of `C07_new_rule_linear`
    and `C07_model_agrees` (with the regex before the repair this is false: see
    `C07_old_rule_source`) -/
theorem C07_generated_string_rule :
    (List.lookup S!"string" Generated.tokenRules).bind c07_parseRegex = some c07_stringRuleNew := by
  decide

/-- the UNTERMINATED_STRING regex of the source is `c07_unterminatedRule` -/
theorem C07_generated_unterminated_string_rule :
    (List.lookup S!"unterminated string" Generated.tokenRules).bind c07_parseRegex =
      some c07_unterminatedRule := by
  decide

/-- the INTEGER regex of the source is `c07_intRule` (the capturing group costs nothing) -/
theorem C07_generated_integer_rule :
    (List.lookup S!"integer" Generated.tokenRules).bind c07_parseRegex = some c07_intRule := by
  decide

/-- the catch-all rule that `regex_tokeniser` appends is `.` -/
theorem C07_generated_unknown_rule :
    (List.lookup S!"unknown" Generated.tokenRules).bind c07_parseRegex = some c07_unknownRule := by
  decide

/-- all seven together, with their token types, as the list the regex-driven tokeniser runs -/
theorem C07_generated_rules : c07_rxRules = some c07_handRules := by
  decide

/-- the text of the STRING rule before the repair parses to `c07_stringRuleOld`, the value of
    `C07_old_rule_exponential`; it is a different value from today's rule -/
theorem C07_old_rule_source :
    c07_parseRegex S!"'(?:\\\\.|[^'])*'" = some c07_stringRuleOld ∧
    c07_stringRuleOld ≠ c07_stringRuleNew := by
  decide

/-- `\s` of the parser is the white-space set `isSpace` (`str.isspace`) of the model -/
theorem C07_whitespace_class (c : Char) : c07_ccSpace.test c = isSpace c :=
  c07_wsRanges_isSpace c

/-! ### every rule, on every input: at most linearly many steps -/

/-- GENERAL: an expression without repetition costs a constant (`c07_flatBound r 0`), whatever the
    input. -/
theorem C07_repetition_free_constant (r : C07Regex) (h : c07_starFree r = true) (s : Str) :
    r.steps s ≤ c07_flatBound r 0 :=
  c07_flat_steps r h s

/-- SYMBOL `:|>|=>|\^=|=|\(|\)|\[|\]|\||!|\.` : at most 25 steps on ANY input, and it leaves what
    `lexSymbol` leaves (fails exactly when `lexSymbol` fails). -/
theorem C07_model_agrees_symbol (s : Str) :
    c07_symbolRule.steps s ≤ 25 * (s.length + 1) ∧
    c07_symbolRule.steps s ≤ 25 ∧
    (c07_symbolRule.exec s).2 = (lexSymbol s).map (·.2) := by
  have := c07_symbol_steps s
  refine ⟨?_, this, c07_symbol_result s⟩
  have : 25 ≤ 25 * (s.length + 1) := Nat.le_mul_of_pos_right _ (by omega)
  omega

/-- WHITESPACE `\s+` : at most `2 * (length + 1)` steps, leaves what `lexWs` leaves. -/
theorem C07_model_agrees_whitespace (s : Str) :
    c07_wsRule.steps s ≤ 2 * (s.length + 1) ∧
    (c07_wsRule.exec s).2 = (lexWs s).map (·.2) := by
  have := c07_ws_agrees s
  exact ⟨by omega, this.2⟩

/-- INTEGER `([0-9]+)` : at most `2 * (length + 1)` steps, leaves what `lexInt` leaves. -/
theorem C07_model_agrees_integer (s : Str) :
    c07_intRule.steps s ≤ 2 * (s.length + 1) ∧
    (c07_intRule.exec s).2 = (lexInt s).map (·.2) := by
  have := c07_int_agrees s
  exact ⟨by omega, this.2⟩

/-- the catch-all `.` : one step; matches one character unless it is a newline. -/
theorem C07_model_agrees_unknown (s : Str) :
    c07_unknownRule.steps s = 1 ∧ c07_unknownRule.steps s ≤ 1 * (s.length + 1) ∧
    (c07_unknownRule.exec s).2 =
      match s with
      | c :: cs => if isDot c then some cs else none
      | [] => none := by
  have h1 := c07_unknown_steps s
  refine ⟨h1, by omega, ?_⟩
  rw [c07_unknownRule_exec]
  cases s with
  | nil => rfl
  | cons c cs =>
    simp only
    split <;> rfl

/-- a successful match of any of the seven rules is never empty: what is left is strictly shorter
    (so the loop of `regex_tokeniser` advances). -/
theorem C07_generated_match_nonempty (s r : Str) (t : Token) (n : Nat)
    (h : c07_firstMatch c07_handRules s = (n, some (t, r))) :
    t.val ++ r = s ∧ t.val ≠ [] ∧ r.length < s.length := by
  have hl : lexOne s = some (t, r) := by rw [← c07_firstMatch_lexOne, h]
  exact ⟨(c07_lexOne_split s r t hl).1, (c07_lexOne_split s r t hl).2, c07_lexOne_shorter s r t hl⟩

/-! ### the tokeniser as the code runs it -/

/-- one round of the loop of `regex_tokeniser` (try the parsed rules in order with the backtracking
    matcher, first success wins, token value = matched prefix) is `lexOne`. -/
theorem C07_model_agrees_lexOne (s : Str) : (c07_firstMatch c07_handRules s).2 = lexOne s :=
  c07_firstMatch_lexOne s

/-- AGREEMENT: `tokenise(value)` run with the regexes extracted from tokeniser.py today
    (`c07_tokeniseRx`) returns, for every string, exactly the token list of the hand-written lexer
    `tokenise` that all the theorems of C06 and C07 are about. -/
theorem C07_tokeniseRx_agrees (s : Str) : c07_tokeniseRx s = tokenise s :=
  c07_tokeniseRx_eq C07_generated_rules s

/-- hence it never raises "Should be impossible" and never loops. -/
theorem C07_tokeniseRx_total (s : Str) : ∃ ts, c07_tokeniseRx s = some ts := by
  rw [C07_tokeniseRx_agrees]; exact C07_tokenise_total_all s

/-- the fuel of the regex-driven loop is irrelevant (tokens and steps) once it covers the input. -/
theorem C07_tokeniseRx_fuel_irrelevant (f g : Nat) (s : Str) (hf : s.length ≤ f) (hg : s.length ≤ g) :
    c07_tokeniseRxFuel c07_handRules f s = c07_tokeniseRxFuel c07_handRules g s :=
  c07_tokeniseRxFuel_stable f g s hf hg

/-- all the attempts made at one position (failed ones included) cost at most 12 steps per character
    of the token produced there, plus 36: a failing STRING attempt that scans to the end of the input
    is followed by UNTERMINATED_STRING consuming that same stretch; every other failing attempt costs
    a constant. -/
theorem C07_position_cost (s r : Str) (t : Token) (h : lexOne s = some (t, r)) :
    (c07_firstMatch c07_handRules s).1 ≤ 12 * t.val.length + 36 :=
  c07_firstMatch_cost s r t h

/-- COST, linear: the steps of ALL match attempts that `tokenise(value)` makes (every rule tried at
    every token start, failed attempts included) are at most `48 * length`, for every string. -/
theorem C07_tokeniseRx_cost_linear (s : Str) :
    ∃ n, c07_tokeniseRxCost s = some n ∧ n ≤ 48 * s.length :=
  c07_tokeniseRxCost_linear C07_generated_rules s

/-- COST, "at most polynomially" as the property words it: `≤ 48 * (length + 1)^2`
    (a consequence of the linear bound). -/
theorem C07_tokeniseRx_cost_polynomial (s : Str) :
    ∃ n, c07_tokeniseRxCost s = some n ∧ n ≤ 48 * (s.length + 1) ^ 2 := by
  obtain ⟨n, h1, h2⟩ := c07_tokeniseRxCost_linear C07_generated_rules s
  refine ⟨n, h1, Nat.le_trans h2 (Nat.mul_le_mul_left 48 ?_)⟩
  have : s.length + 1 ≤ (s.length + 1) ^ 2 := by
    rw [Nat.pow_two]; exact Nat.le_mul_of_pos_right _ (by omega)
  omega

/-! ### examples (non-vacuity) -/

/-- the regex-driven tokeniser on the example of section 5: same tokens, 341 steps for 39 characters -/
example : c07_tokeniseRx S!"p.a\\.b[style-name='it\\'s'] => 'x 12" =
    tokenise S!"p.a\\.b[style-name='it\\'s'] => 'x 12" := by decide
example : c07_tokeniseRxCost S!"p.a\\.b[style-name='it\\'s'] => 'x 12" = some 341 := by decide
/-- an unterminated string: STRING fails after scanning to the end, UNTERMINATED_STRING rescans
    (the hypotheses of `C07_position_cost` and `C07_generated_match_nonempty` are satisfiable) -/
example : lexOne S!"'abc" = some (⟨.unterminated, S!"'abc"⟩, []) := by decide
example : c07_firstMatch c07_handRules S!"'abc" =
    (65, some (⟨.unterminated, S!"'abc"⟩, [])) := by decide
/-- the parser: respellings give the same value, things outside the fragment are refused -/
example : c07_parseRegex S!"(?:[0-9])+" = some c07_intRule := by decide
example : c07_parseRegex S!"[\\s]+" = some c07_wsRule := by decide
example : c07_parseRegex S!"\\d+" ≠ some c07_intRule := by decide
example : c07_parseRegex S!"a{2}" = none ∧ c07_parseRegex S!"a*?" = none ∧ c07_parseRegex S!"(a" = none ∧
    c07_parseRegex S!"^a" = none ∧ c07_parseRegex S!"(?:|a)*" = none ∧ c07_parseRegex S!"a**" = none := by
  decide
example : c07_parseRegex S!"\\s*HYPERLINK\\s+\"([^\"]*)\"" =
    some (.seq (.star (.chr c07_ccSpace)) (.seq (.chr (.lit 'H')) (.seq (.chr (.lit 'Y'))
      (.seq (.chr (.lit 'P')) (.seq (.chr (.lit 'E')) (.seq (.chr (.lit 'R')) (.seq (.chr (.lit 'L'))
      (.seq (.chr (.lit 'I')) (.seq (.chr (.lit 'N')) (.seq (.chr (.lit 'K'))
      (.seq (C07Regex.plus (.chr c07_ccSpace)) (.seq (.chr (.lit '"'))
      (.seq (.star (.chr (.nset [('"', '"')]))) (.chr (.lit '"'))))))))))))))) := by decide

end Mammoth
