/-
  C08 — paragraphs map one-to-one, in order, to heading, list-item and paragraph blocks.
  Property theorems only; definitions and helper lemmas live in Proofs/C08_*.lean.
-/
import Proofs.C08_DefaultMap
import Proofs.C08_Paths
import Proofs.C08_Blocks
import Proofs.C08_Numbering
import Proofs.C08_Lists
import Proofs.C08_Convert
import Proofs.C08_Xml
import Proofs.C08_XmlNumbering
import Proofs.C09_Convert
namespace Mammoth

/-! ## 1. the default style map -/

/-- The model's DSL parser, run (in the kernel) on the text of `options._default_style_map`
    extracted from the source, yields exactly these 41 mappings in this order
    (`c08_defaultMapValue`, Proofs/C08_DefaultMap.lean): `p.Heading1..6 => h1..6:fresh`,
    `p[style-name='Heading 1..6'|'heading 1..6'] => h1..6:fresh`, the note/`Strong`/`Hyperlink`
    entries, the ten list entries `p:(un)ordered-list(1..5)` and `p[style-name='Normal'] => p:fresh`. -/
theorem C08_default_map_value : defaultStyleMap = c08_defaultMapValue := c08_default_map_value

/-- every line of the default style map parses: no "Did not understand this style mapping" message -/
theorem C08_default_map_no_warnings : (readStyleMap Generated.defaultStyleMapText).2 = [] :=
  c08_default_no_warnings

/-- (a) A paragraph whose style ID is `Heading<n>` (n = 1..6) gets `h<n>:fresh`, whatever its style
    name and numbering are. -/
theorem C08_default_paths_heading_id (n : Nat) (h1 : 1 ≤ n) (h6 : n ≤ 6) (name : Option Str)
    (num : Option NumLevel) :
    findStyle upperAscii defaultStyleMap
        (.paragraph { styleId := some (c08_hId n), styleName := name, numbering := num })
      = some ⟨.paragraph (some (c08_hId n)) none none, .elements [c08_fresh (c08_hTag n)]⟩ :=
  c08_path_heading_id n h1 h6 name num

/-- (b) A paragraph whose style ID is not one of `Heading1..6` and whose style name equals
    `Heading <n>` up to ASCII letter case (`heading 3`, `HEADING 3`, `hEaDiNg 3`, …) gets
    `h<n>:fresh`, whatever its numbering is. -/
theorem C08_default_paths_heading_name (n : Nat) (h1 : 1 ≤ n) (h6 : n ≤ 6) (sid : Option Str)
    (hs : c08_notHeadingId sid = true) (name : Str) (hn : upperAscii name = upperAscii (c08_hName n))
    (num : Option NumLevel) :
    findStyle upperAscii defaultStyleMap
        (.paragraph { styleId := sid, styleName := some name, numbering := num })
      = some ⟨.paragraph none (some (.equalTo (c08_hName n))) none, .elements [c08_fresh (c08_hTag n)]⟩ :=
  c08_path_heading_name n h1 h6 sid hs name hn num

/-- (c) A paragraph with numbering level index `k` (0..4, i.e. depth d = k+1 = 1..5), ordered or
    not, that is not caught by an earlier mapping (no heading style ID; style name absent or not a
    heading / note name) gets the depth-d list path: `ul|ol > li` (k times), then `ol` or `ul`,
    then `li:fresh`. -/
theorem C08_default_paths_list (k : Nat) (hk : k < 5) (ordered : Bool) (sid name : Option Str)
    (hs : c08_notHeadingId sid = true) (hn : c08_noEarlierName name = true) :
    findStyle upperAscii defaultStyleMap
        (.paragraph { styleId := sid, styleName := name, numbering := some ⟨natToStr k, ordered⟩ })
      = some ⟨.paragraph none none (some ⟨natToStr k, ordered⟩),
              .elements (c08_outer k ++ [c08_listTag ordered, c08_liFresh])⟩ :=
  c08_path_list k hk ordered sid name hs hn

/-- (d) A paragraph with no heading style ID, no matching style name and no numbering (or a
    numbering level other than "0".."4") matches nothing in the default map, so the converter uses
    its built-in default, a fresh `p` (see `C08_paragraph_nodes_default`). -/
theorem C08_default_paths_none (sid name : Option Str) (num : Option NumLevel)
    (hs : c08_notHeadingId sid = true) (hn : c08_noEarlierName name = true)
    (hN : name.map upperAscii ≠ some S!"NORMAL") (hl : c08_knownLevel num = false) :
    findStyle upperAscii defaultStyleMap
        (.paragraph { styleId := sid, styleName := name, numbering := num }) = none :=
  c08_path_none sid name num hs hn hN hl

/-- Every paragraph mapping of the default map has a non-empty path whose last tag is `:fresh`
    and whose other tags are not, and none of whose tags is a void element. -/
theorem C08_default_paths_end_fresh :
    defaultStyleMap.all (fun s =>
      match s.matcher, s.path with
      | .paragraph _ _ _, .elements es => c08_oneBlock es && c08_noVoid es
      | .paragraph _ _ _, .ignore => false
      | _, _ => true) = true := by
  rw [c08_default_map_value]; decide

/-- What the converter emits for one paragraph whose style is found: the path wrapped around the
    converted children (plus the force-write marker when empty paragraphs are kept). -/
theorem C08_paragraph_nodes (cfg : Cfg) (hdr : Bool) (p : ParaProps) (cs : List Elem) (s : Style)
    (es : List Tag) (h : findStyle cfg.upper cfg.styleMap (.paragraph p) = some s)
    (hp : s.path = .elements es) :
    visit cfg hdr (.paragraph p cs) =
      (do let content ← visitAll cfg hdr cs
          pure (wrapElems es (if cfg.ignoreEmpty then content else .forceWrite :: content))) :=
  c08_visit_paragraph cfg hdr p cs s es h hp

/-- … and when no mapping applies: a warning iff the paragraph has a style ID, then `p:fresh`
    around the converted children. -/
theorem C08_paragraph_nodes_default (cfg : Cfg) (hdr : Bool) (p : ParaProps) (cs : List Elem)
    (h : findStyle cfg.upper cfg.styleMap (.paragraph p) = none) :
    visit cfg hdr (.paragraph p cs) =
      (do (match p.styleId with
            | some sid => warn (S!"Unrecognised paragraph style: " ++ pyOpt p.styleName ++
                                S!" (Style ID: " ++ sid ++ S!")")
            | none => pure ())
          let content ← visitAll cfg hdr cs
          pure (wrapElems [pathElem S!"p" true]
                  (if cfg.ignoreEmpty then content else .forceWrite :: content))) :=
  c08_visit_paragraph_default cfg hdr p cs h

/-! ## 2. one block per paragraph, in order -/

/-- Collapsing a wrapped path only collapses the content inside it. -/
theorem C08_collapse_chain (t : Tag) (ts : List Tag) (inner : List Node) :
    collapseNode (c08_chain t ts inner) = c08_chain t ts (collapse inner) :=
  c08_collapseNode_chain t ts inner

/-- ONE-TO-ONE.  Add (with the merge rule of C04) the node of a path `t :: ts` whose LAST tag is
    `:fresh` to ANY accumulated forest `acc`, with ANY content `inner`.  Then (1) `ts.length` steps
    down the last-child spine of the result sits an element with exactly that last tag and exactly
    `inner` as its children — the new block received nothing from, and gave nothing to, an earlier
    element; and (2) the fresh elements of the result, in document order, are those of `acc`
    followed by those of the new node — the new block is an additional element, not a merged one. -/
theorem C08_blocks_one_to_one (t : Tag) (ts : List Tag) (inner acc : List Node)
    (hf : (c08_lastTag t ts).collapsible = false) :
    c08_descend ts.length (addC acc (c08_chain t ts inner)) = some (c08_lastTag t ts, inner) ∧
    c08_freshTagsL (addC acc (c08_chain t ts inner)) =
      c08_freshTagsL acc ++ ((t :: ts).filter (fun t => !t.collapsible) ++ c08_freshTagsL inner) := by
  refine ⟨c08_addC_chain_spine t ts inner acc hf, ?_⟩
  rw [c08_freshTags_addC, ← c08_freshTagsL_wrapElems, c08_wrapElems_cons]
  simp

/-- Merging never removes, duplicates or reorders a `:fresh` element, at any depth. -/
theorem C08_fresh_elements_preserved (ns : List Node) :
    c08_freshTagsL (collapse ns) = c08_freshTagsL ns := c08_freshTags_collapse ns

/-- IN ORDER.  Take any sequence of paragraphs, each converted to a path (non-void tags, exactly
    one fresh tag: the last — true of all default paths by `C08_default_paths_end_fresh`) around
    content that has no fresh element of its own.  After `strip_empty` and `collapse` the fresh
    elements of the output, in document order, are exactly the last tags of the paths of the
    paragraphs with non-empty content: one block each, none shared, order kept. -/
theorem C08_blocks_in_order (paras : List (List Tag × List Node))
    (hv : ∀ p ∈ paras, c08_noVoid p.1 = true) (hb : ∀ p ∈ paras, c08_oneBlock p.1 = true)
    (hc : ∀ p ∈ paras, c08_freshTagsL (stripList p.2) = []) :
    c08_freshTagsL (collapse (stripEmpty (c08_docNodes paras))) =
      (paras.filter fun p => !(stripList p.2).isEmpty).filterMap fun p => p.1.getLast? := by
  rw [c08_freshTags_collapse, stripEmpty, c08_stripList_docNodes paras hv, c08_freshTagsL_docNodes,
    c08_nonEmptyParas]
  induction paras with
  | nil => simp
  | cons p ps ih =>
    have ih' := ih (fun q hq => hv q (by simp [hq])) (fun q hq => hb q (by simp [hq]))
      (fun q hq => hc q (by simp [hq]))
    obtain ⟨t, h1, h2⟩ := c08_oneBlock_filter p.1 (hb p (by simp))
    have h3 := hc p (by simp)
    by_cases he : (stripList p.2).isEmpty = true
    · simpa [List.filter_cons, he] using ih'
    · simp only [List.filter_cons, he, Bool.not_false, if_true, List.map_cons,
        List.flatMap_cons, List.filterMap_cons, h1, h2, h3, List.append_nil] at ih' ⊢
      simp [ih']

/-! ## 3. numbering resolution -/

/-- `w:num` → `w:abstractNum` without `w:numStyleLink` → the level with that `w:ilvl` (if defined) -/
theorem C08_findLevel_direct (n : Numbering) (f : Nat) (numId : Option Str) (lvl absId : Str)
    (an : AbstractNum) (h1 : lookupLast numId n.nums = some absId)
    (h2 : lookupLast (some absId) n.abstractNums = some an) (h3 : an.numStyleLink = none) :
    findLevel n (f+1) numId lvl = .ok ((lookupLast lvl an.levels).map toNumLevel) := by
  simp [findLevel, h1, h2, h3]

/-- an abstract num with a `w:numStyleLink` to a numbering style that carries num id `k` resolves
    to whatever num `k` resolves to (same level index) -/
theorem C08_findLevel_link (n : Numbering) (f : Nat) (numId k : Option Str) (lvl absId link : Str)
    (an : AbstractNum) (h1 : lookupLast numId n.nums = some absId)
    (h2 : lookupLast (some absId) n.abstractNums = some an) (h3 : an.numStyleLink = some link)
    (h4 : lookupLast (some link) n.styles.numbering = some k) :
    findLevel n (f+1) numId lvl = findLevel n f k lvl := by
  simp [findLevel, h1, h2, h3, h4]

/-- dangling references give "no numbering", not an error: unknown num id, unknown abstract num,
    or a link to an undefined numbering style -/
theorem C08_findLevel_dangling (n : Numbering) (f : Nat) (numId : Option Str) (lvl : Str) :
    (lookupLast numId n.nums = none → findLevel n (f+1) numId lvl = .ok none) ∧
    (∀ absId, lookupLast numId n.nums = some absId → lookupLast (some absId) n.abstractNums = none →
      findLevel n (f+1) numId lvl = .ok none) ∧
    (∀ absId an link, lookupLast numId n.nums = some absId →
      lookupLast (some absId) n.abstractNums = some an → an.numStyleLink = some link →
      lookupLast (some link) n.styles.numbering = none → findLevel n (f+1) numId lvl = .ok none) := by
  refine ⟨?_, ?_, ?_⟩
  · intro h; simp [findLevel, h]
  · intro a h1 h2; simp [findLevel, h1, h2]
  · intro a an link h1 h2 h3 h4; simp [findLevel, h1, h2, h3, h4]

/-- the fuel only bounds the length of the style-link chain: a successful answer does not depend on
    it (any larger fuel gives the same answer) -/
theorem C08_findLevel_fuel_irrelevant (n : Numbering) (f g : Nat) (hfg : f ≤ g) (numId : Option Str)
    (lvl : Str) (r : Option NumLevel) (h : findLevel n f numId lvl = .ok r) :
    findLevel n g numId lvl = .ok r :=
  c08_findLevel_fuel_le n f g hfg numId lvl r h

/-- THE PARAGRAPH'S OWN `w:numPr` WINS: with both `w:numId` and `w:ilvl` present the result is the
    num's level, whatever the paragraph style is — the style's numbering is not consulted even when
    the num resolves to nothing. -/
theorem C08_numPr_wins (env : REnv) (styleId : Option Str) (numPr : List XmlNode) (numId lvl : Str)
    (h1 : childAttr S!"w:numId" S!"w:val" numPr = some numId)
    (h2 : childAttr S!"w:ilvl" S!"w:val" numPr = some lvl) :
    readNumberingProps env styleId numPr =
      findLevel env.numbering (env.numbering.nums.length + env.numbering.abstractNums.length + 2)
        (some numId) lvl := by
  simp [readNumberingProps, h1, h2]

/-- otherwise (no `w:numId` or no `w:ilvl`) the numbering is the level whose `w:pStyle` is the
    paragraph's style ID, if the paragraph has one -/
theorem C08_style_numbering_fallback (env : REnv) (styleId : Option Str) (numPr : List XmlNode)
    (h : childAttr S!"w:numId" S!"w:val" numPr = none ∨ childAttr S!"w:ilvl" S!"w:val" numPr = none) :
    readNumberingProps env styleId numPr =
      .ok (styleId.bind fun sid => findLevelByStyle env.numbering sid) := by
  unfold readNumberingProps
  rcases h with h | h
  · rw [h]; cases styleId <;> simp
  · rw [h]; cases childAttr S!"w:numId" S!"w:val" numPr <;> cases styleId <;> simp

/-! ## 4. nesting of list items -/

/-- the default list path of depth `k+1` around `content` is the single node `c08_listNode k o content`:
    `ul|ol > li >` (k times) `ol|ul > li:fresh > content` -/
theorem C08_list_path_node (k : Nat) (o : Bool) (content : List Node) :
    wrapElems (c08_listPath k o) content = [c08_listNode k o content] := c08_wrap_listPath k o content

/-- REFINEMENT, one step.  Let the forest collapsed so far be the one denoted by a stack `S` of open
    lists (outermost first; each with the siblings before it, its tag, its closed items and the tag
    of its open `li`) and the children `c` of the innermost open item.  Adding a list item of depth
    `k+1` and kind `o` gives the forest denoted by `c08_step S c k o` (the specification: reuse the
    open lists above depth `k+1`, creating `ul|ol > li` where none is open; continue the list open
    at depth `k+1` iff it has the item's kind, else close it and open a new one after it; close
    everything deeper) with the item's content as the children of the new innermost `li:fresh`. -/
theorem C08_lists_step (k : Nat) (o : Bool) (content : List Node) (S : List c08_Level) (c : List Node)
    (hw : c08_wf S = true) (hi : c08_inert c = true) :
    addC (c08_rend S c) (c08_listNode k o content) = c08_rend (c08_step S c k o) content :=
  c08_addC_listNode k o content S c hw hi

/-- REFINEMENT, whole documents.  For any sequence of list items (any depths, kinds, contents) and
    other fresh blocks, `collapse` computes exactly the forest that the specification machine
    `c08_run` denotes.  Side conditions (`c08_itemOk`): an item's collapsed content does not end in a
    bare `ul`/`ol` element of its own (needed only when another item follows); a non-list block's
    tag is fresh and not a bare `ul`/`ol`; `c08_seqOk` is their conjunction along the sequence. -/
theorem C08_lists_nest (items : List c08_Item) (hok : c08_seqOk items = true) :
    collapse (items.map c08_nodeOfItem) =
      c08_rend (c08_run ([], []) items).1 (c08_run ([], []) items).2 := by
  simpa [collapse, c08_rend] using
    c08_collapseFrom_items items [] [] (by simp [c08_wf]) (fun _ => by simp [c08_inert]) hok

/-- `c08_seqOk` holds in particular when every item satisfies `c08_itemOk` -/
theorem C08_lists_nest_side_condition (items : List c08_Item) (h : items.all c08_itemOk = true) :
    c08_seqOk items = true := c08_seqOk_of_all items h

/-- the side condition on contents holds whenever no top-level node of the content is a bare
    `ul`/`ol` element -/
theorem C08_item_content_ok (content : List Node) (h : c08_noTopList content = true) :
    c08_inert (collapse content) = true := c08_inert_collapse content h

/-- DEPTH AND KIND.  After an item of depth `k+1` exactly `k+1` lists are open; the innermost is a
    list of the item's kind (`ol` for ordered, `ul` otherwise) and its open item is the new `li:fresh`. -/
theorem C08_item_depth_and_kind (S : List c08_Level) (c : List Node) (k : Nat) (o : Bool) :
    (c08_step S c k o).length = k + 1 ∧
    ∃ L, (c08_step S c k o)[k]? = some L ∧ L.litag = c08_liFresh ∧
      L.ltag.name = (if o then S!"ol" else S!"ul") := by
  refine ⟨c08_step_length S c k o, ?_⟩
  obtain ⟨L, h1, h2, h3⟩ := c08_step_last S c k o
  exact ⟨L, h1, h2, by rw [h3]; cases o <;> rfl⟩

/-- INSIDE EXACTLY d LISTS.  In the forest denoted after an item of depth `d = k+1`, following the
    last child from the top level meets exactly `d` (list, item) pairs — each list tag one that
    `ul|ol` matches, each item tag one that `li` matches — and then, `2d-1` steps down, the new
    `li:fresh` whose children are exactly the item's content. -/
theorem C08_item_sits_in_d_lists (S : List c08_Level) (c : List Node) (k : Nat) (o : Bool)
    (content : List Node) (hw : c08_wf S = true) :
    c08_descend (2 * k + 1) (c08_rend (c08_step S c k o) content) = some (c08_liFresh, content) ∧
    c08_spineTags (2 * (k + 1)) (c08_rend (c08_step S c k o) content) =
      (c08_step S c k o).flatMap (fun L => [L.ltag, L.litag]) ∧
    (c08_step S c k o).length = k + 1 ∧
    (∀ L ∈ c08_step S c k o, c08_isListTag L.ltag = true ∧ c08_isLiTag L.litag = true) := by
  have hlen := c08_step_length S c k o
  refine ⟨?_, ?_, hlen, ?_⟩
  · obtain ⟨L, hk, hli, _⟩ := c08_step_last S c k o
    cases hS : c08_step S c k o with
    | nil => rw [hS] at hlen; simp at hlen
    | cons L0 S' =>
      rw [hS] at hlen hk
      have hl' : S'.length = k := by simpa using hlen
      obtain ⟨L', h1, h2⟩ := c08_descend_rend L0 S' content
      rw [hl'] at h2
      have : (L0 :: S').getLast? = (L0 :: S')[k]? := by
        rw [List.getLast?_eq_getElem?]; simp [hl']
      rw [this, hk] at h1
      cases h1
      rw [h2, hli]
  · have := c08_spineTags_rend (c08_step S c k o) content
    rw [hlen] at this
    exact this
  · have := c08_wf_step S c k o hw
    intro L hL
    simp only [c08_wf, List.all_eq_true, Bool.and_eq_true] at this
    exact this L hL

/-- SHARED ENCLOSING LISTS.  Every list that was open above the new item's depth is still the
    same open list afterwards (same tag, same earlier siblings, same closed items, same open item). -/
theorem C08_items_share_enclosing (S : List c08_Level) (c : List Node) (k : Nat) (o : Bool) (i : Nat)
    (hik : i < k) (hiS : i < S.length) : (c08_step S c k o)[i]? = S[i]? :=
  c08_step_prefix S c k o i hik hiS

/-- SAME KIND CONTINUES.  If a list of the item's kind is open at the item's depth, the item joins
    it: same list element, the previously open item (with everything nested in it) becomes one more
    closed item and the new `li:fresh` is the open one. -/
theorem C08_same_kind_continues (S : List c08_Level) (c : List Node) (k : Nat) (o : Bool)
    (L : c08_Level) (hL : S[k]? = some L) (hk : L.ltag.name = (c08_listTag o).name) :
    (c08_step S c k o)[k]? =
      some ⟨L.pre, L.ltag, L.items ++ [.elem L.litag (c08_rend (S.drop (k+1)) c)], c08_liFresh⟩ :=
  c08_step_reuse S c k o L hL hk

/-- OTHER KIND STARTS A NEW LIST.  If the list open at the item's depth has the other kind, it is
    closed (it becomes an earlier sibling) and a new list of the item's kind is opened after it. -/
theorem C08_other_kind_new_list (S : List c08_Level) (c : List Node) (k : Nat) (o : Bool)
    (L : c08_Level) (hL : S[k]? = some L) (hk : L.ltag.name ≠ (c08_listTag o).name) :
    (c08_step S c k o)[k]? =
      some ⟨L.pre ++ [.elem L.ltag (L.items ++ [.elem L.litag (c08_rend (S.drop (k+1)) c)])],
            c08_listTag o, [], c08_liFresh⟩ :=
  c08_step_new S c k o L hL hk

/-- two consecutive top-level items of the same kind: ONE list element, TWO distinct `li` -/
theorem C08_two_items_share_list (o : Bool) (c1 c2 : List Node) :
    collapse [c08_listNode 0 o c1, c08_listNode 0 o c2] =
      [.elem (c08_listTag o) [.elem c08_liFresh (collapse c1), .elem c08_liFresh (collapse c2)]] := by
  simp only [collapse, collapseFrom, c08_collapseNode_listNode, c08_addC_nil]
  cases o <;>
  simp [c08_listNode, addC, c08_listTag, c08_ul, c08_ol, isMatch, Tag.names, sepText, c08_liFresh, c08_fresh]

/-- a top-level item after a top-level item of the other kind opens a new list -/
theorem C08_kind_change_opens_list (o : Bool) (c1 c2 : List Node) :
    collapse [c08_listNode 0 o c1, c08_listNode 0 (!o) c2] =
      [.elem (c08_listTag o) [.elem c08_liFresh (collapse c1)],
       .elem (c08_listTag (!o)) [.elem c08_liFresh (collapse c2)]] := by
  simp only [collapse, collapseFrom, c08_collapseNode_listNode, c08_addC_nil]
  cases o <;>
  simp [c08_listNode, addC, c08_listTag, c08_ul, c08_ol, isMatch, Tag.names]

/-- a depth-2 item after a depth-1 item nests inside that item's `li`, after its content -/
theorem C08_deeper_item_nests_in_li (o1 o2 : Bool) (c1 c2 : List Node)
    (h1 : c08_inert (collapse c1) = true) :
    collapse [c08_listNode 0 o1 c1, c08_listNode 1 o2 c2] =
      [.elem (c08_listTag o1)
        [.elem c08_liFresh (collapse c1 ++ [.elem (c08_listTag o2) [.elem c08_liFresh (collapse c2)]])]] := by
  have := C08_lists_nest [.li 0 o1 c1, .li 1 o2 c2] (by simp [c08_seqOk, c08_itemOk, h1])
  simpa [c08_nodeOfItem, c08_run, c08_step, c08_rend] using this

/-- depth 1, depth 2, depth 1 (same kind as the first): the third item is a sibling `li` of the
    first in the same list; the nested list stays inside the first `li` -/
theorem C08_back_to_outer_list (o1 o2 : Bool) (c1 c2 c3 : List Node)
    (h1 : c08_inert (collapse c1) = true) (h2 : c08_inert (collapse c2) = true) :
    collapse [c08_listNode 0 o1 c1, c08_listNode 1 o2 c2, c08_listNode 0 o1 c3] =
      [.elem (c08_listTag o1)
        [.elem c08_liFresh (collapse c1 ++ [.elem (c08_listTag o2) [.elem c08_liFresh (collapse c2)]]),
         .elem c08_liFresh (collapse c3)]] := by
  have := C08_lists_nest [.li 0 o1 c1, .li 1 o2 c2, .li 0 o1 c3] (by simp [c08_seqOk, c08_itemOk, h1, h2])
  simpa [c08_nodeOfItem, c08_run, c08_step, c08_rend] using this

/-- a depth-2 item with no list open gets its missing outer level as `ul > li` -/
theorem C08_missing_outer_level_is_ul (o : Bool) (c : List Node) :
    collapse [c08_listNode 1 o c] =
      [.elem c08_ulol [.elem c08_li [.elem (c08_listTag o) [.elem c08_liFresh (collapse c)]]]] := by
  simp only [collapse, collapseFrom, c08_collapseNode_listNode, c08_addC_nil]
  simp [c08_listNode]

/-- a non-list block closes every open list: the next item starts a new list after the block -/
theorem C08_block_closes_lists (o : Bool) (t : Tag) (c1 c2 c3 : List Node)
    (ht : t.collapsible = false) (hl : c08_isListTag t = false)
    (h1 : c08_inert (collapse c1) = true) :
    collapse [c08_listNode 0 o c1, .elem t c2, c08_listNode 0 o c3] =
      [.elem (c08_listTag o) [.elem c08_liFresh (collapse c1)], .elem t (collapse c2),
       .elem (c08_listTag o) [.elem c08_liFresh (collapse c3)]] := by
  have := C08_lists_nest [.li 0 o c1, .block t c2, .li 0 o c3] (by simp [c08_seqOk, c08_itemOk, h1, ht, hl])
  simpa [c08_nodeOfItem, c08_run, c08_step, c08_rend] using this

/-! ## 5. examples (non-vacuity) -/

/-- the path the converter uses for a paragraph under the default style map -/
private def c08_exPath (p : ParaProps) : List Tag :=
  match findStyle upperAscii defaultStyleMap (.paragraph p) with
  | some ⟨_, .elements es⟩ => es
  | _ => [pathElem S!"p" true]

/-- bullet, bullet, number at depth 2, bullet, plain paragraph; then a heading by ID (its numbering
    is ignored), a heading by name in odd letter case with an unknown style ID, a numbered item at
    depth 3 with nothing open, and a numbered top-level item -/
private def c08_exParas : List (ParaProps × Str) :=
  [({ numbering := some ⟨S!"0", false⟩ }, S!"a"), ({ numbering := some ⟨S!"0", false⟩ }, S!"b"),
   ({ numbering := some ⟨S!"1", true⟩ }, S!"c"), ({ numbering := some ⟨S!"0", false⟩ }, S!"d"),
   ({}, S!"e"),
   ({ styleId := some S!"Heading2", numbering := some ⟨S!"0", false⟩ }, S!"f"),
   ({ styleId := some S!"x", styleName := some S!"hEADING 4" }, S!"g"),
   ({ numbering := some ⟨S!"2", true⟩ }, S!"h"), ({ numbering := some ⟨S!"0", true⟩ }, S!"i")]

example :
    render (c08_exParas.flatMap fun (p, s) => wrapElems (c08_exPath p) [.text s]) =
      S!"<ul><li>a</li><li>b<ol><li>c</li></ol></li><li>d</li></ul><p>e</p><h2>f</h2><h4>g</h4><ul><li><ul><li><ol><li>h</li></ol></li></ul></li></ul><ol><li>i</li></ol>" := by
  decide +kernel

/-- the README-style sequence as a forest: one `ul` with three `li`, the `ol` nested in the second -/
example :
    collapse (wrapElems (c08_listPath 0 false) [.text S!"a"] ++ wrapElems (c08_listPath 0 false) [.text S!"b"] ++
              wrapElems (c08_listPath 1 true) [.text S!"c"] ++ wrapElems (c08_listPath 0 false) [.text S!"d"] ++
              wrapElems [c08_fresh S!"p"] [.text S!"e"]) =
      [.elem c08_ul [.elem c08_liFresh [.text S!"a"],
                     .elem c08_liFresh [.text S!"b", .elem c08_ol [.elem c08_liFresh [.text S!"c"]]],
                     .elem c08_liFresh [.text S!"d"]],
       .elem (c08_fresh S!"p") [.text S!"e"]] := by rfl

/-- the same through the specification machine -/
example :
    c08_rend (c08_run ([], []) [.li 0 false [.text S!"a"], .li 0 false [.text S!"b"], .li 1 true [.text S!"c"],
        .li 0 false [.text S!"d"], .block (c08_fresh S!"p") [.text S!"e"]]).1
      (c08_run ([], []) [.li 0 false [.text S!"a"], .li 0 false [.text S!"b"], .li 1 true [.text S!"c"],
        .li 0 false [.text S!"d"], .block (c08_fresh S!"p") [.text S!"e"]]).2 =
      [.elem c08_ul [.elem c08_liFresh [.text S!"a"],
                     .elem c08_liFresh [.text S!"b", .elem c08_ol [.elem c08_liFresh [.text S!"c"]]],
                     .elem c08_liFresh [.text S!"d"]],
       .elem (c08_fresh S!"p") [.text S!"e"]] := by rfl

example : c08_seqOk [.li 0 false [.text S!"a"], .li 0 false [.text S!"b"], .li 1 true [.text S!"c"],
    .li 0 false [.text S!"d"], .block (c08_fresh S!"p") [.text S!"e"]] = true := by decide +kernel

/-- hypotheses of (a)–(d) are satisfiable -/
example : upperAscii S!"hEADING 4" = upperAscii (c08_hName 4) := by decide
example : c08_hId 3 = S!"Heading3" ∧ c08_hName 3 = S!"Heading 3" ∧ c08_hTag 3 = S!"h3" := by decide
example : c08_notHeadingId (some S!"ListParagraph") = true ∧ c08_noEarlierName (some S!"List Paragraph") = true := by
  decide
example : c08_knownLevel (some ⟨S!"7", true⟩) = false ∧ c08_knownLevel none = false := by decide
example : findStyle upperAscii defaultStyleMap (.paragraph {}) = none :=
  C08_default_paths_none none none none rfl rfl (by simp) rfl

/-- the default list path of depth 3, numbered -/
example : c08_outer 2 ++ [c08_listTag true, c08_liFresh] =
    [c08_ulol, c08_li, c08_ulol, c08_li, c08_ol, c08_liFresh] := by rfl

/-- a path with a fresh last tag, a forest to merge into, the spine of C08_blocks_one_to_one -/
example : c08_descend 1 (addC [.elem c08_ul [.elem c08_liFresh []]] (c08_chain c08_ulol [c08_liFresh] [.text S!"x"]))
    = some (c08_liFresh, [.text S!"x"]) := by rfl
example : c08_oneBlock (c08_listPath 2 true) = true ∧ c08_noVoid (c08_listPath 2 true) = true := by decide

/-- numbering: a num whose abstract num links to a numbering style whose num has the levels -/
private def c08_exNumbering : Numbering :=
  { abstractNums := [(some S!"0", ⟨[(S!"0", ⟨S!"0", true, some S!"Fancy"⟩)], none⟩),
                     (some S!"1", ⟨[], some S!"ListStyle"⟩)],
    nums := [(some S!"5", S!"0"), (some S!"6", S!"1")],
    styles := { numbering := [(some S!"ListStyle", some S!"5")] } }
example : findLevel c08_exNumbering 3 (some S!"6") S!"0" = .ok (some ⟨S!"0", true⟩) := by rfl
example : findLevel c08_exNumbering 3 (some S!"9") S!"0" = .ok none := by rfl
example : findLevelByStyle c08_exNumbering S!"Fancy" = some ⟨S!"0", true⟩ := by decide
example : readNumberingProps { numbering := c08_exNumbering } (some S!"Fancy")
    [.elem S!"w:numId" [(S!"w:val", S!"9")] [], .elem S!"w:ilvl" [(S!"w:val", S!"0")] []] = .ok none := by rfl
example : readNumberingProps { numbering := c08_exNumbering } (some S!"Fancy")
    [.elem S!"w:numId" [(S!"w:val", S!"9")] []] = .ok (some ⟨S!"0", true⟩) := by rfl

/-! ## 6. END TO END: from the XML of a paragraph

Specification on the XML (Proofs/C08_Xml.lean; `c11x_named` / `c11x_propVal` look at the first child element with a
given name and at the last `w:val` attribute, independently of the reader's helpers): `c08x_pPr cs` — the children of
the paragraph's first `w:pPr`; `c08x_markDeleted cs` — `w:pPr/w:rPr/w:del` exists (the paragraph mark is a tracked
deletion: the reader merges such a paragraph into the next one); `c08x_style env pPr` — `w:pStyle/@w:val`, its name among
the paragraph styles of styles.xml, and the warning if it is undefined; `c08x_numPr pPr` — the pair
(`w:numPr/w:numId/@w:val`, `w:numPr/w:ilvl/@w:val`); `c08x_numbering env pPr` — the numbering the paragraph should get. -/

/-- THE SPECIFIED NUMBERING, case by case: the paragraph's own `w:numPr` with BOTH a `w:numId` and a `w:ilvl` decides —
    `find_level` through the numbering definitions (`C08_findLevel_direct` / `_link` / `_dangling`), whatever the
    paragraph style is; otherwise the level whose `w:pStyle` is the paragraph's style id; otherwise none -/
theorem C08_xml_numbering_cases (env : REnv) (pPr : List XmlNode) :
    (∀ numId lvl, c08x_numPr pPr = (some numId, some lvl) →
      c08x_numbering env pPr = findLevel env.numbering (c08x_fuel env) (some numId) lvl) ∧
    (∀ sid, (c08x_numPr pPr).1 = none ∨ (c08x_numPr pPr).2 = none → (c08x_style env pPr).1.1 = some sid →
      c08x_numbering env pPr = .ok (findLevelByStyle env.numbering sid)) ∧
    ((c08x_numPr pPr).1 = none ∨ (c08x_numPr pPr).2 = none → (c08x_style env pPr).1.1 = none →
      c08x_numbering env pPr = .ok none) := by
  unfold c08x_numbering
  refine ⟨fun numId lvl h => by rw [h], fun sid h hs => ?_, fun h hs => ?_⟩
  · rcases hp : c08x_numPr pPr with ⟨a, b⟩
    simp only [hp] at h
    rcases h with h | h
    · subst h; simp [hs]
    · subst h; cases a <;> simp [hs]
  · rcases hp : c08x_numPr pPr with ⟨a, b⟩
    simp only [hp] at h
    rcases h with h | h
    · subst h; simp [hs]
    · subst h; cases a <;> simp [hs]

/-- READER HALF.  A `w:p` (any attributes) whose paragraph mark is not deleted, whose children `cs` — preceded by
    what earlier deleted paragraphs deferred — are read as `r`: the reader returns, or fails, as the resolution of
    the specified numbering does; on success the result is ONE paragraph element with the style read off the `w:pPr`,
    its `numbering` field equal to the specified numbering, around the children's elements; followed by the extra
    elements of its content. -/
theorem C08_xml_paragraph_numbering (env : REnv) (f : Nat) (st st1 : RState) (as : Attrs) (cs : List XmlNode)
    (r : ReadResult)
    (hdel : c08x_markDeleted cs = false)
    (hcs : readAllWith (readElem env f) { st with deleted := [] } (st.deleted ++ cs) = .ok (r, st1)) :
    readElem env (f+1) st (.elem S!"w:p" as cs) =
      (c08x_numbering env (c08x_pPr cs)).map fun num =>
        ({ elements := .paragraph { styleId := (c08x_style env (c08x_pPr cs)).1.1,
                                    styleName := (c08x_style env (c08x_pPr cs)).1.2,
                                    numbering := num } r.elements :: r.extra,
           extra := [],
           messages := (c08x_style env (c08x_pPr cs)).2 ++ r.messages }, st1) := by
  rw [c08x_reader_paragraph, hdel, hcs]
  cases c08x_numbering env (c08x_pPr cs) <;> rfl

/-- a paragraph whose mark is deleted yields nothing itself; its children are deferred to the next paragraph -/
theorem C08_xml_deleted_paragraph (env : REnv) (f : Nat) (st : RState) (as : Attrs) (cs : List XmlNode)
    (hdel : c08x_markDeleted cs = true) :
    readElem env (f+1) st (.elem S!"w:p" as cs) = .ok ({}, { st with deleted := st.deleted ++ cs }) := by
  rw [c08x_reader_paragraph, hdel]; rfl

/-- NUMBERING DEFINITIONS FROM numbering.xml, direct case.  The environment's numbering was read from the root
    children `root` of numbering.xml (`hn`); the paragraph's `w:numPr` names num `numId` and level `lvl` (`hnp`); the
    num points to an abstract numbering (`h1`, `h2`) without numbering-style link (`h3`) that has a level filed under
    `lvl` (`h4`).  Then the specified numbering of the paragraph is level `lvl` itself, and it is ordered iff the
    `w:numFmt` of a `w:lvl` element with `w:ilvl` = `lvl` of a `w:abstractNum` with that id is not `bullet`. -/
theorem C08_xml_numbering_from_definitions (env : REnv) (root : List XmlNode) (styles : Styles)
    (pPr : List XmlNode) (numId lvl absId : Str) (an : AbstractNum) (l : AbsLevel)
    (hn : readNumberingXml root styles = .ok env.numbering)
    (hnp : c08x_numPr pPr = (some numId, some lvl))
    (h1 : lookupLast (some numId) env.numbering.nums = some absId)
    (h2 : lookupLast (some absId) env.numbering.abstractNums = some an)
    (h3 : an.numStyleLink = none)
    (h4 : lookupLast lvl an.levels = some l) :
    c08x_numbering env pPr = .ok (some ⟨lvl, l.isOrdered⟩) ∧
    ∃ ap ∈ c11x_named S!"w:abstractNum" root, c11x_attr S!"w:abstractNumId" ap.1 = some absId ∧
      ∃ lp ∈ c11x_named S!"w:lvl" ap.2, c11x_attr S!"w:ilvl" lp.1 = some lvl ∧
        l.isOrdered = decide ((c11x_propVal S!"w:numFmt" lp.2).join ≠ some S!"bullet") :=
  c08x_numbering_direct_xml env root styles pPr numId lvl absId an l hn hnp h1 h2 h3 h4

/-- FROM THE XML TO THE LIST ITEM.  Under the default style map (`hmap`, `hup`), a `w:p` whose mark is not deleted
    (`hdel`), whose children are read as `r` (`hcs`), whose specified numbering resolves to level index `k` < 5 of kind
    `o` (`hnum`), and whose style is not caught by an earlier mapping (`hs`: style id not `Heading1..6`; `hn`: style
    name absent or not a heading / note name): it is read as one paragraph element, and THAT element is converted to
    the single node `c08_listNode k o content` — `ul|ol > li >` (k times) `ol|ul > li:fresh >` the nodes of its
    children (`C08_list_path_node`). -/
theorem C08_xml_to_block (env : REnv) (cfg : Cfg) (hdr : Bool) (f : Nat) (st st1 : RState) (as : Attrs)
    (cs : List XmlNode) (r : ReadResult) (k : Nat) (o : Bool)
    (hmap : cfg.styleMap = defaultStyleMap) (hup : cfg.upper = upperAscii)
    (hdel : c08x_markDeleted cs = false)
    (hcs : readAllWith (readElem env f) { st with deleted := [] } (st.deleted ++ cs) = .ok (r, st1))
    (hnum : c08x_numbering env (c08x_pPr cs) = .ok (some ⟨natToStr k, o⟩)) (hk : k < 5)
    (hs : c08_notHeadingId (c08x_style env (c08x_pPr cs)).1.1 = true)
    (hn : c08_noEarlierName (c08x_style env (c08x_pPr cs)).1.2 = true) :
    readElem env (f+1) st (.elem S!"w:p" as cs) =
      .ok ({ elements := .paragraph { styleId := (c08x_style env (c08x_pPr cs)).1.1,
                                      styleName := (c08x_style env (c08x_pPr cs)).1.2,
                                      numbering := some ⟨natToStr k, o⟩ } r.elements :: r.extra,
             extra := [],
             messages := (c08x_style env (c08x_pPr cs)).2 ++ r.messages }, st1) ∧
    visit cfg hdr (.paragraph { styleId := (c08x_style env (c08x_pPr cs)).1.1,
                                styleName := (c08x_style env (c08x_pPr cs)).1.2,
                                numbering := some ⟨natToStr k, o⟩ } r.elements) =
      (do let content ← visitAll cfg hdr r.elements
          pure [c08_listNode k o (if cfg.ignoreEmpty then content else .forceWrite :: content)]) := by
  refine ⟨by rw [C08_xml_paragraph_numbering env f st st1 as cs r hdel hcs, hnum]; rfl, ?_⟩
  rw [c08_visit_paragraph cfg hdr _ _ _ (c08_listPath k o)
    (by rw [hmap, hup]; exact c08_path_list k hk o _ _ hs hn) rfl]
  simp only [c08_wrap_listPath]

/-- …TO A HEADING, by style id: `w:pStyle` = `Heading<n>` gives `h<n>:fresh`, whatever the numbering -/
theorem C08_xml_to_block_heading_id (env : REnv) (cfg : Cfg) (hdr : Bool) (f : Nat) (st st1 : RState) (as : Attrs)
    (cs : List XmlNode) (r : ReadResult) (n : Nat) (num : Option NumLevel)
    (hmap : cfg.styleMap = defaultStyleMap) (hup : cfg.upper = upperAscii)
    (hdel : c08x_markDeleted cs = false)
    (hcs : readAllWith (readElem env f) { st with deleted := [] } (st.deleted ++ cs) = .ok (r, st1))
    (hnum : c08x_numbering env (c08x_pPr cs) = .ok num)
    (h1 : 1 ≤ n) (h6 : n ≤ 6) (hid : (c08x_style env (c08x_pPr cs)).1.1 = some (c08_hId n)) :
    readElem env (f+1) st (.elem S!"w:p" as cs) =
      .ok ({ elements := .paragraph { styleId := some (c08_hId n),
                                      styleName := (c08x_style env (c08x_pPr cs)).1.2,
                                      numbering := num } r.elements :: r.extra,
             extra := [],
             messages := (c08x_style env (c08x_pPr cs)).2 ++ r.messages }, st1) ∧
    visit cfg hdr (.paragraph { styleId := some (c08_hId n), styleName := (c08x_style env (c08x_pPr cs)).1.2,
                                numbering := num } r.elements) =
      (do let content ← visitAll cfg hdr r.elements
          pure [.elem (c08_fresh (c08_hTag n)) (if cfg.ignoreEmpty then content else .forceWrite :: content)]) := by
  refine ⟨by rw [C08_xml_paragraph_numbering env f st st1 as cs r hdel hcs, hnum, hid]; rfl, ?_⟩
  rw [c08_visit_paragraph cfg hdr _ _ _ [c08_fresh (c08_hTag n)]
    (by rw [hmap, hup]; exact c08_path_heading_id n h1 h6 _ num) rfl]
  rfl

/-- …TO A HEADING, by style name: a style whose name in styles.xml is `Heading <n>` up to ASCII case (and whose id is
    not `Heading1..6`) gives `h<n>:fresh`, whatever the numbering -/
theorem C08_xml_to_block_heading_name (env : REnv) (cfg : Cfg) (hdr : Bool) (f : Nat) (st st1 : RState) (as : Attrs)
    (cs : List XmlNode) (r : ReadResult) (n : Nat) (num : Option NumLevel) (name : Str)
    (hmap : cfg.styleMap = defaultStyleMap) (hup : cfg.upper = upperAscii)
    (hdel : c08x_markDeleted cs = false)
    (hcs : readAllWith (readElem env f) { st with deleted := [] } (st.deleted ++ cs) = .ok (r, st1))
    (hnum : c08x_numbering env (c08x_pPr cs) = .ok num)
    (h1 : 1 ≤ n) (h6 : n ≤ 6) (hs : c08_notHeadingId (c08x_style env (c08x_pPr cs)).1.1 = true)
    (hname : (c08x_style env (c08x_pPr cs)).1.2 = some name)
    (hn : upperAscii name = upperAscii (c08_hName n)) :
    readElem env (f+1) st (.elem S!"w:p" as cs) =
      .ok ({ elements := .paragraph { styleId := (c08x_style env (c08x_pPr cs)).1.1, styleName := some name,
                                      numbering := num } r.elements :: r.extra,
             extra := [],
             messages := (c08x_style env (c08x_pPr cs)).2 ++ r.messages }, st1) ∧
    visit cfg hdr (.paragraph { styleId := (c08x_style env (c08x_pPr cs)).1.1, styleName := some name,
                                numbering := num } r.elements) =
      (do let content ← visitAll cfg hdr r.elements
          pure [.elem (c08_fresh (c08_hTag n)) (if cfg.ignoreEmpty then content else .forceWrite :: content)]) := by
  refine ⟨by rw [C08_xml_paragraph_numbering env f st st1 as cs r hdel hcs, hnum, hname]; rfl, ?_⟩
  rw [c08_visit_paragraph cfg hdr _ _ _ [c08_fresh (c08_hTag n)]
    (by rw [hmap, hup]; exact c08_path_heading_name n h1 h6 _ hs name hn num) rfl]
  rfl

/-- …TO A PLAIN PARAGRAPH: no heading style id, no heading / note / `Normal` style name, and no numbering (or a level
    index other than 0..4): no default mapping applies and the paragraph becomes `p:fresh` (with the
    unrecognised-style warning iff it has a style id) -/
theorem C08_xml_to_block_plain (env : REnv) (cfg : Cfg) (hdr : Bool) (f : Nat) (st st1 : RState) (as : Attrs)
    (cs : List XmlNode) (r : ReadResult) (num : Option NumLevel)
    (hmap : cfg.styleMap = defaultStyleMap) (hup : cfg.upper = upperAscii)
    (hdel : c08x_markDeleted cs = false)
    (hcs : readAllWith (readElem env f) { st with deleted := [] } (st.deleted ++ cs) = .ok (r, st1))
    (hnum : c08x_numbering env (c08x_pPr cs) = .ok num)
    (hs : c08_notHeadingId (c08x_style env (c08x_pPr cs)).1.1 = true)
    (hn : c08_noEarlierName (c08x_style env (c08x_pPr cs)).1.2 = true)
    (hN : (c08x_style env (c08x_pPr cs)).1.2.map upperAscii ≠ some S!"NORMAL")
    (hl : c08_knownLevel num = false) :
    readElem env (f+1) st (.elem S!"w:p" as cs) =
      .ok ({ elements := .paragraph { styleId := (c08x_style env (c08x_pPr cs)).1.1,
                                      styleName := (c08x_style env (c08x_pPr cs)).1.2,
                                      numbering := num } r.elements :: r.extra,
             extra := [],
             messages := (c08x_style env (c08x_pPr cs)).2 ++ r.messages }, st1) ∧
    visit cfg hdr (.paragraph { styleId := (c08x_style env (c08x_pPr cs)).1.1,
                                styleName := (c08x_style env (c08x_pPr cs)).1.2,
                                numbering := num } r.elements) =
      (do (match (c08x_style env (c08x_pPr cs)).1.1 with
            | some sid => warn (S!"Unrecognised paragraph style: " ++ pyOpt (c08x_style env (c08x_pPr cs)).1.2 ++
                                S!" (Style ID: " ++ sid ++ S!")")
            | none => pure ())
          let content ← visitAll cfg hdr r.elements
          pure [.elem (pathElem S!"p" true) (if cfg.ignoreEmpty then content else .forceWrite :: content)]) := by
  refine ⟨by rw [C08_xml_paragraph_numbering env f st st1 as cs r hdel hcs, hnum]; rfl, ?_⟩
  rw [c08_visit_paragraph_default cfg hdr _ _
    (by rw [hmap, hup]; exact c08_path_none _ _ num hs hn hN hl)]
  rfl

/-- AN XML LIST PARAGRAPH AT LEVEL k BECOMES AN `li` INSIDE k+1 LISTS.  Under the hypotheses of `C08_xml_to_block`,
    if converting the paragraph read succeeds with `nodes` (`hrun`), then `nodes` is the single list node of depth
    `k+1` and kind `o` around the nodes `content` of the paragraph's children (with the force-write marker when empty
    paragraphs are kept); and merging it (the `collapse` step) into ANY forest denoted by a stack `S` of open lists
    and the children `c` of the innermost open item gives the forest denoted by `c08_step S c k o`: exactly `k+1`
    lists are open, `2k+1` steps down the last-child spine sits the new `li:fresh` with exactly `content` as its
    children, and the innermost list is `ol` iff `o`. -/
theorem C08_xml_list_item_nesting (env : REnv) (cfg : Cfg) (hdr : Bool) (f : Nat) (st st1 : RState) (as : Attrs)
    (cs : List XmlNode) (r : ReadResult) (k : Nat) (o : Bool) (s s' : ConvState) (nodes : List Node)
    (S : List c08_Level) (c : List Node)
    (hmap : cfg.styleMap = defaultStyleMap) (hup : cfg.upper = upperAscii)
    (hdel : c08x_markDeleted cs = false)
    (hcs : readAllWith (readElem env f) { st with deleted := [] } (st.deleted ++ cs) = .ok (r, st1))
    (hnum : c08x_numbering env (c08x_pPr cs) = .ok (some ⟨natToStr k, o⟩)) (hk : k < 5)
    (hs : c08_notHeadingId (c08x_style env (c08x_pPr cs)).1.1 = true)
    (hn : c08_noEarlierName (c08x_style env (c08x_pPr cs)).1.2 = true)
    (hrun : (visit cfg hdr (.paragraph { styleId := (c08x_style env (c08x_pPr cs)).1.1,
                                          styleName := (c08x_style env (c08x_pPr cs)).1.2,
                                          numbering := some ⟨natToStr k, o⟩ } r.elements)).run s = .ok (nodes, s'))
    (hw : c08_wf S = true) (hi : c08_inert c = true) :
    ∃ content,
      (visitAll cfg hdr r.elements).run s =
        .ok (content, s') ∧
      nodes = [c08_listNode k o (if cfg.ignoreEmpty then content else .forceWrite :: content)] ∧
      addC (c08_rend S c) (c08_listNode k o (if cfg.ignoreEmpty then content else .forceWrite :: content)) =
        c08_rend (c08_step S c k o) (if cfg.ignoreEmpty then content else .forceWrite :: content) ∧
      c08_descend (2 * k + 1)
          (c08_rend (c08_step S c k o) (if cfg.ignoreEmpty then content else .forceWrite :: content)) =
        some (c08_liFresh, if cfg.ignoreEmpty then content else .forceWrite :: content) ∧
      (c08_step S c k o).length = k + 1 ∧
      ∃ L, (c08_step S c k o)[k]? = some L ∧ L.litag = c08_liFresh ∧
        L.ltag.name = (if o then S!"ol" else S!"ul") := by
  rw [(C08_xml_to_block env cfg hdr f st st1 as cs r k o hmap hup hdel hcs hnum hk hs hn).2, c09_bind_ok] at hrun
  obtain ⟨content, s1, h1, hrun⟩ := hrun
  rw [c09_pure_ok] at hrun
  obtain ⟨hnodes, hs1⟩ := hrun
  subst hs1
  refine ⟨content, h1, hnodes.symm, C08_lists_step k o _ S c hw hi,
    (C08_item_sits_in_d_lists S c k o _ hw).1, (C08_item_depth_and_kind S c k o).1,
    (C08_item_depth_and_kind S c k o).2⟩

/-! examples: numbering.xml with a bullet numbering (levels 0, 1) and a decimal one; styles.xml naming `ListParagraph`;
    the paragraph `<w:p><w:pPr><w:pStyle w:val="ListParagraph"/><w:numPr><w:ilvl w:val="1"/><w:numId w:val="5"/>
    </w:numPr></w:pPr><w:r><w:t>item</w:t></w:r></w:p>` -/
private def c08x_exNumXml : List XmlNode :=
  [.elem S!"w:abstractNum" [(S!"w:abstractNumId", S!"0")]
     [.elem S!"w:lvl" [(S!"w:ilvl", S!"0")] [.elem S!"w:numFmt" [(S!"w:val", S!"bullet")] []],
      .elem S!"w:lvl" [(S!"w:ilvl", S!"1")] [.elem S!"w:numFmt" [(S!"w:val", S!"bullet")] []]],
   .elem S!"w:abstractNum" [(S!"w:abstractNumId", S!"1")]
     [.elem S!"w:lvl" [(S!"w:ilvl", S!"0")] [.elem S!"w:numFmt" [(S!"w:val", S!"decimal")] [],
                                            .elem S!"w:pStyle" [(S!"w:val", S!"Numbered")] []]],
   .elem S!"w:num" [(S!"w:numId", S!"5")] [.elem S!"w:abstractNumId" [(S!"w:val", S!"0")] []],
   .elem S!"w:num" [(S!"w:numId", S!"6")] [.elem S!"w:abstractNumId" [(S!"w:val", S!"1")] []]]
private def c08x_exStyles : Styles :=
  { paragraph := [(some S!"ListParagraph", some S!"List Paragraph"), (some S!"Numbered", some S!"Numbered")] }
private def c08x_exEnv : REnv :=
  { numbering := (match readNumberingXml c08x_exNumXml c08x_exStyles with | .ok n => n | .error _ => {}),
    styles := c08x_exStyles }
private def c08x_exPara (pPr : List XmlNode) (t : Str) : List XmlNode :=
  [.elem S!"w:pPr" [] pPr, .elem S!"w:r" [] [.elem S!"w:t" [] [.text t]]]
private def c08x_exItem : List XmlNode :=
  c08x_exPara [.elem S!"w:pStyle" [(S!"w:val", S!"ListParagraph")] [],
               .elem S!"w:numPr" [] [.elem S!"w:ilvl" [(S!"w:val", S!"1")] [], .elem S!"w:numId" [(S!"w:val", S!"5")] []]]
    S!"item"

example : readNumberingXml c08x_exNumXml c08x_exStyles = .ok c08x_exEnv.numbering := by rfl
/-- the hypotheses of `C08_xml_to_block` / `C08_xml_list_item_nesting` for the item: level 1, bullet -/
example : c08x_markDeleted c08x_exItem = false ∧
    c08x_numPr (c08x_pPr c08x_exItem) = (some S!"5", some S!"1") ∧
    c08x_numbering c08x_exEnv (c08x_pPr c08x_exItem) = .ok (some ⟨natToStr 1, false⟩) ∧
    (c08x_style c08x_exEnv (c08x_pPr c08x_exItem)).1 = (some S!"ListParagraph", some S!"List Paragraph") ∧
    c08_notHeadingId (c08x_style c08x_exEnv (c08x_pPr c08x_exItem)).1.1 = true ∧
    c08_noEarlierName (c08x_style c08x_exEnv (c08x_pPr c08x_exItem)).1.2 = true :=
  ⟨rfl, rfl, rfl, rfl, rfl, rfl⟩
example : ∃ r st1, readAllWith (readElem c08x_exEnv 3) {} c08x_exItem = .ok (r, st1) ∧
    r.elements = [.run {} [.text S!"item"]] := ⟨_, _, rfl, rfl⟩
/-- the hypotheses of `C08_xml_numbering_from_definitions` for it -/
example : lookupLast (some S!"5") c08x_exEnv.numbering.nums = some S!"0" ∧
    (lookupLast (some S!"0") c08x_exEnv.numbering.abstractNums).map (·.numStyleLink) = some none := by decide +kernel
/-- read and converted with the default style map: `ul|ol > li > ul > li:fresh > item` -/
example :
    (match readElem c08x_exEnv 4 {} (.elem S!"w:p" [] c08x_exItem) with
      | .ok (rr, _) => ((visitAll { styleMap := c08_defaultMapValue } false rr.elements).run {}).toOption.map (·.1)
      | .error _ => none) = some [c08_listNode 1 false [.text S!"item"]] := by rfl
/-- no `w:numPr`, but the style `Numbered` is the `w:pStyle` of level 0 of the decimal numbering: `ol > li:fresh` -/
example : c08x_numbering c08x_exEnv [.elem S!"w:pStyle" [(S!"w:val", S!"Numbered")] []] =
    .ok (some ⟨S!"0", true⟩) := by rfl
example :
    (match readElem c08x_exEnv 4 {} (.elem S!"w:p" []
        (c08x_exPara [.elem S!"w:pStyle" [(S!"w:val", S!"Numbered")] []] S!"one")) with
      | .ok (rr, _) => ((visitAll { styleMap := c08_defaultMapValue } false rr.elements).run {}).toOption.map (·.1)
      | .error _ => none) = some [c08_listNode 0 true [.text S!"one"]] := by rfl
/-- the paragraph's own `w:numPr` wins over the style's numbering, even when its num is undefined: a plain `p` -/
example : c08x_numbering c08x_exEnv
    [.elem S!"w:pStyle" [(S!"w:val", S!"Numbered")] [],
     .elem S!"w:numPr" [] [.elem S!"w:ilvl" [(S!"w:val", S!"0")] [], .elem S!"w:numId" [(S!"w:val", S!"9")] []]] =
    .ok none := by rfl
/-- a deleted paragraph mark -/
example : c08x_markDeleted [.elem S!"w:pPr" [] [.elem S!"w:rPr" [] [.elem S!"w:del" [] []]]] = true := by decide


end Mammoth
