"""Regenerates lean/MammothModel/Generated.lean from /repo's current source.

Everything here is read from the *source text* with `ast` (no import of the library), except the
escape table and the tokeniser rules, which are obtained behaviourally from a fresh subprocess so
that whatever the code does today is what the theorems are about.  Any shape this script does not
understand raises: the tie is then reported as broken, never silently kept."""
import ast
import json
import os
import subprocess
import sys


def lean_str(s):
    out = []
    for ch in s:
        o = ord(ch)
        if ch == "\\":
            out.append("\\\\")
        elif ch == '"':
            out.append('\\"')
        elif ch == "\n":
            out.append("\\n")
        elif ch == "\r":
            out.append("\\r")
        elif ch == "\t":
            out.append("\\t")
        elif o < 0x20 or o == 0x7f:
            out.append("\\x%02x" % o)
        elif 0xD800 <= o <= 0xDFFF:
            raise ValueError("surrogate in extracted literal")
        else:
            out.append(ch)
    return 'S!"' + "".join(out) + '"'


def lean_char(ch):
    o = ord(ch)
    if ch == "'":
        return "'\\''"
    if ch == "\\":
        return "'\\\\'"
    if ch == "\n":
        return "'\\n'"
    if ch == "\t":
        return "'\\t'"
    if ch == "\r":
        return "'\\r'"
    if o < 0x20 or o == 0x7f:
        return "(Char.ofNat %d)" % o
    return "'" + ch + "'"


def parse(repo, rel):
    path = os.path.join(repo, rel)
    return ast.parse(open(path, encoding="utf-8").read(), filename=path)


def find_assign(tree, name):
    for node in ast.walk(tree):
        if isinstance(node, ast.Assign):
            for t in node.targets:
                if isinstance(t, ast.Name) and t.id == name:
                    return node.value
    raise KeyError("assignment to %s not found" % name)


def find_func(tree, name):
    for node in ast.walk(tree):
        if isinstance(node, ast.FunctionDef) and node.name == name:
            return node
    raise KeyError("function %s not found" % name)


def const_seq(node, what):
    """the constants of a list / tuple / set literal, possibly wrapped in set(...), frozenset(...), list(...), tuple(...)"""
    while isinstance(node, ast.Call) and isinstance(node.func, ast.Name) and node.func.id in ("set", "frozenset", "list", "tuple", "sorted") \
            and len(node.args) == 1 and not node.keywords:
        node = node.args[0]
    if isinstance(node, (ast.List, ast.Tuple, ast.Set)) and all(isinstance(e, ast.Constant) for e in node.elts):
        return [e.value for e in node.elts]
    raise ValueError("%s is not a literal collection of constants" % what)


def handler_name(v):
    if isinstance(v, ast.Name):
        return v.id
    if isinstance(v, ast.Call) and isinstance(v.func, ast.Name) and v.func.id == "note_reference_reader" \
            and len(v.args) == 1 and isinstance(v.args[0], ast.Constant):
        return "note_reference:" + v.args[0].value
    raise ValueError("unrecognised handler expression: " + ast.dump(v))


KNOWN_HANDLERS = {
    "text", "run", "paragraph", "read_fld_char", "read_instr_text", "tab", "no_break_hyphen", "soft_hyphen",
    "symbol", "table", "table_row", "table_cell", "read_child_elements", "pict", "hyperlink", "bookmark_start",
    "break_", "inline", "read_imagedata", "note_reference:footnote", "note_reference:endnote",
    "read_comment_reference", "alternate_content", "read_sdt",
}


RUNTIME = r"""
import inspect, json, sys
sys.path.insert(0, %r)
out = {}
def attempt(name, f):
    try:
        out[name] = f()
    except Exception as e:
        out[name] = {"__error__": "%%s: %%s" %% (type(e).__name__, e)}

def escape_table():
    from mammoth.writers.html import _escape_html
    esc = []
    for cp in list(range(0, 0x300)) + [0x2028, 0x2029, 0xfeff, 0x1f600]:
        if 0xd800 <= cp <= 0xdfff: continue
        c = chr(cp)
        e = _escape_html(c)
        if e != c: esc.append([c, e])
    return esc

def token_rules():
    from mammoth.styles.parser import tokeniser
    def as_rules(v):
        if isinstance(v, (list, tuple)) and v and all(isinstance(x, tuple) and len(x) == 2 and hasattr(x[1], "pattern") for x in v):
            return [[t, r.pattern] for t, r in v]
    rules = None
    for cell in (tokeniser.tokenise.__closure__ or ()):
        rules = rules or as_rules(cell.cell_contents)
    for v in list(vars(tokeniser).values()):
        rules = rules or as_rules(v)
    if rules is None:
        raise ValueError("tokeniser rules not found")
    return rules

def reachable(root, module_prefix="mammoth"):
    # objects reachable from `root` through closures, referenced module globals, bound methods and instance attributes
    seen, dicts, colls = set(), [], []
    def walk(o, depth):
        if id(o) in seen or depth > 10:
            return
        seen.add(id(o))
        if isinstance(o, dict):
            if o and all(isinstance(k, str) for k in o) and all(callable(v) for v in o.values()):
                dicts.append(o)
            return
        if isinstance(o, (set, frozenset, list, tuple)):
            if len(o) >= 3 and all(isinstance(k, str) for k in o):
                colls.append(o)
            return
        if inspect.isfunction(o):
            if not (o.__module__ or "").startswith(module_prefix):
                return
            for c in (o.__closure__ or ()):
                try:
                    walk(c.cell_contents, depth + 1)
                except ValueError:
                    pass
            for name in o.__code__.co_names:
                if name in o.__globals__:
                    v = o.__globals__[name]
                    if isinstance(v, (set, frozenset, list, tuple, dict)) or inspect.isfunction(v):
                        walk(v, depth + 1)
            for const in o.__code__.co_consts:
                if inspect.iscode(const):
                    pass
        elif inspect.ismethod(o):
            walk(o.__func__, depth + 1)
            walk(o.__self__, depth + 1)
        elif hasattr(o, "__dict__") and type(o).__module__.startswith(module_prefix):
            for v in vars(o).values():
                walk(v, depth + 1)
    walk(root, 0)
    return dicts, colls

def handler_kind(fn):
    name = getattr(fn, "__name__", None)
    if name is None:
        raise ValueError("handler without a name")
    cells = []
    for c in (getattr(fn, "__closure__", None) or ()):
        try:
            cells.append(c.cell_contents)
        except ValueError:
            pass
    strs = [c for c in cells if isinstance(c, str)]
    if name.startswith("note_reference") and len(strs) == 1:
        return "note_reference:" + strs[0]
    return name

def reader_tables():
    from mammoth.docx import body_xml
    dicts, colls = reachable(body_xml.reader())
    cands = [d for d in dicts if all(":" in k for k in d) and len(d) >= 10]
    if not cands:
        raise ValueError("no handler table reachable from body_xml.reader()")
    handlers = max(cands, key=len)
    ign = [c for c in colls if all(":" in k for k in c) and len(c) >= 5 and not (set(c) & set(handlers))]
    if not ign:
        raise ValueError("no ignored-element collection reachable from body_xml.reader()")
    ignored = max(ign, key=len)
    return {"handlers": [[k, handler_kind(v)] for k, v in handlers.items()], "ignored": sorted(ignored) if isinstance(ignored, (set, frozenset)) else list(ignored)}

def find_global(module, pred, prefer=None):
    if prefer is not None and prefer in vars(module) and pred(vars(module)[prefer]):
        return vars(module)[prefer]
    for v in vars(module).values():
        if pred(v):
            return v
        if inspect.isclass(v) and getattr(v, "__module__", None) == module.__name__:
            for w in vars(v).values():
                if pred(w):
                    return w
    raise ValueError("not found in " + module.__name__)

def image_extensions():
    from mammoth.docx import content_types_xml as m
    d = find_global(m, lambda v: isinstance(v, dict) and v.get("png") == "png" and all(isinstance(k, str) and isinstance(x, str) for k, x in v.items()), "_image_content_types")
    return sorted([k, v] for k, v in d.items())

def dingbat_table():
    from mammoth.docx import dingbats as m
    d = find_global(m, lambda v: isinstance(v, dict) and len(v) > 100 and all(isinstance(k, tuple) and len(k) == 2 for k in v), "dingbats")
    return sorted([[k[0], k[1]], v] for k, v in d.items())

def void_tags():
    from mammoth.html import nodes as m
    s = find_global(m, lambda v: isinstance(v, (set, frozenset, list, tuple)) and "br" in v and "img" in v and all(isinstance(x, str) for x in v), "_VOID_TAG_NAMES")
    return sorted(s)

def namespaces():
    from mammoth.docx import office_xml as m
    l = find_global(m, lambda v: isinstance(v, (list, tuple)) and len(v) > 5 and all(isinstance(x, tuple) and len(x) == 2 and all(isinstance(y, str) for y in x) for x in v) and any(x[0] == "w" for x in v), "_namespaces")
    return [list(x) for x in l]

attempt("escapeTable", escape_table)
attempt("tokenRules", token_rules)
attempt("reader", reader_tables)
attempt("imageExtensions", image_extensions)
attempt("dingbats", dingbat_table)
attempt("voidTagNames", void_tags)
attempt("namespaces", namespaces)
print(json.dumps(out))
"""

TABLES = ["handlers", "ignored", "browserImageTypes", "instrRegexes", "instrRegexModes", "symRegexes", "imageExtensions", "dingbats", "defaultStyleMapText",
          "voidTagNames", "namespaces", "escapeTable", "tokenRules"]


def all_str_constants(tree):
    return [n.value for n in ast.walk(tree) if isinstance(n, ast.Constant) and isinstance(n.value, str)]


def ast_tables(repo):
    """every table read from the source text; a table whose shape is not understood maps to the exception"""
    t = {}

    def attempt(name, f):
        try:
            t[name] = f()
        except Exception as e:  # noqa
            t[name] = e
    try:
        body = parse(repo, "mammoth/docx/body_xml.py")
    except Exception as e:  # noqa
        body = None
        for k in ("handlers", "ignored", "browserImageTypes", "instrRegexes", "instrRegexModes", "symRegexes"):
            t[k] = e

    def handlers():
        h = find_assign(body, "handlers")
        if not isinstance(h, ast.Dict):
            raise ValueError("handlers is not a dict literal")
        return [(k.value, handler_name(v)) for k, v in zip(h.keys, h.values)]

    def browser():
        ri = find_func(body, "_read_image")
        lists = [n for n in ast.walk(ri) if isinstance(n, ast.Compare) and isinstance(n.ops[0], (ast.In, ast.NotIn))
                 and isinstance(n.comparators[0], (ast.List, ast.Tuple, ast.Set))]
        if len(lists) == 1:
            return const_seq(lists[0].comparators[0], "browser image types")
        names = [n.comparators[0].id for n in ast.walk(ri) if isinstance(n, ast.Compare) and isinstance(n.ops[0], (ast.In, ast.NotIn))
                 and isinstance(n.comparators[0], ast.Name)]
        if len(names) == 1:
            return const_seq(find_assign(body, names[0]), names[0])
        # anywhere in the module: the one literal collection whose members all look like image media types
        cands = [const_seq(n, "x") for n in ast.walk(body) if isinstance(n, (ast.List, ast.Tuple, ast.Set)) and n.elts
                 and all(isinstance(e, ast.Constant) and isinstance(e.value, str) and e.value.startswith("image/") for e in n.elts)]
        if len(cands) == 1:
            return cands[0]
        raise ValueError("browser-friendly image types not found")

    def regexes(func, must):
        def f():
            fn = find_func(body, func)
            regs = [n.args[0].value for n in ast.walk(fn)
                    if isinstance(n, ast.Call) and isinstance(n.func, ast.Attribute) and n.func.attr in ("match", "compile", "fullmatch", "search")
                    and n.args and isinstance(n.args[0], ast.Constant) and isinstance(n.args[0].value, str)]
            if not regs:
                # hoisted to module level (re.compile) or passed through a name: the pattern constants of the module
                regs = [c for c in all_str_constants(body) if any(m in c for m in must) and ("\\" in c or "^" in c)]
            if not regs:
                raise ValueError("no pattern found for " + func)
            return regs
        return f
    def regex_modes(func):
        # HOW the patterns are applied: the names of the matching calls (`re.match(p, s)`, or `compiled.match(s)` when the
        # patterns were hoisted into `re.compile`) inside the function (as a sorted set).  `match` anchors at the start
        # only; a change to `search` / `fullmatch` changes which instructions are recognised without changing a pattern.
        def f():
            fn = find_func(body, func)
            calls = sorted(set(n.func.attr for n in ast.walk(fn)
                               if isinstance(n, ast.Call) and isinstance(n.func, ast.Attribute) and n.func.attr in ("match", "fullmatch", "search")))
            if not calls:
                raise ValueError("no matching call found in " + func)
            return calls   # the SET of modes in use (a loop over compiled patterns has one call for all three)
        return f
    if body is not None:
        attempt("handlers", handlers)
        attempt("ignored", lambda: const_seq(find_assign(body, "_ignored_elements"), "_ignored_elements"))
        attempt("browserImageTypes", browser)
        attempt("instrRegexes", regexes("parse_instr_text", ["HYPERLINK", "FORMCHECKBOX"]))
        attempt("instrRegexModes", regex_modes("parse_instr_text"))
        attempt("symRegexes", regexes("symbol", ["F0"]))
    attempt("imageExtensions", lambda: sorted(ast.literal_eval(find_assign(parse(repo, "mammoth/docx/content_types_xml.py"), "_image_content_types")).items()))
    attempt("dingbats", lambda: sorted(ast.literal_eval(find_assign(parse(repo, "mammoth/docx/dingbats.py"), "dingbats")).items()))

    def default_map():
        opts = parse(repo, "mammoth/options.py")
        try:
            dsm = find_assign(opts, "_default_style_map_result")
            if isinstance(dsm, ast.Call) and dsm.args and isinstance(dsm.args[0], ast.Constant):
                return dsm.args[0].value
        except KeyError:
            pass
        # moved or renamed: the one string constant of the module that is a multi-line style map
        cands = [c for c in all_str_constants(opts) if c.count("=>") >= 5 and "\n" in c]
        if len(cands) == 1:
            return cands[0]
        raise ValueError("default style map text not found in options.py")
    attempt("defaultStyleMapText", default_map)
    attempt("voidTagNames", lambda: sorted(const_seq(find_assign(parse(repo, "mammoth/html/nodes.py"), "_VOID_TAG_NAMES"), "_VOID_TAG_NAMES")))
    attempt("namespaces", lambda: [tuple(x) for x in ast.literal_eval(find_assign(parse(repo, "mammoth/docx/office_xml.py"), "_namespaces"))])
    return t


def runtime_tables(repo):
    p = subprocess.run([sys.executable, "-c", RUNTIME % repo], capture_output=True, text=True, timeout=180)
    if p.returncode != 0:
        return {"__all__": RuntimeError("runtime extraction failed: " + p.stderr[-400:])}
    raw = json.loads(p.stdout)
    t = {}
    for k, v in raw.items():
        if isinstance(v, dict) and "__error__" in v:
            t[k] = ValueError(v["__error__"])
        else:
            t[k] = v
    if not isinstance(t.get("reader"), Exception) and "reader" in t:
        t["handlers"] = [tuple(x) for x in t["reader"]["handlers"]]
        t["ignored"] = t["reader"]["ignored"]
    elif "reader" in t:
        t["handlers"] = t["ignored"] = t["reader"]
    t.pop("reader", None)
    if "imageExtensions" in t and not isinstance(t["imageExtensions"], Exception):
        t["imageExtensions"] = [tuple(x) for x in t["imageExtensions"]]
    if "dingbats" in t and not isinstance(t["dingbats"], Exception):
        t["dingbats"] = [((k[0], k[1]), v) for k, v in t["dingbats"]]
    if "namespaces" in t and not isinstance(t["namespaces"], Exception):
        t["namespaces"] = [tuple(x) for x in t["namespaces"]]
    for k in ("escapeTable", "tokenRules"):
        if k in t and not isinstance(t[k], Exception):
            t[k] = [tuple(x) for x in t[k]]
    return t


# which source is authoritative for each table: what the running code holds (runtime) where an object can be inspected,
# the source text where only text exists; the other one is the fallback, the pinned value (gen/last_good.json) the last resort
ORDER = {
    "handlers": ("runtime", "ast"), "ignored": ("runtime", "ast"), "imageExtensions": ("runtime", "ast"), "dingbats": ("runtime", "ast"),
    "voidTagNames": ("runtime", "ast"), "namespaces": ("runtime", "ast"), "escapeTable": ("runtime",), "tokenRules": ("runtime",),
    "browserImageTypes": ("ast",), "instrRegexes": ("ast",), "instrRegexModes": ("ast",), "symRegexes": ("ast",), "defaultStyleMapText": ("ast",),
}


def valid(table, v):
    if table == "handlers":
        return bool(v) and all(h in KNOWN_HANDLERS for _k, h in v)
    return v is not None and (len(v) > 0 or table in ("ignored",))


def extract(repo, status=None):
    status = {} if status is None else status
    src = {"ast": ast_tables(repo), "runtime": runtime_tables(repo)}
    last_path = os.path.join(os.path.dirname(os.path.abspath(__file__)), "last_good.json")
    last = json.load(open(last_path)) if os.path.exists(last_path) else {}
    g = {}
    for t in TABLES:
        why = []
        for how in ORDER[t]:
            v = src[how].get(t, src[how].get("__all__", KeyError("not produced")))
            if isinstance(v, Exception):
                why.append("%s: %s" % (how, v))
                continue
            if t in ("handlers",):
                # a dict: keys are unique, so the order carries no meaning; sorted for a stable Generated.lean
                v = sorted(dict((k, h) for k, h in v).items())
            if not valid(t, v):
                why.append("%s: value not understood (%r)" % (how, [h for _k, h in v if h not in KNOWN_HANDLERS][:3] if t == "handlers" else v))
                continue
            g[t] = v
            status[t] = how
            break
        else:
            if t in last:
                g[t] = from_json(t, last[t])
                status[t] = "pinned"
                status.setdefault("__why__", {})[t] = why
            else:
                raise ValueError("table %s cannot be extracted: %s" % (t, "; ".join(why)))
    return g


def to_json(g):
    return {k: v for k, v in g.items()}


def from_json(t, v):
    if t in ("handlers", "imageExtensions", "namespaces", "escapeTable", "tokenRules"):
        return [tuple(x) for x in v]
    if t == "dingbats":
        return [((k[0], k[1]), val) for k, val in v]
    return v


FONT_VARS = {}


def render(g):
    L = []
    L.append("/- GENERATED by gen/extract.py from /repo's current source: do not edit. -/")
    L.append("import MammothModel.Basic")
    L.append("namespace Mammoth.Generated")
    L.append("")
    L.append("def handlers : List (Str × Str) := [")
    L.append(",\n".join("  (%s, %s)" % (lean_str(k), lean_str(v)) for k, v in g["handlers"]) + "]")
    L.append("")
    L.append("def ignored : List Str := [" + ", ".join(lean_str(x) for x in g["ignored"]) + "]")
    L.append("")
    L.append("def browserImageTypes : List Str := [" + ", ".join(lean_str(x) for x in g["browserImageTypes"]) + "]")
    L.append("")
    L.append("def imageExtensions : List (Str × Str) := [" + ", ".join("(%s, %s)" % (lean_str(k), lean_str(v)) for k, v in g["imageExtensions"]) + "]")
    L.append("")
    L.append("def voidTagNames : List Str := [" + ", ".join(lean_str(x) for x in g["voidTagNames"]) + "]")
    L.append("")
    L.append("def escapeTable : List (Char × Str) := [" + ", ".join("(%s, %s)" % (lean_char(k), lean_str(v)) for k, v in g["escapeTable"]) + "]")
    L.append("")
    L.append("def namespaces : List (Str × Str) := [")
    L.append(",\n".join("  (%s, %s)" % (lean_str(k), lean_str(v)) for k, v in g["namespaces"]) + "]")
    L.append("")
    L.append("def tokenRules : List (Str × Str) := [")
    L.append(",\n".join("  (%s, %s)" % (lean_str(k), lean_str(v)) for k, v in g["tokenRules"]) + "]")
    L.append("")
    L.append("def instrRegexes : List Str := [" + ", ".join(lean_str(x) for x in g["instrRegexes"]) + "]")
    L.append("def instrRegexModes : List Str := [" + ", ".join(lean_str(x) for x in g["instrRegexModes"]) + "]")
    L.append("def symRegexes : List Str := [" + ", ".join(lean_str(x) for x in g["symRegexes"]) + "]")
    L.append("")
    L.append("def defaultStyleMapText : Str := " + lean_str(g["defaultStyleMapText"]))
    L.append("")
    fonts = sorted({k[0] for k, _ in g["dingbats"]})
    for i, f in enumerate(fonts):
        L.append("def font%d : Str := %s" % (i, lean_str(f)))
    fidx = {f: i for i, f in enumerate(fonts)}
    L.append("")
    L.append("def dingbats : List ((Str × Nat) × Nat) := [")
    rows = ["((font%d, %d), %d)" % (fidx[k[0]], k[1], v) for k, v in g["dingbats"]]
    for i in range(0, len(rows), 8):
        L.append("  " + ", ".join(rows[i:i + 8]) + ("," if i + 8 < len(rows) else ""))
    L.append("]")
    L.append("")
    L.append("end Mammoth.Generated")
    return "\n".join(L) + "\n"


def main(repo, out, status_path=None):
    status = {}
    g = extract(repo, status)
    text = render(g)
    old = open(out, encoding="utf-8").read() if os.path.exists(out) else None
    if status_path:
        with open(status_path, "w") as f:
            json.dump(status, f, indent=1)
    if old != text:
        with open(out, "w", encoding="utf-8") as f:
            f.write(text)
        return True
    return False


def write_last_good(repo):
    status = {}
    g = extract(repo, status)
    if any(v == "pinned" for v in status.values() if isinstance(v, str)):
        raise ValueError("cannot pin: some tables were not extracted: %r" % status)
    path = os.path.join(os.path.dirname(os.path.abspath(__file__)), "last_good.json")
    with open(path, "w", encoding="utf-8") as f:
        json.dump(g, f, indent=0, ensure_ascii=False, sort_keys=True)
    return status


if __name__ == "__main__":
    repo = sys.argv[1] if len(sys.argv) > 1 else "/repo"
    out = sys.argv[2] if len(sys.argv) > 2 else os.path.join(os.path.dirname(os.path.dirname(os.path.abspath(__file__))), "lean", "MammothModel", "Generated.lean")
    print("changed" if main(repo, out) else "unchanged")
