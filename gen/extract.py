"""Regenerates lean/MammothModel/Generated.lean from /repo's current source.

Everything here is read from the *source text* with `ast` (no import of the library), except the
escape table and the tokeniser rules, which are obtained behaviourally from a fresh subprocess so
that whatever the code does today is what the theorems are about.  Any shape this script does not
understand raises: the tie is then reported as broken, never silently kept."""
import ast
import json
import os
import subprocess
import sys


def lean_str(s):
    out = []
    for ch in s:
        o = ord(ch)
        if ch == "\\":
            out.append("\\\\")
        elif ch == '"':
            out.append('\\"')
        elif ch == "\n":
            out.append("\\n")
        elif ch == "\r":
            out.append("\\r")
        elif ch == "\t":
            out.append("\\t")
        elif o < 0x20 or o == 0x7f:
            out.append("\\x%02x" % o)
        elif 0xD800 <= o <= 0xDFFF:
            raise ValueError("surrogate in extracted literal")
        else:
            out.append(ch)
    return 'S!"' + "".join(out) + '"'


def lean_char(ch):
    o = ord(ch)
    if ch == "'":
        return "'\\''"
    if ch == "\\":
        return "'\\\\'"
    if ch == "\n":
        return "'\\n'"
    if ch == "\t":
        return "'\\t'"
    if ch == "\r":
        return "'\\r'"
    if o < 0x20 or o == 0x7f:
        return "(Char.ofNat %d)" % o
    return "'" + ch + "'"


def parse(repo, rel):
    path = os.path.join(repo, rel)
    return ast.parse(open(path, encoding="utf-8").read(), filename=path)


def find_assign(tree, name):
    for node in ast.walk(tree):
        if isinstance(node, ast.Assign):
            for t in node.targets:
                if isinstance(t, ast.Name) and t.id == name:
                    return node.value
    raise KeyError("assignment to %s not found" % name)


def find_func(tree, name):
    for node in ast.walk(tree):
        if isinstance(node, ast.FunctionDef) and node.name == name:
            return node
    raise KeyError("function %s not found" % name)


def const_seq(node, what):
    """the constants of a list / tuple / set literal, possibly wrapped in set(...), frozenset(...), list(...), tuple(...)"""
    while isinstance(node, ast.Call) and isinstance(node.func, ast.Name) and node.func.id in ("set", "frozenset", "list", "tuple", "sorted") \
            and len(node.args) == 1 and not node.keywords:
        node = node.args[0]
    if isinstance(node, (ast.List, ast.Tuple, ast.Set)) and all(isinstance(e, ast.Constant) for e in node.elts):
        return [e.value for e in node.elts]
    raise ValueError("%s is not a literal collection of constants" % what)


def handler_name(v):
    if isinstance(v, ast.Name):
        return v.id
    if isinstance(v, ast.Call) and isinstance(v.func, ast.Name) and v.func.id == "note_reference_reader" \
            and len(v.args) == 1 and isinstance(v.args[0], ast.Constant):
        return "note_reference:" + v.args[0].value
    raise ValueError("unrecognised handler expression: " + ast.dump(v))


KNOWN_HANDLERS = {
    "text", "run", "paragraph", "read_fld_char", "read_instr_text", "tab", "no_break_hyphen", "soft_hyphen",
    "symbol", "table", "table_row", "table_cell", "read_child_elements", "pict", "hyperlink", "bookmark_start",
    "break_", "inline", "read_imagedata", "note_reference:footnote", "note_reference:endnote",
    "read_comment_reference", "alternate_content", "read_sdt",
}


def extract(repo):
    g = {}
    body = parse(repo, "mammoth/docx/body_xml.py")
    handlers = find_assign(body, "handlers")
    if not isinstance(handlers, ast.Dict):
        raise ValueError("handlers is not a dict literal")
    g["handlers"] = [(k.value, handler_name(v)) for k, v in zip(handlers.keys, handlers.values)]
    for _, h in g["handlers"]:
        if h not in KNOWN_HANDLERS:
            raise ValueError("handler %r is not modelled" % h)
    g["ignored"] = const_seq(find_assign(body, "_ignored_elements"), "_ignored_elements")
    # browser-friendly image types: `if content_type in [...]` inside _read_image
    ri = find_func(body, "_read_image")
    lists = [n for n in ast.walk(ri) if isinstance(n, ast.Compare) and isinstance(n.ops[0], (ast.In, ast.NotIn))
             and isinstance(n.comparators[0], (ast.List, ast.Tuple, ast.Set))]
    if len(lists) == 1:
        g["browserImageTypes"] = const_seq(lists[0].comparators[0], "browser image types")
    else:
        # the list may have been hoisted into a module-level constant: the single name tested with `in` / `not in`
        names = [n.comparators[0].id for n in ast.walk(ri) if isinstance(n, ast.Compare) and isinstance(n.ops[0], (ast.In, ast.NotIn))
                 and isinstance(n.comparators[0], ast.Name)]
        if len(names) != 1:
            raise ValueError("_read_image: expected one `in [...]` test")
        g["browserImageTypes"] = const_seq(find_assign(body, names[0]), names[0])
    # instruction regexes
    pit = find_func(body, "parse_instr_text")
    regs = [n.args[0].value for n in ast.walk(pit)
            if isinstance(n, ast.Call) and isinstance(n.func, ast.Attribute) and n.func.attr == "match"
            and n.args and isinstance(n.args[0], ast.Constant)]
    g["instrRegexes"] = regs
    sym = find_func(body, "symbol")
    g["symRegexes"] = [n.args[0].value for n in ast.walk(sym)
                       if isinstance(n, ast.Call) and isinstance(n.func, ast.Attribute) and n.func.attr == "match"
                       and n.args and isinstance(n.args[0], ast.Constant)]

    ct = parse(repo, "mammoth/docx/content_types_xml.py")
    g["imageExtensions"] = sorted(ast.literal_eval(find_assign(ct, "_image_content_types")).items())

    db = parse(repo, "mammoth/docx/dingbats.py")
    g["dingbats"] = sorted(ast.literal_eval(find_assign(db, "dingbats")).items())

    opts = parse(repo, "mammoth/options.py")
    dsm = find_assign(opts, "_default_style_map_result")
    if not (isinstance(dsm, ast.Call) and dsm.args and isinstance(dsm.args[0], ast.Constant)):
        raise ValueError("_default_style_map_result is not _read_style_map(<literal>)")
    g["defaultStyleMapText"] = dsm.args[0].value

    nodes = parse(repo, "mammoth/html/nodes.py")
    void = find_assign(nodes, "_VOID_TAG_NAMES")
    g["voidTagNames"] = sorted(const_seq(void, "_VOID_TAG_NAMES"))

    ox = parse(repo, "mammoth/docx/office_xml.py")
    g["namespaces"] = [tuple(x) for x in ast.literal_eval(find_assign(ox, "_namespaces"))]

    # behavioural part, in a fresh interpreter
    code = r"""
import json, sys
sys.path.insert(0, %r)
from mammoth.writers.html import _escape_html
from mammoth.styles.parser import tokeniser
esc = []
for cp in list(range(0, 0x300)) + [0x2028, 0x2029, 0xfeff, 0x1f600]:
    if 0xd800 <= cp <= 0xdfff: continue
    c = chr(cp)
    e = _escape_html(c)
    if e != c: esc.append([c, e])
rules = None
def as_rules(v):
    if isinstance(v, (list, tuple)) and v and all(isinstance(x, tuple) and len(x) == 2 and hasattr(x[1], "pattern") for x in v):
        return [[t, r.pattern] for t, r in v]
for cell in (tokeniser.tokenise.__closure__ or ()):
    rules = rules or as_rules(cell.cell_contents)
for v in list(vars(tokeniser).values()):      # or hoisted to module level
    rules = rules or as_rules(v)
print(json.dumps({"esc": esc, "rules": rules}))
""" % repo
    p = subprocess.run([sys.executable, "-c", code], capture_output=True, text=True, timeout=120)
    if p.returncode != 0:
        raise RuntimeError("behavioural extraction failed: " + p.stderr[-400:])
    beh = json.loads(p.stdout)
    if beh["rules"] is None:
        raise ValueError("tokeniser rules not found in closure")
    g["escapeTable"] = [(a, b) for a, b in beh["esc"]]
    g["tokenRules"] = [(a, b) for a, b in beh["rules"]]
    return g


FONT_VARS = {}


def render(g):
    L = []
    L.append("/- GENERATED by gen/extract.py from /repo's current source: do not edit. -/")
    L.append("import MammothModel.Basic")
    L.append("namespace Mammoth.Generated")
    L.append("")
    L.append("def handlers : List (Str × Str) := [")
    L.append(",\n".join("  (%s, %s)" % (lean_str(k), lean_str(v)) for k, v in g["handlers"]) + "]")
    L.append("")
    L.append("def ignored : List Str := [" + ", ".join(lean_str(x) for x in g["ignored"]) + "]")
    L.append("")
    L.append("def browserImageTypes : List Str := [" + ", ".join(lean_str(x) for x in g["browserImageTypes"]) + "]")
    L.append("")
    L.append("def imageExtensions : List (Str × Str) := [" + ", ".join("(%s, %s)" % (lean_str(k), lean_str(v)) for k, v in g["imageExtensions"]) + "]")
    L.append("")
    L.append("def voidTagNames : List Str := [" + ", ".join(lean_str(x) for x in g["voidTagNames"]) + "]")
    L.append("")
    L.append("def escapeTable : List (Char × Str) := [" + ", ".join("(%s, %s)" % (lean_char(k), lean_str(v)) for k, v in g["escapeTable"]) + "]")
    L.append("")
    L.append("def namespaces : List (Str × Str) := [")
    L.append(",\n".join("  (%s, %s)" % (lean_str(k), lean_str(v)) for k, v in g["namespaces"]) + "]")
    L.append("")
    L.append("def tokenRules : List (Str × Str) := [")
    L.append(",\n".join("  (%s, %s)" % (lean_str(k), lean_str(v)) for k, v in g["tokenRules"]) + "]")
    L.append("")
    L.append("def instrRegexes : List Str := [" + ", ".join(lean_str(x) for x in g["instrRegexes"]) + "]")
    L.append("def symRegexes : List Str := [" + ", ".join(lean_str(x) for x in g["symRegexes"]) + "]")
    L.append("")
    L.append("def defaultStyleMapText : Str := " + lean_str(g["defaultStyleMapText"]))
    L.append("")
    fonts = sorted({k[0] for k, _ in g["dingbats"]})
    for i, f in enumerate(fonts):
        L.append("def font%d : Str := %s" % (i, lean_str(f)))
    fidx = {f: i for i, f in enumerate(fonts)}
    L.append("")
    L.append("def dingbats : List ((Str × Nat) × Nat) := [")
    rows = ["((font%d, %d), %d)" % (fidx[k[0]], k[1], v) for k, v in g["dingbats"]]
    for i in range(0, len(rows), 8):
        L.append("  " + ", ".join(rows[i:i + 8]) + ("," if i + 8 < len(rows) else ""))
    L.append("]")
    L.append("")
    L.append("end Mammoth.Generated")
    return "\n".join(L) + "\n"


def main(repo, out):
    g = extract(repo)
    text = render(g)
    old = open(out, encoding="utf-8").read() if os.path.exists(out) else None
    pins = os.path.join(os.path.dirname(os.path.abspath(__file__)), "pins.json")
    if old != text:
        with open(out, "w", encoding="utf-8") as f:
            f.write(text)
        return True
    return False


if __name__ == "__main__":
    repo = sys.argv[1] if len(sys.argv) > 1 else "/repo"
    out = sys.argv[2] if len(sys.argv) > 2 else os.path.join(os.path.dirname(os.path.dirname(os.path.abspath(__file__))), "lean", "MammothModel", "Generated.lean")
    print("changed" if main(repo, out) else "unchanged")
