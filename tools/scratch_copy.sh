#!/bin/bash
# scratch_copy.sh <name>: private copy of /verif (with its build output and git history) and a scratch worktree of /repo's HEAD
# under /tmp/sv/<name>; checks run there with VERIF_REPO=/tmp/sv/<name>/repo and never touch /repo or /verif.
# scratch_copy.sh --remove <name>: remove both again.
set -e
if [ "$1" = "--remove" ]; then
  n=$2; git -C /repo worktree remove --force /tmp/sv/$n/repo 2>/dev/null || true; rm -rf /tmp/sv/$n; git -C /repo worktree prune; exit 0
fi
n=$1; base=/tmp/sv/$n
mkdir -p $base
rsync -a --delete --exclude 'work/*' --exclude 'replays/*' /verif/ $base/verif/
git -C /repo worktree remove --force $base/repo 2>/dev/null || true
git -C /repo worktree prune
git -C /repo worktree add --detach $base/repo HEAD >/dev/null
echo "export VERIF_REPO=$base/repo; cd $base/verif"
