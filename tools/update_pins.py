#!/venv/bin/python
"""Record the fingerprints of /repo's library modules as the tree the model was last validated against (gen/pins.json).
Run only after all checks pass on that tree."""
import json, os, subprocess, sys
sys.path.insert(0, os.path.join(os.path.dirname(os.path.dirname(os.path.abspath(__file__))), "harness"))
import common
head = subprocess.run(["git", "-C", common.REPO, "rev-parse", "HEAD"], capture_output=True, text=True).stdout.strip()
json.dump({"repo_head": head, "fingerprints": common.source_fingerprints()}, open(os.path.join(common.VERIF, "gen", "pins.json"), "w"), indent=1, sort_keys=True)
sys.path.insert(0, os.path.join(common.VERIF, "gen"))
import extract
print("tables pinned:", extract.write_last_good(common.REPO))
print("pinned", head)
