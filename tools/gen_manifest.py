#!/usr/bin/env python3
"""writes MANIFEST.json from the table below (kept as code so that it is always valid)"""
import json, os
HERE = os.path.dirname(os.path.dirname(os.path.abspath(__file__)))
BASE_NOTE = ("Trusted: Lean 4.33 kernel (axioms of every property theorem audited each run: subset of propext, Classical.choice, Quot.sound; no sorry/native_decide), "
             "the hand-written Lean model tied to /repo by gen/extract.py (tables regenerated from source each run) and by the correspondence harness "
             "(real code in-process vs compiled Lean driver on generated inputs), CPython and its libraries (zipfile, expat/minidom, ElementTree, re, base64). ")
CLAIMED = {
    "C04": dict(tech="Lean 4 theorems about the model's collapse (merge rule iff, stability, idempotence, text preservation) + differential correspondence real collapse vs Lean collapse",
                text="Proof: the merge rule, stability of the result, idempotence and text preservation are theorems over all forests (structural induction, no size bound); the tie to the code is the correspondence of mammoth.html.collapse with the Lean function on exhaustive small forests, random forests and forests captured from real conversions. Immutability of the input is runtime behaviour and is observed, not proved.",
                note="collapse's in-place list mutation is modelled functionally; input-not-mutated is observed on the real code only", ref="4 C04"),
    "C14": dict(tech="Lean 4 theorems (stripEmpty = prune by hasContent, no empty element survives, text kept) + differential correspondence on forests and captured conversions",
                text="Proof: strip_empty is characterised for all forests as pruning by the content predicate; tie to the code by correspondence on exhaustive/random/captured forests and by direct observation of ignore_empty_paragraphs=False documents.",
                note="the ignore_empty_paragraphs=False half is decided by observation of real conversions against an independent count, plus the force-write theorem", ref="4 C14"),
}
PENDING = "check not built yet in this revision (work in progress; the property is within reach of the technique)"
def main():
    props = [json.loads(l) for l in open(os.path.join(HERE, "properties.jsonl"))]
    checks, na = [], []
    for p in props:
        i = p["id"]
        if i in CLAIMED:
            c = CLAIMED[i]
            checks.append(dict(property_id=i, quick_cmd="./check %s --tier quick" % i, thorough_cmd="./check %s --tier thorough" % i,
                               evidence_file="evidence/%s.json" % i, replay_cmd_template="./check %s --replay {path}" % i, engine="lean-model+correspondence",
                               level_claimed=dict(category="proof", text=c["text"], design_ref="DESIGN.md section " + c["ref"]),
                               level_note=BASE_NOTE + c["note"], technique=c["tech"]))
        else:
            na.append(dict(property_id=i, reason=PENDING))
    m = dict(version=1,
             setup_cmd="/venv/bin/python gen/extract.py && cd lean && lake build MammothModel Proofs Properties driver",
             hooks=dict(guard="MAMMOTH_VERIF", enable="no source hooks are needed: checks observe the library in-process (module-attribute wrappers, audit hooks) without changing /repo",
                        baseline_off_cmd="cd /repo && /venv/bin/python -m pytest -ra -q -p no:cacheprovider --timeout=900 --continue-on-collection-errors", source_commits=[], add_only=True),
             engines=[dict(name="lean-model+correspondence", path="lean/ + harness/ + gen/", serves_properties=sorted(CLAIMED),
                           kind_free_text="Lean 4 model of python-mammoth with property theorems; extractor regenerating tables from source; Python harness driving real code and the compiled Lean driver over a JSON line protocol")],
             checks=checks, not_applicable=na,
             notes="see DESIGN.md; known_findings.json lists repaired defects (fix: commits in /repo)")
    json.dump(m, open(os.path.join(HERE, "MANIFEST.json"), "w"), indent=1)
main()
