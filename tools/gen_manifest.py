#!/usr/bin/env python3
"""writes MANIFEST.json from the table below (kept as code so that it is always valid)"""
import json, os
HERE = os.path.dirname(os.path.dirname(os.path.abspath(__file__)))
BASE_NOTE = ("Trusted: Lean 4.33 kernel (axioms of every property theorem audited each run: subset of propext, Classical.choice, Quot.sound; no sorry/native_decide), "
             "the hand-written Lean model tied to /repo by gen/extract.py (tables regenerated from source each run) and by the correspondence harness "
             "(real code in-process vs compiled Lean driver on generated inputs), CPython and its libraries (zipfile, expat/minidom, ElementTree, re, base64). ")
CLAIMED = {
    "C01": dict(tech="Lean 4 refinement theorems (converter text = docText spec; strip/collapse/write preserve text) + differential correspondence on generated packages + independent live-text oracle",
                text="Proof: the converter's output text is proved equal to a structural text specification for all documents, style maps and states (C01_text_visit, C01_text_document), text is preserved by strip_empty/collapse (no separator) and by the writer (C02_text_of_written); the reader half and the tie to the code are decided by correspondence of the whole pipeline with the Lean model and with an independent reading of live text on the XML.",
                note="the XML reader's text behaviour (deleted marks, text boxes, fields) is modelled and tied by correspondence; only the converter/HTML half is a theorem", ref="4 C01"),
    "C02": dict(tech="Lean 4 theorems (escape laws, strict lexer round trip lex(write ns) = tokens ns, balance) + correspondence + metamorphic string substitution",
                text="Proof: for all forests with plain names the written HTML lexes back (strict lexer, sound and complete for the writer grammar) to the balanced token list of the forest with all strings decoded to the originals; escape never emits < > \" and every & starts one of four entities. Tie: writer and whole conversions vs the model; substitution invariance observed on the real code.",
                note="that all names reaching the writer are plain is a hypothesis (style-map names are copied verbatim by the code)", ref="4 C02"),
    "C03": dict(tech="Lean 4 decision-logic theorems (first match, source order, matcher iff-lemmas, ignore drops without visiting) + correspondence on split mapping lists",
                text="Proof: findStyle is the first matching mapping of user ++ embedded ++ default; each matcher kind matches exactly the stated conjunction for an arbitrary upper-casing function; `!` returns no nodes with the state unchanged. Tie: conversions with mapping lists split between style_map and the embedded part vs the model.",
                note="str.upper() is a parameter of the theorems; the driver uses ASCII upper-casing and generators avoid names where Python differs", ref="4 C03"),
    "C04": dict(tech="Lean 4 theorems about the model's collapse (merge rule iff, stability, idempotence, text preservation) + differential correspondence real collapse vs Lean collapse",
                text="Proof: the merge rule, stability of the result, idempotence and text preservation are theorems over all forests; tie by correspondence of mammoth.html.collapse with the Lean function on exhaustive small forests, random forests and forests captured from real conversions. Immutability of the input is runtime behaviour and is observed.",
                note="collapse's in-place list mutation is modelled functionally; input-not-mutated is observed on the real code only", ref="4 C04"),
    "C05": dict(tech="Lean 4 theorems (reader can only fail by fuel/unbalanced fields on statically well-formed XML; converter only by unresolved references; fuel monotone/sufficient) + present/absent/dangling correspondence",
                text="Proof: on statically well-formed parts the model of the reader has no failure other than unbalanced fields (excluded by the property) and model fuel; the converter fails only on unresolved note/comment/zip references; writers are total. Tie and the real exception behaviour: generated packages with every optional construct toggled, html/markdown/raw.",
                note="totality of the whole API is composed from per-stage theorems; numStyleLink chains and deleted-paragraph reordering are covered only by the correspondence (theorems labelled _partial)", ref="4 C05"),
    "C06": dict(tech="Lean 4 theorems (print then tokenise then parse = denote for all expressible mappings; escape round trips; matcher/attribute meaning) + correspondence with an independent Python printer + probe documents",
                text="Proof: for every expressible abstract mapping the Lean tokeniser and parser read the printed text back as its denotation (C06_read_print) and the denotation matches/emits exactly what is written. Tie: the real parser on independently printed mappings (hostile identifiers/strings, layout variation) and probe conversions with decoys.",
                note="the hand-written Lean lexer is tied to the regexes by C07_model_agrees and by correspondence; CPython's re is assumed to implement prioritised backtracking", ref="4 C06"),
    "C07": dict(tech="Lean 4 theorems (tokeniser total with progress, readStyleMap specification, regex backtracking cost model: exponential lower bound for the old string rule, linear bound for the current rules) + correspondence + timing in a killable worker",
                text="Proof: tokenise is total on every string, readStyleMap applies or reports every non-blank non-# line independently, and in a step-counting model of backtracking matching today's string/identifier rules are linear while the pre-repair rule is exponential. Wall-clock behaviour of CPython's sre is observed (pumped inputs, hard timeouts), not proved.",
                note="partial on wall-clock time: the cost model abstracts sre; rule sources are re-extracted from tokeniser.py each run", ref="4 C07"),
    "C08": dict(tech="Lean 4 theorems (default style map evaluated in the kernel, default paths, one fresh block per paragraph, numbering resolution, refinement of collapse on list paths to a stack machine) + correspondence + independent stack-machine oracle",
                text="Proof: the default map extracted from options.py parses (kernel evaluation) to the stated paths; blocks are fresh hence never shared; collapse of default list paths refines the ListSpec machine for all sequences (C08_lists_nest). Tie: heading/list sequences in body, cells and notes vs model and vs an independent Python machine.",
                note="the theorems are about the default style map text as extracted from the source on this run", ref="4 C08"),
    "C09": dict(tech="Lean 4 theorems (calculateRowSpans specification on valid grids, HTML table layout of the result = document grid, thead/tbody/th structure) + exhaustive tilings + independent HTML layout oracle",
                text="Proof: for every valid grid the row-span sweep keeps exactly the non-continuation cells with the chain-length rowspan and the standard HTML slot assignment of the result reproduces the document's owner grid (C09_layout_eq). Tie: all tilings up to 3x3 (4x4 thorough) plus random 6x6 through the real converter, laid out by an independent implementation.",
                note="row groups: a merge crossing the header boundary is outside the property's quantifier (and would be cut by thead/tbody in a browser)", ref="4 C09"),
    "C10": dict(tech="Lean 4 theorems (HYPERLINK instruction parsing for all switches, field stack invariant, note numbering and id/href equations) + correspondence + independent link-graph observations",
                text="Proof: instruction parsing never leaks switches into the URL, the field stack behaves as a well-nested machine, the k-th note reference is labelled [k] and reference/item/back-link ids correspond, every generated id carries the prefix. Tie: documents with interleaved links, fields, bookmarks, notes, comments vs model; resolution of generated hrefs observed on real output.",
                note="global href resolution is proved for notes; internal links to absent bookmarks legitimately dangle", ref="4 C10"),
    "C11": dict(tech="Lean 4 theorems (toggle/underline/highlight reading, runPropPaths specification, wrapAll nesting) + exhaustive 2^9 property subsets + independent wrapper-chain oracle",
                text="Proof: the run-property path list is exactly the stated sequence of default/mapped wrappers, off-spellings read as off, a plain run adds nothing. Tie: all on/off subsets and random spellings/neighbours/overrides through the real converter, per-character wrapper chains compared with an independent reading and the model.",
                note="'formatting never extends over another run' follows from C04's merge rule and is observed per character", ref="4 C11"),
    "C12": dict(tech="Lean 4 model of embed/update_zip/add-or-update/UTF-8 with theorems (round trip, other parts kept, exactly one entry after any history, exact file bytes with truncate, fault before first write leaves the file unchanged) + histories and fault injection on the real code",
                text="Proof over abstract archives and ElementTree trees with lawful zip/XML codecs as hypotheses: embed then read returns s for all strings (UTF-8 round trip proved), histories keep one entry, the file equals the new archive exactly. Tie: real embeds on generated packages (memory and r+b files), byte-level checks, an I/O error at every file operation.",
                note="partial on faults inside the final copy (known finding K1) and on zipfile/ElementTree themselves (assumed lawful, exercised)", ref="4 C12"),
    "C13": dict(tech="Lean 4 DOM model with invariance theorems (strict/transitional swap, comments/PIs/xmlns dropped, CDATA as text, text splitting, ignored elements, part lookup) + respelling metamorphic runs + minidom-DOM correspondence",
                text="Proof: conversion of the DOM depends only on namespace URIs, is invariant under the Strict/Transitional swap, comments, PIs, xmlns declarations, CDATA vs text and ignored elements; part lookup picks the first existing target. Tie: every generated package rewritten under random compositions of respellings must give identical results; minidom's DOM is fed to the Lean model and compared with xmlparser.",
                note="expat/zipfile-level respellings (encoding, BOM, entry order, compression) are exercised, not proved", ref="4 C13"),
    "C14": dict(tech="Lean 4 theorems (stripEmpty = prune by hasContent, no empty element survives, text kept) + differential correspondence on forests and captured conversions",
                text="Proof: strip_empty is characterised for all forests as pruning by the content predicate. Tie: exhaustive/random/captured forests and direct observation of ignore_empty_paragraphs=False documents.",
                note="the ignore_empty_paragraphs=False half is decided by observation against an independent count plus the force-write theorem", ref="4 C14"),
    "C15": dict(tech="Lean 4 theorems (attribute dictionaries: strLt total order, insert commutes, ofList permutation invariant, hence write/match/collapse independent of insertion order; fresh state) + histories, threads and PYTHONHASHSEED sweep against the pure model",
                text="The model is a pure function; proved are the places where Python nondeterminism could enter (dict order). The content of the check is refinement under histories: every call of long random histories, concurrent threads and fresh interpreters under different hash seeds must return the model's answer for that call alone; inputs, retained results and the default style map are re-checked.",
                note="partial: thread schedules and hash seeds are sampled, not enumerated", ref="4 C15"),
    "C16": dict(tech="Lean 4 theorems (unique laws, message composition of the API, monotone message state, each warning site iff its anomaly, clean documents silent) + exact message-list correspondence + clean-document generator",
                text="Proof: messages = unique(options ++ reader ++ converter), nested de-duplications compose, each warning is emitted iff its anomaly, a document of supported constructs with no styles is silent through convertDoc. Tie: exact ordered message lists of generated documents with injected anomalies vs the model; clean documents must report nothing.",
                note="unmapped table styles and content under `!` are silently dropped by design (documented in DESIGN.md)", ref="4 C16"),
    "C17": dict(tech="Lean 4 theorems (base64 decode(encode bs) = bs for all byte lists, content-type decision list, data URI shape, converter call log in document order, alt precedence) + byte-exact observations on real conversions",
                text="Proof: base64 round trip, length and alphabet; content type = override, else exact-extension default, else built-in table; one img per image with the logged call order. Tie: images of all sizes/byte values/declarations through the real converter: strict base64 decoding back to the part bytes, declared types, converter calls.",
                note="Python's base64 module is compared with the Lean implementation through the data URIs", ref="4 C17"),
    "C18": dict(tech="Lean 4 theorems (every IoOp of the trace comes from a linked image opened by the converter, resolved against the base; no-name and open-failure give warnings; reader has no I/O channel) + Python audit hooks with DOCTYPE/entity canaries",
                text="Proof: in the model the only external reads are linked images at the moment the converter opens them. Tie and runtime half: audit events (open, urllib.Request, socket.*) during real conversions of documents with linked images and XML parts declaring external subsets/entities pointing at canaries, compared with the model's ioTrace.",
                note="partial: that expat fetches nothing is observed, not proved", ref="4 C18"),
    "C19": dict(tech="Lean 4 theorems (post-order call log, identity law, non-targets unchanged, descendants = post-order strict descendants) + correspondence of a transform family implemented on both sides",
                text="Proof: transformM calls f exactly on the post-order targets with already transformed children; identity leaves the document and hence the conversion unchanged; descendants lists every strict descendant once. Tie: documents read by the real reader, transform family x entry points, call logs and results vs the model.",
                note="", ref="4 C19"),
    "C20": dict(tech="Lean 4 model of cli.main with theorems (bytes written = UTF-8 of value to the chosen sink, stderr lines, image numbering/naming invariant, splitext naming) + subprocess runs of python -m mammoth.cli",
                text="Proof: cliRun writes exactly utf8(value) to the path/stdout/<stem>.html, messages one per line, the k-th image to k.<subtype> with its bytes. Tie: the real command as a subprocess on generated documents and flag combinations vs the in-process library result and the model.",
                note="partial: process, locale and argparse are exercised, not modelled; images without a determinable content type crash ImageWriter (documented, outside the quantifier)", ref="4 C20"),
}
PENDING = "check not built yet in this revision (work in progress; the property is within reach of the technique)"
def main():
    props = [json.loads(l) for l in open(os.path.join(HERE, "properties.jsonl"))]
    checks, na = [], []
    for p in props:
        i = p["id"]
        if i in CLAIMED:
            c = CLAIMED[i]
            checks.append(dict(property_id=i, quick_cmd="./check %s --tier quick" % i, thorough_cmd="./check %s --tier thorough" % i,
                               evidence_file="evidence/%s.json" % i, replay_cmd_template="./check %s --replay {path}" % i, engine="lean-model+correspondence",
                               level_claimed=dict(category="proof", text=c["text"], design_ref="DESIGN.md section " + c["ref"]),
                               level_note=BASE_NOTE + c["note"], technique=c["tech"]))
        else:
            na.append(dict(property_id=i, reason=PENDING))
    m = dict(version=1,
             setup_cmd="/venv/bin/python gen/extract.py && cd lean && lake build MammothModel Proofs Properties driver",
             hooks=dict(guard="MAMMOTH_VERIF", enable="no source hooks are needed: checks observe the library in-process (module-attribute wrappers, audit hooks) without changing /repo",
                        baseline_off_cmd="cd /repo && /venv/bin/python -m pytest -ra -q -p no:cacheprovider --timeout=900 --continue-on-collection-errors", source_commits=[], add_only=True),
             engines=[dict(name="lean-model+correspondence", path="lean/ + harness/ + gen/", serves_properties=sorted(CLAIMED),
                           kind_free_text="Lean 4 model of python-mammoth with property theorems; extractor regenerating tables from source; Python harness driving real code and the compiled Lean driver over a JSON line protocol")],
             checks=checks, not_applicable=na,
             notes="see DESIGN.md; known_findings.json lists repaired defects (fix: commits in /repo)")
    json.dump(m, open(os.path.join(HERE, "MANIFEST.json"), "w"), indent=1)
main()
