#!/bin/bash
# integrate.sh <workdir name> <ID> [<ID>...] : copy proof deliverables from /tmp/lw/<workdir> into /verif/lean
set -e
W=/tmp/lw/$1; shift
cd /verif/lean
for a in "$@"; do
  cp $W/Proofs/${a}_*.lean Proofs/ 2>/dev/null || true
  cp $W/Properties/$a.lean Properties/
done
for f in $W/MammothModel/*.lean; do b=$(basename $f); [ -f MammothModel/$b ] || { cp $f MammothModel/; echo "new model file $b"; }; done
python3 - <<'PY'
import os
os.chdir('/verif/lean')
pf=sorted(f[:-5] for f in os.listdir('Proofs') if f.endswith('.lean'))
open('Proofs.lean','w').write("".join("import Proofs.%s\n"%f for f in pf))
pp=sorted(f[:-5] for f in os.listdir('Properties') if f.endswith('.lean'))
open('Properties.lean','w').write("".join("import Properties.%s\n"%f for f in pp))
PY
lake build Proofs Properties 2>&1 | grep -v "^✔\|^ℹ\|^⚠ \[\|unusedSimpArgs\|^$\|Hint\|apply\]\|^warning\|^  h$\|Bool.and_assoc\|^  [A-Za-z_.]*$" | head -30
for a in "$@"; do echo "$a: $(grep -c '^theorem' Properties/$a.lean) theorems"; done
