#!/usr/bin/env python3
"""Confirm every incoming seeded fault in a scratch worktree of /repo (outside /repo and /verif):
patch applies, 462 tests pass with it, demo fails with it and passes without it.  Writes
seeded/<id>/ {patch.diff, demo.py, notes.md, meta.json}."""
import json, os, shutil, subprocess, sys, re
INC = sys.argv[1] if len(sys.argv) > 1 else "/verif/seeded/_incoming"
ONLY = sys.argv[2:]
def sh(*a, **k): return subprocess.run(a, capture_output=True, text=True, **k)
props = {json.loads(l)["id"]: json.loads(l) for l in open("/verif/properties.jsonl")}
wt = "/tmp/sw_verify"
sh("git", "-C", "/repo", "worktree", "remove", "--force", wt)
r = sh("git", "-C", "/repo", "worktree", "add", "--detach", wt, "HEAD"); assert r.returncode == 0, r.stderr
results = {}
try:
    for pid in sorted(os.listdir(INC)):
        if not os.path.isdir(os.path.join(INC, pid)) or pid not in props: continue
        for mk in sorted(os.listdir(os.path.join(INC, pid))):
            src = os.path.join(INC, pid, mk)
            if not os.path.exists(os.path.join(src, "patch.diff")) or not os.path.exists(os.path.join(src, "demo.py")): continue
            sid = "%s-%s" % (pid, mk)
            if ONLY and not any(sid.startswith(o) for o in ONLY): continue
            if os.path.exists(os.path.join("/verif/seeded", sid, "meta.json")): continue   # already confirmed
            sh("git", "-C", wt, "checkout", "--", ".")
            ap = sh("git", "-C", wt, "apply", os.path.join(src, "patch.diff"))
            ok_apply = ap.returncode == 0
            t = sh("/venv/bin/python", "-m", "pytest", "-q", "-p", "no:cacheprovider", "--deselect", "tests/cli_tests.py", "tests", cwd=wt, timeout=900) if ok_apply else None
            tests_ok = bool(t and re.search(r"\b462 passed", t.stdout))
            d1 = sh("/venv/bin/python", os.path.join(src, "demo.py"), cwd=wt, timeout=600) if ok_apply else None
            sh("git", "-C", wt, "checkout", "--", ".")
            d0 = sh("/venv/bin/python", os.path.join(src, "demo.py"), cwd=wt, timeout=600)
            ok = ok_apply and tests_ok and d1.returncode != 0 and d0.returncode == 0
            results[sid] = dict(applies=ok_apply, tests_462=tests_ok, demo_with=d1.returncode if d1 else None, demo_without=d0.returncode, confirmed=ok)
            print(sid, results[sid], flush=True)
            if ok:
                dst = os.path.join("/verif/seeded", sid)
                os.makedirs(dst, exist_ok=True)
                for fn in ("patch.diff", "demo.py", "notes.md"):
                    if os.path.exists(os.path.join(src, fn)): shutil.copy(os.path.join(src, fn), os.path.join(dst, fn))
                notes = open(os.path.join(src, "notes.md")).read() if os.path.exists(os.path.join(src, "notes.md")) else ""
                meta = dict(id=sid, property=pid, title=props[pid]["title"], origin="fresh sub-agent given only the property record and a scratch worktree",
                            needs_to_manifest=notes.strip()[:1500],
                            confirmed_by=["git apply patch.diff in a scratch worktree of /repo HEAD (outside /repo and /verif)",
                                          "pytest -q -p no:cacheprovider --deselect tests/cli_tests.py tests -> 462 passed with the patch",
                                          "demo.py exits %d with the patch and 0 without it" % d1.returncode])
                json.dump(meta, open(os.path.join(dst, "meta.json"), "w"), indent=1)
finally:
    sh("git", "-C", "/repo", "worktree", "remove", "--force", wt)
json.dump(results, open("/verif/work/verify_seeded.json", "w"), indent=1)
print("confirmed", sum(1 for v in results.values() if v["confirmed"]), "of", len(results))
