#!/bin/bash
# covmap.sh: line+branch coverage of /repo/mammoth reached by the correspondence side of every check (quick tier, in-process
# calls only: checks that run the library in child processes - C07 style-map reads, C15 hash-seed sweep, C20 CLI - add more
# than is counted here).  A measurement used to find generator gaps, not a check.  Output: work/cov/report.txt
mkdir -p /verif/work/cov; cd /verif
for id in $(seq -w 1 20); do echo "C$id"; done | xargs -P ${COV_JOBS:-8} -I{} bash -c \
  "VERIF_CHECK_CHILD=1 /venv/bin/python -m coverage run --branch --source=${VERIF_REPO:-/repo}/mammoth --data-file=work/cov/{}.cov ./check {} --tier quick --no-prove > work/cov/{}.out 2>&1; echo {} \$?" | tr '\n' ' '
echo
cd work/cov && /venv/bin/python -m coverage combine --keep --data-file=all.cov C*.cov >/dev/null \
 && /venv/bin/python -m coverage report --data-file=all.cov -m --skip-covered --omit='*/dingbats.py' > report.txt; tail -n 40 report.txt
