#!/bin/bash
# integrate3.sh <workdir name> [base-commit] : merge proof deliverables from /tmp/lw/<workdir>/lean into /verif/lean:
#  - new Proofs/*.lean files are copied (existing ones are overwritten only if the worker changed them);
#  - Properties/*.lean changed by the worker are 3-way merged (git merge-file) against the base commit the workspace was copied from;
#  - MammothModel, Driver, Main.lean must be untouched (checked);  Proofs.lean / Properties.lean are regenerated.
set -e
W=/tmp/lw/$1/lean; BASE=${2:-72967fb}
cd /verif/lean
for f in $W/MammothModel/*.lean $W/Driver/*.lean $W/Main.lean; do
  rel=${f#$W/}
  [ "$rel" = "MammothModel/Generated.lean" ] && continue
  if ! git show $BASE:lean/$rel | cmp -s - $f; then echo "!! worker changed $rel (model files must not change)"; fi
done
for f in $W/Proofs/*.lean; do
  b=$(basename $f)
  if git cat-file -e $BASE:lean/Proofs/$b 2>/dev/null; then
    if ! git show $BASE:lean/Proofs/$b | cmp -s - $f; then
      git show $BASE:lean/Proofs/$b > /tmp/_base.lean
      git merge-file -p Proofs/$b /tmp/_base.lean $f > /tmp/_merged.lean || echo "!! conflict in Proofs/$b"
      cp /tmp/_merged.lean Proofs/$b; echo "merged Proofs/$b"
    fi
  else
    cp $f Proofs/$b; echo "new Proofs/$b"
  fi
done
for f in $W/Properties/*.lean; do
  b=$(basename $f)
  if git cat-file -e $BASE:lean/Properties/$b 2>/dev/null; then
    if ! git show $BASE:lean/Properties/$b | cmp -s - $f; then
      git show $BASE:lean/Properties/$b > /tmp/_base.lean
      git merge-file -p Properties/$b /tmp/_base.lean $f > /tmp/_merged.lean || echo "!! conflict in Properties/$b"
      cp /tmp/_merged.lean Properties/$b; echo "merged Properties/$b"
    fi
  else
    cp $f Properties/$b; echo "new Properties/$b"
  fi
done
python3 - <<'PY'
import os
os.chdir('/verif/lean')
pf=sorted(f[:-5] for f in os.listdir('Proofs') if f.endswith('.lean'))
open('Proofs.lean','w').write("".join("import Proofs.%s\n"%f for f in pf))
pp=sorted(f[:-5] for f in os.listdir('Properties') if f.endswith('.lean'))
open('Properties.lean','w').write("".join("import Properties.%s\n"%f for f in pp))
PY
