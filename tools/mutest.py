#!/usr/bin/env python3
"""apply a seeded patch to /repo, run the given checks, undo.  usage: mutest.py <patch.diff> C04 [C14 ...]  (env NOPROVE=1 TIER=quick)"""
import subprocess, sys, os, time
patch = os.path.abspath(sys.argv[1]); props = sys.argv[2:]
tier = os.environ.get("TIER", "quick")
extra = ["--no-prove"] if os.environ.get("NOPROVE") else []
def sh(*a, **k): return subprocess.run(a, capture_output=True, text=True, **k)
st = sh("git", "-C", "/repo", "status", "--porcelain").stdout.strip()
assert not st, "repo not clean: " + st
r = sh("git", "-C", "/repo", "apply", patch)
assert r.returncode == 0, r.stderr
try:
    for p in props:
        t = time.time()
        r = sh("/verif/check", p, "--tier", tier, *extra, cwd="/verif")
        lines = [l for l in r.stdout.splitlines() if l.startswith(("VIOLATION", "OK", "KNOWN"))]
        print("%s rc=%d %.0fs %s" % (p, r.returncode, time.time() - t, " | ".join(lines)[:300]), flush=True)
        if r.returncode == 2: print(r.stderr[-800:])
finally:
    sh("git", "-C", "/repo", "checkout", "--", ".")
    if not extra:
        sh("/venv/bin/python", "/verif/gen/extract.py")
