#!/usr/bin/env python3
"""Parallel version of matrix.py: run every seeded fault (or harmless rewrite under seeded/_harmless) against the
check of its property, each worker in its own scratch copy of /verif and its own scratch worktree of /repo
(VERIF_REPO), so /repo itself is never touched.  Results go to seeded/<id>/meta.json ("detection").

usage: tools/pmatrix.py [-j N] [--tier quick] [--all-checks] [prefix ...]
  --all-checks: run every property's check against each patch (for harmless rewrites: expect exit 0 everywhere)
"""
import glob
import json
import os
import shutil
import subprocess
import sys
import threading
import time
import queue

SCR = os.environ.get("PMATRIX_SCRATCH", "/tmp/pmx")
PROPS = ["C%02d" % i for i in range(1, 21)]


def sh(*a, **k):
    return subprocess.run(a, capture_output=True, text=True, **k)


def main():
    args = sys.argv[1:]
    j = 6
    tier = "quick"
    allchecks = False
    only = []
    while args:
        a = args.pop(0)
        if a == "-j":
            j = int(args.pop(0))
        elif a == "--tier":
            tier = args.pop(0)
        elif a == "--all-checks":
            allchecks = True
        else:
            only.append(a)
    dirs = sorted(glob.glob("/verif/seeded/C*")) + sorted(glob.glob("/verif/seeded/_harmless/*"))
    jobs = []
    for d in dirs:
        sid = os.path.basename(d)
        if only and not any(sid.startswith(o) for o in only):
            continue
        if not os.path.exists(d + "/meta.json"):
            continue
        meta = json.load(open(d + "/meta.json"))
        props = PROPS if allchecks else (meta.get("checks") or [meta["property"]])
        for p in props:
            jobs.append((d, sid, p))
    q = queue.Queue()
    for jb in jobs:
        q.put(jb)
    results = {}
    lock = threading.Lock()

    def worker(k):
        base = os.path.join(SCR, "w%d" % k)
        vcopy = os.path.join(base, "verif")
        wt = os.path.join(base, "repo")
        os.makedirs(base, exist_ok=True)
        sh("git", "-C", "/repo", "worktree", "remove", "--force", wt)
        shutil.rmtree(wt, ignore_errors=True)
        sh("git", "-C", "/repo", "worktree", "prune")
        r = sh("git", "-C", "/repo", "worktree", "add", "--detach", wt, "HEAD")
        assert r.returncode == 0, r.stderr
        sh("rsync", "-a", "--delete", "--exclude", ".git", "--exclude", "work/*", "--exclude", "replays/*", "/verif/", vcopy + "/")
        env = dict(os.environ, VERIF_REPO=wt)
        try:
            while True:
                try:
                    d, sid, prop = q.get_nowait()
                except queue.Empty:
                    break
                r = sh("git", "-C", wt, "apply", d + "/patch.diff")
                if r.returncode != 0:
                    with lock:
                        results[(sid, prop)] = dict(check=prop, exit=None, line="PATCH DOES NOT APPLY: " + r.stderr[:200])
                        print(sid, prop, "patch does not apply", flush=True)
                    continue
                t = time.time()
                try:
                    r = sh(vcopy + "/check", prop, "--tier", tier, cwd=vcopy, timeout=3000, env=env)
                    rc, outp, errp = r.returncode, r.stdout, r.stderr
                except subprocess.TimeoutExpired:
                    rc, outp, errp = 2, "TIMEOUT", ""
                line = next((l for l in outp.splitlines() if l.startswith("VIOLATION")), "")
                known = [l for l in outp.splitlines() if l.startswith("KNOWN-FINDING")]
                ev = {}
                try:
                    ev = json.load(open(vcopy + "/evidence/%s.json" % prop))
                except Exception:
                    pass
                res = dict(check=prop, exit=rc, seconds=round(time.time() - t), line=line,
                           proof_problems=ev.get("coverage", {}).get("proof_problems", [])[:3])
                if rc == 2:
                    res["stderr_tail"] = errp[-600:]
                with lock:
                    results[(sid, prop)] = res
                    print(sid, res, flush=True)
                sh("git", "-C", wt, "checkout", "--", ".")
                sh("git", "-C", wt, "clean", "-fdq")
        finally:
            sh("git", "-C", "/repo", "worktree", "remove", "--force", wt)
            shutil.rmtree(base, ignore_errors=True)
            sh("git", "-C", "/repo", "worktree", "prune")

    ths = [threading.Thread(target=worker, args=(k,)) for k in range(min(j, len(jobs)))]
    for t in ths:
        t.start()
    for t in ths:
        t.join()
    # write back
    by_sid = {}
    for (sid, prop), res in results.items():
        by_sid.setdefault(sid, {})[prop] = res
    for d in dirs:
        sid = os.path.basename(d)
        if sid not in by_sid:
            continue
        meta = json.load(open(d + "/meta.json"))
        if allchecks or len(by_sid[sid]) > 1:
            meta["detection_all"] = by_sid[sid]
        if meta["property"] in by_sid[sid]:
            meta["detection"] = by_sid[sid][meta["property"]]
        json.dump(meta, open(d + "/meta.json", "w"), indent=1)
    os.makedirs("/verif/work", exist_ok=True)
    json.dump({"%s/%s" % k: v for k, v in results.items()}, open("/verif/work/pmatrix.json", "w"), indent=1)
    n1 = sum(1 for v in results.values() if v["exit"] == 1)
    print("exit1:", n1, "exit0:", sum(1 for v in results.values() if v["exit"] == 0),
          "exit2:", sum(1 for v in results.values() if v["exit"] == 2), "of", len(results))


if __name__ == "__main__":
    main()
