#!/usr/bin/env python3
"""run every seeded fault against the check of its property (full check incl. extraction/proofs); record in meta.json"""
import json, os, subprocess, sys, time, glob
def sh(*a, **k): return subprocess.run(a, capture_output=True, text=True, **k)
only = sys.argv[1:]
res = {}
for d in sorted(glob.glob("/verif/seeded/C*")):
    sid = os.path.basename(d)
    if only and not any(sid.startswith(o) for o in only): continue
    meta = json.load(open(d + "/meta.json"))
    prop = meta["property"]
    assert not sh("git", "-C", "/repo", "status", "--porcelain").stdout.strip()
    r = sh("git", "-C", "/repo", "apply", d + "/patch.diff"); assert r.returncode == 0, (sid, r.stderr)
    try:
        t = time.time()
        try:
            r = sh("/verif/check", prop, "--tier", "quick", cwd="/verif", timeout=2400)
            rc, outp = r.returncode, r.stdout
        except subprocess.TimeoutExpired:
            rc, outp = 2, "TIMEOUT"
        line = next((l for l in outp.splitlines() if l.startswith("VIOLATION")), "")
        ev = {}
        try: ev = json.load(open("/verif/evidence/%s.json" % prop))
        except Exception: pass
        res[sid] = dict(check=prop, exit=rc, seconds=round(time.time() - t), line=line, proof_problems=ev.get("coverage", {}).get("proof_problems", [])[:3])
        print(sid, res[sid], flush=True)
        meta["detection"] = res[sid]
        json.dump(meta, open(d + "/meta.json", "w"), indent=1)
    finally:
        sh("git", "-C", "/repo", "checkout", "--", ".")
sh("/venv/bin/python", "/verif/gen/extract.py")
sh("lake", "build", "MammothModel", "driver", cwd="/verif/lean")
json.dump(res, open("/verif/work/matrix.json", "w"), indent=1)
print("detected", sum(1 for v in res.values() if v["exit"] == 1), "of", len(res))
