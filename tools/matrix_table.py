#!/usr/bin/env python3
"""Regenerate the seeded-fault table (DESIGN.md section 15.8) from seeded/*/meta.json: replaces the text between the
markers <!-- MATRIX:BEGIN --> and <!-- MATRIX:END -->."""
import glob, json, os, re
rows = []
for d in sorted(glob.glob("/verif/seeded/C*")):
    m = json.load(open(d + "/meta.json"))
    det = m.get("detection") or {}
    title = ""
    n = d + "/notes.md"
    if os.path.exists(n):
        title = re.sub(r"^#\s*(C\d\d\s*/\s*)?m\d+\s*-\s*", "", open(n).readline().strip())
    else:
        title = (m.get("needs_to_manifest") or "")[:140].split("\n")[0]
    how = "-"
    if det.get("exit") == 1:
        how = "failing input" if "no-failing-input-found" not in (det.get("line") or "") else "proof/tie broken, no failing input"
        if det.get("proof_problems"):
            how += " (+ proof obligation broken)"
    elif det.get("exit") == 0:
        how = "MISSED"
    elif det.get("exit") == 2:
        how = "infrastructure (exit 2)"
    first = m.get("first_run")
    rows.append((m["id"], title.replace("|", "\\|")[:150], how, det.get("seconds", ""), first or ""))
out = ["| fault | what it changes | reported by the check of its property | s | first run (before strengthening) |", "|---|---|---|---|---|"]
for r in rows:
    out.append("| %s | %s | %s | %s | %s |" % r)
harm = []
for d in sorted(glob.glob("/verif/seeded/_harmless/*")):
    m = json.load(open(d + "/meta.json"))
    da = m.get("detection_all") or {}
    bad = sorted(k for k, v in da.items() if v.get("exit") != 0)
    harm.append("| %s | %s | %d checks run, %s |" % (m["id"], m.get("title", "").lstrip("# ")[:140].replace("|", "\\|"), len(da), "all exit 0" if not bad else "ALARM in " + ", ".join(bad)))
text = "\n".join(out) + "\n\nBehaviour-preserving rewrites (every check is run against each; an alarm here is a false alarm):\n\n| rewrite | title | result |\n|---|---|---|\n" + "\n".join(harm) + "\n"
p = "/verif/DESIGN.md"
s = open(p).read()
if "<!-- MATRIX:BEGIN -->" in s:
    s = re.sub(r"<!-- MATRIX:BEGIN -->.*<!-- MATRIX:END -->", lambda m_: "<!-- MATRIX:BEGIN -->\n" + text + "<!-- MATRIX:END -->", s, flags=re.S)
    open(p, "w").write(s)
    print("table updated:", len(rows), "faults,", len(harm), "rewrites")
else:
    print(text)
