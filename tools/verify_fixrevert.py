#!/usr/bin/env python3
import json, os, shutil, subprocess, re
INC = "/verif/seeded/_incoming_fix"
def sh(*a, **k): return subprocess.run(a, capture_output=True, text=True, **k)
props = {json.loads(l)["id"]: json.loads(l) for l in open("/verif/properties.jsonl")}
wt = "/tmp/sw_verify2"
sh("git", "-C", "/repo", "worktree", "remove", "--force", wt)
r = sh("git", "-C", "/repo", "worktree", "add", "--detach", wt, "HEAD"); assert r.returncode == 0, r.stderr
try:
    for fid in sorted(os.listdir(INC)):
        src = os.path.join(INC, fid)
        pid = open(src + "/prop").read().strip()
        sh("git", "-C", wt, "checkout", "--", ".")
        ap = sh("git", "-C", wt, "apply", src + "/patch.diff")
        t = sh("/venv/bin/python", "-m", "pytest", "-q", "-p", "no:cacheprovider", "--deselect", "tests/cli_tests.py", "tests", cwd=wt, timeout=900)
        tests_ok = bool(re.search(r"\b462 passed", t.stdout))
        d1 = sh("/venv/bin/python", src + "/demo.py", cwd=wt, timeout=120)
        sh("git", "-C", wt, "checkout", "--", ".")
        d0 = sh("/venv/bin/python", src + "/demo.py", cwd=wt, timeout=120)
        ok = ap.returncode == 0 and tests_ok and d1.returncode != 0 and d0.returncode == 0
        print(fid, ap.returncode, tests_ok, d1.returncode, d0.returncode, "CONFIRMED" if ok else "NOT", (d0.stdout + d0.stderr)[-200:] if not ok else "", flush=True)
        if ok:
            sid = "%s-revert-%s" % (pid, fid)
            dst = "/verif/seeded/" + sid
            os.makedirs(dst, exist_ok=True)
            for fn in ("patch.diff", "demo.py", "mk.py", "notes.md"):
                shutil.copy(src + "/" + fn, dst + "/" + fn)
            json.dump(dict(id=sid, property=pid, title=props[pid]["title"], origin="reverse of a fix: commit in /repo (the genuine defect found on the original tree)",
                           needs_to_manifest=open(src + "/notes.md").read(),
                           confirmed_by=["git apply patch.diff in a scratch worktree of /repo HEAD", "462 tests pass with the patch", "demo.py exits %d with the patch and 0 without" % d1.returncode]),
                      open(dst + "/meta.json", "w"), indent=1)
finally:
    sh("git", "-C", "/repo", "worktree", "remove", "--force", wt)
