#!/usr/bin/env python3
"""Mechanical mutation sweep of the library (a measurement of the checks, not a check itself).

phase 1  (automut.py gen):   every module of mammoth/ (not the dingbat table) is mutated one AST node at a time
         (comparison / boolean / arithmetic operators, constants, conditions forced, statements dropped, returns
         emptied, call arguments swapped); each mutant is written to a scratch worktree of /repo and the library's own
         test suite is run; mutants that keep all 462 tests green are the SURVIVORS (work/automut/survivors.json,
         each with its unified diff).
phase 2  (automut.py run [-j N]):  every survivor is run against the quick check of each property whose anchors name the
         mutated file (scratch copy of /verif + scratch worktree, VERIF_REPO; /repo and /verif are never touched);
         result per (mutant, property): exit 1 reported / 0 missed / 2 infrastructure -> work/automut/results.json
phase 3  (automut.py report): table by file and operator; the missed ones are either equivalent mutants (no observable
         change: they must be triaged by hand) or gaps of the generators.
"""
import ast
import copy
import difflib
import glob
import hashlib
import json
import os
import queue
import shutil
import subprocess
import sys
import threading
import time

REPO = "/repo"
OUT = "/verif/work/automut"
SCR = os.environ.get("AUTOMUT_SCRATCH", "/tmp/automut")
SKIP = ("dingbats.py",)


def sh(*a, **k):
    return subprocess.run(a, capture_output=True, text=True, **k)


# ---------------------------------------------------------------------------------------------------------------
# mutation operators: each yields (description, mutated module AST)
# ---------------------------------------------------------------------------------------------------------------

CMP = {ast.Eq: ast.NotEq, ast.NotEq: ast.Eq, ast.Lt: ast.LtE, ast.LtE: ast.Lt, ast.Gt: ast.GtE, ast.GtE: ast.Gt,
       ast.Is: ast.IsNot, ast.IsNot: ast.Is, ast.In: ast.NotIn, ast.NotIn: ast.In}
BIN = {ast.Add: ast.Sub, ast.Sub: ast.Add, ast.Mult: ast.FloorDiv}


def mutants_of(tree):
    nodes = [n for n in ast.walk(tree)]
    for idx, n in enumerate(nodes):
        line = getattr(n, "lineno", 0)

        def emit(desc, edit):
            t2 = copy.deepcopy(tree)
            n2 = [m for m in ast.walk(t2)][idx]
            if edit(n2) is False:
                return None
            ast.fix_missing_locations(t2)
            return ("L%d %s" % (line, desc), t2)

        if isinstance(n, ast.Compare):
            for k, op in enumerate(n.ops):
                if type(op) in CMP:
                    def ed(m, k=k, op=op):
                        m.ops[k] = CMP[type(op)]()
                    yield emit("cmp %s->%s" % (type(op).__name__, CMP[type(op)].__name__), ed)
        if isinstance(n, ast.BoolOp):
            def ed(m):
                m.op = ast.Or() if isinstance(m.op, ast.And) else ast.And()
            yield emit("boolop flip", ed)
            if len(n.values) >= 2:
                for k in range(len(n.values)):
                    def ed(m, k=k):
                        del m.values[k]
                        if len(m.values) == 1:
                            m.values.append(copy.deepcopy(m.values[0]))
                    yield emit("boolop drop operand %d" % k, ed)
        if isinstance(n, ast.BinOp) and type(n.op) in BIN:
            def ed(m):
                m.op = BIN[type(m.op)]()
            yield emit("binop %s" % type(n.op).__name__, ed)
        if isinstance(n, ast.Constant):
            v = n.value
            if isinstance(v, bool):
                def ed(m):
                    m.value = not m.value
                yield emit("const %r flipped" % v, ed)
            elif isinstance(v, int):
                for d in (1, -1):
                    def ed(m, d=d):
                        m.value = m.value + d
                    yield emit("const %r%+d" % (v, d), ed)
            elif isinstance(v, str) and 0 < len(v) <= 40 and not getattr(n, "_doc", False):
                def ed(m):
                    m.value = m.value + "x"
                yield emit("str %r+x" % v, ed)
                def ed(m):
                    m.value = ""
                yield emit("str %r emptied" % v, ed)
            elif v is None:
                pass
        if isinstance(n, (ast.If, ast.While, ast.IfExp)):
            for val in (True, False):
                def ed(m, val=val):
                    m.test = ast.Constant(value=val)
                yield emit("cond forced %s" % val, ed)
            def ed(m):
                m.test = ast.UnaryOp(op=ast.Not(), operand=m.test)
            yield emit("cond negated", ed)
        if isinstance(n, ast.Return) and n.value is not None and not (isinstance(n.value, ast.Constant) and n.value.value is None):
            def ed(m):
                m.value = ast.Constant(value=None)
            yield emit("return None", ed)
        if isinstance(n, ast.Call) and len(n.args) == 2 and not n.keywords:
            def ed(m):
                m.args = [m.args[1], m.args[0]]
            yield emit("call args swapped", ed)
        if isinstance(n, ast.Call) and n.keywords:
            for k, kw in enumerate(n.keywords):
                if kw.arg is not None:
                    def ed(m, k=k):
                        del m.keywords[k]
                    yield emit("call keyword %s dropped" % kw.arg, ed)
        if isinstance(n, ast.Subscript) and isinstance(n.slice, ast.Slice):
            def ed(m):
                m.slice = ast.Slice(lower=None, upper=None, step=None)
            yield emit("slice -> [:]", ed)
        # statement-level: drop a statement from a body (replace by pass)
        for field in ("body", "orelse", "finalbody"):
            body = getattr(n, field, None)
            if isinstance(body, list) and body and all(isinstance(s, ast.stmt) for s in body):
                for k, s in enumerate(body):
                    if isinstance(s, (ast.Expr, ast.Assign, ast.AugAssign, ast.Delete, ast.For, ast.If, ast.With, ast.Try, ast.Raise)):
                        if isinstance(s, ast.Expr) and isinstance(s.value, ast.Constant) and isinstance(s.value.value, str):
                            continue  # docstring
                        if isinstance(s, ast.Assign) and not isinstance(n, (ast.FunctionDef, ast.For, ast.If, ast.With, ast.While, ast.Try)):
                            continue  # module / class level assignments: import-time breakage, uninteresting
                        def ed(m, field=field, k=k):
                            getattr(m, field)[k] = ast.Pass()
                        yield emit("stmt dropped (%s) L%d" % (type(s).__name__, s.lineno), ed)
        # `not x` -> `x`, `x.lower()`/`.upper()`/`.strip()` -> x : replace a child expression by its operand
        for field, value in ast.iter_fields(n):
            children = value if isinstance(value, list) else [value]
            for k, c in enumerate(children):
                rep = None
                if isinstance(c, ast.UnaryOp) and isinstance(c.op, ast.Not):
                    rep, what = "operand", "not removed"
                elif isinstance(c, ast.Call) and isinstance(c.func, ast.Attribute) and c.func.attr in ("lower", "upper", "strip", "lstrip", "rstrip") and not c.args:
                    rep, what = "func.value", ".%s() removed" % c.func.attr
                if rep:
                    def ed(m, field=field, k=k, rep=rep, islist=isinstance(value, list)):
                        cur = getattr(m, field)
                        c2 = cur[k] if islist else cur
                        new = c2.operand if rep == "operand" else c2.func.value
                        if islist:
                            cur[k] = new
                        else:
                            setattr(m, field, new)
                    yield emit(what, ed)


def gen():
    os.makedirs(OUT, exist_ok=True)
    files = sorted(p for p in glob.glob(REPO + "/mammoth/**/*.py", recursive=True) if os.path.basename(p) not in SKIP)
    jobs = []
    for path in files:
        rel = os.path.relpath(path, REPO)
        src = open(path, encoding="utf-8").read()
        tree = ast.parse(src)
        base = ast.unparse(tree)
        seen = set()
        for m in mutants_of(tree):
            if m is None:
                continue
            desc, t2 = m
            try:
                new = ast.unparse(t2)
                compile(new, rel, "exec")
            except Exception:
                continue
            if new == base or new in seen:
                continue
            seen.add(new)
            jobs.append((rel, desc, base, new))
    print("mutants:", len(jobs), flush=True)
    only = os.environ.get("AUTOMUT_ONLY")
    if only:
        jobs = [j for j in jobs if only in j[0]]
    q = queue.Queue()
    for j in jobs:
        q.put(j)
    survivors = []
    killed = [0]
    lock = threading.Lock()

    def worker(k):
        wt = os.path.join(SCR, "g%d" % k)
        sh("git", "-C", REPO, "worktree", "remove", "--force", wt)
        shutil.rmtree(wt, ignore_errors=True)
        sh("git", "-C", REPO, "worktree", "prune")
        r = sh("git", "-C", REPO, "worktree", "add", "--detach", wt, "HEAD")
        assert r.returncode == 0, r.stderr
        try:
            while True:
                try:
                    rel, desc, base, new = q.get_nowait()
                except queue.Empty:
                    break
                orig = open(os.path.join(wt, rel), encoding="utf-8").read()
                open(os.path.join(wt, rel), "w", encoding="utf-8").write(new + "\n")
                try:
                    r = sh("/venv/bin/python", "-m", "pytest", "-q", "-x", "-p", "no:cacheprovider", "--deselect", "tests/cli_tests.py", "tests",
                           cwd=wt, timeout=120, env=dict(os.environ, PYTHONDONTWRITEBYTECODE="1"))
                    ok = r.returncode == 0 and "462 passed" in r.stdout
                except subprocess.TimeoutExpired:
                    ok = False
                open(os.path.join(wt, rel), "w", encoding="utf-8").write(orig)
                with lock:
                    if ok:
                        # the diff is taken against the NORMALISED (ast.unparse) original so that it shows the mutation only
                        d = "".join(difflib.unified_diff((base + "\n").splitlines(True), (new + "\n").splitlines(True), rel, rel, n=2))
                        mid = hashlib.sha1((rel + desc + new).encode()).hexdigest()[:10]
                        survivors.append(dict(id=mid, file=rel, desc=desc, diff=d, new_source=new))
                    else:
                        killed[0] += 1
                    n = killed[0] + len(survivors)
                    if n % 100 == 0:
                        print("%d done, %d survive" % (n, len(survivors)), flush=True)
        finally:
            sh("git", "-C", REPO, "worktree", "remove", "--force", wt)
            shutil.rmtree(wt, ignore_errors=True)
            sh("git", "-C", REPO, "worktree", "prune")

    j = int(os.environ.get("AUTOMUT_J", "6"))
    ths = [threading.Thread(target=worker, args=(k,)) for k in range(j)]
    [t.start() for t in ths]
    [t.join() for t in ths]
    survivors.sort(key=lambda s: (s["file"], s["desc"]))
    json.dump(dict(total=len(jobs), killed_by_tests=killed[0], survivors=survivors), open(OUT + "/survivors.json", "w"), indent=1)
    print("total %d, killed by the library's tests %d, survivors %d" % (len(jobs), killed[0], len(survivors)))


def anchors():
    a = {}
    for line in open("/verif/properties.jsonl"):
        p = json.loads(line)
        for f in (p.get("anchors") or {}).get("files") or []:
            a.setdefault(f, []).append(p["id"])
    return a


def run(args):
    j = 6
    only = []
    while args:
        x = args.pop(0)
        if x == "-j":
            j = int(args.pop(0))
        else:
            only.append(x)
    S = json.load(open(OUT + "/survivors.json"))["survivors"]
    anc = anchors()
    respath = OUT + "/results.json"
    results = json.load(open(respath)) if os.path.exists(respath) else {}
    jobs = []
    for s in S:
        if only and not any(o in s["file"] or o == s["id"] for o in only):
            continue
        props = anc.get(s["file"], [])
        if not props:
            continue
        todo = [p for p in props if "%s/%s" % (s["id"], p) not in results]
        if todo:
            jobs.append((s, todo))
    print("survivors to run:", len(jobs), "checks:", sum(len(t) for _, t in jobs), flush=True)
    q = queue.Queue()
    for jb in jobs:
        q.put(jb)
    lock = threading.Lock()

    def worker(k):
        base = os.path.join(SCR, "r%d" % k)
        vcopy, wt = base + "/verif", base + "/repo"
        os.makedirs(base, exist_ok=True)
        sh("git", "-C", REPO, "worktree", "remove", "--force", wt)
        shutil.rmtree(wt, ignore_errors=True)
        sh("git", "-C", REPO, "worktree", "prune")
        r = sh("git", "-C", REPO, "worktree", "add", "--detach", wt, "HEAD")
        assert r.returncode == 0, r.stderr
        sh("rsync", "-a", "--delete", "--exclude", ".git", "--exclude", "work/*", "--exclude", "replays/*", "/verif/", vcopy + "/")
        env = dict(os.environ, VERIF_REPO=wt, PYTHONDONTWRITEBYTECODE="1")
        try:
            while True:
                try:
                    s, todo = q.get_nowait()
                except queue.Empty:
                    break
                path = os.path.join(wt, s["file"])
                orig = open(path, encoding="utf-8").read()
                open(path, "w", encoding="utf-8").write(s["new_source"] + "\n")
                COST = dict(C06=1, C07=1, C18=1, C11=2, C09=2, C14=2, C20=2, C17=3, C04=3, C19=3, C15=4, C12=4, C08=5, C05=5, C02=6, C03=6, C01=6, C10=7, C16=8, C13=9)
                for p in sorted(todo, key=lambda x: COST.get(x, 5)):
                    if os.environ.get("AUTOMUT_ALL") != "1" and any(results.get("%s/%s" % (s["id"], q), {}).get("exit") == 1 for q in todo):
                        break   # already reported by one check: enough for the measurement
                    t = time.time()
                    try:
                        r = sh(vcopy + "/check", p, "--tier", "quick", cwd=vcopy, timeout=1800, env=env)
                        rc, outp, errp = r.returncode, r.stdout, r.stderr
                    except subprocess.TimeoutExpired:
                        rc, outp, errp = 2, "TIMEOUT", ""
                    line = next((l for l in outp.splitlines() if l.startswith("VIOLATION")), "")
                    res = dict(exit=rc, seconds=round(time.time() - t), nfi="no-failing-input-found" in line)
                    if rc == 2:
                        res["stderr_tail"] = errp[-300:]
                    with lock:
                        results["%s/%s" % (s["id"], p)] = res
                        json.dump(results, open(respath, "w"), indent=1)
                        print(s["id"], s["file"], s["desc"], p, res, flush=True)
                open(path, "w", encoding="utf-8").write(orig)
        finally:
            sh("git", "-C", REPO, "worktree", "remove", "--force", wt)
            shutil.rmtree(base, ignore_errors=True)
            sh("git", "-C", REPO, "worktree", "prune")

    ths = [threading.Thread(target=worker, args=(k,)) for k in range(min(j, max(1, len(jobs))))]
    [t.start() for t in ths]
    [t.join() for t in ths]


def report():
    S = json.load(open(OUT + "/survivors.json"))
    R = json.load(open(OUT + "/results.json")) if os.path.exists(OUT + "/results.json") else {}
    by = {}
    print("mutants %d, killed by the library's own tests %d, survivors %d" % (S["total"], S["killed_by_tests"], len(S["survivors"])))
    missed = []
    n_any = n_none = n_unanch = 0
    for s in S["survivors"]:
        rs = {k.split("/")[1]: v for k, v in R.items() if k.startswith(s["id"] + "/")}
        if not rs:
            n_unanch += 1
            continue
        if any(v["exit"] == 1 for v in rs.values()):
            n_any += 1
        else:
            n_none += 1
            missed.append((s, rs))
    print("survivors in files anchored by a property and run: %d; reported by at least one check: %d; by none: %d; not run / not anchored: %d"
          % (n_any + n_none, n_any, n_none, n_unanch))
    for s, rs in missed:
        print("MISSED %s %s %s  checks=%s" % (s["id"], s["file"], s["desc"], ",".join("%s:%s" % (k, v["exit"]) for k, v in sorted(rs.items()))))


if __name__ == "__main__":
    cmd = sys.argv[1] if len(sys.argv) > 1 else "report"
    if cmd == "gen":
        gen()
    elif cmd == "run":
        run(sys.argv[2:])
    else:
        report()
