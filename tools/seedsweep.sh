#!/bin/bash
# seedsweep.sh <from> <to> [ids...] : run every check's quick tier (correspondence/observation side only) for several seeds on the clean tree
from=$1; to=$2; shift 2
ids=${@:-C01 C02 C03 C04 C05 C06 C07 C08 C09 C10 C11 C12 C13 C14 C15 C16 C17 C18 C19 C20}
mkdir -p /verif/work/sweep
for s in $(seq $from $to); do
  for id in $ids; do
    echo "VERIF_SEED=$s /verif/check $id --tier quick --no-prove > /verif/work/sweep/$id-$s.out 2>&1; echo $id seed=$s exit=\$?"
  done
done | xargs -P ${SWEEP_JOBS:-8} -I{} bash -c "{}"
